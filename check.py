#!/usr/bin/env python3
"""Entry point of the static checks:  python3 check.py <Cxx> [--tier quick|thorough] [--only RULE] [--root DIR]

exit 0: every rule instance held (known findings are printed as KNOWN-FINDING lines)
exit 1: VIOLATION property=<id> replay=<path>
exit 2: analysis broken (unit does not parse, anchor vanished, unrecognised idiom, rule below its minimum)
"""
import argparse
import importlib
import os
import sys
import traceback

sys.path.insert(0, os.path.dirname(os.path.abspath(__file__)))

from vlib import facts, report  # noqa: E402


def main():
    ap = argparse.ArgumentParser()
    ap.add_argument('prop')
    ap.add_argument('--tier', default=os.environ.get('VERIF_TIER', 'quick'))
    ap.add_argument('--only', default=None, help='run only this rule')
    ap.add_argument('--root', default=None, help='analyse this copy of the repository instead of /repo')
    a = ap.parse_args()
    prop = a.prop.upper()
    if a.root:
        facts.REPO = os.path.abspath(a.root)
    tier = a.tier if a.tier in ('quick', 'thorough') else 'quick'
    ctx = report.Ctx(prop, tier, root=facts.REPO, only_rule=a.only)
    try:
        mod = importlib.import_module('rules.' + prop.lower())
        mod.run(ctx)
        rc = ctx.finish()
    except facts.AnalysisBroken as e:
        if ctx.reports:
            # some rule could not be carried out, but others already found violations: those stand
            ctx.broken_rules.append(str(e))
            try:
                rc = ctx.finish()
                if rc == 1:
                    return 1
            except facts.AnalysisBroken:
                pass
        print('ANALYSIS-BROKEN property=%s: %s' % (prop, e))
        try:
            ctx.write_evidence(0, [], broken=str(e))
        except Exception:
            pass
        return 2
    except Exception:
        traceback.print_exc()
        print('ANALYSIS-BROKEN property=%s: internal error in the checker' % prop)
        try:
            ctx.write_evidence(0, [], broken='internal error')
        except Exception:
            pass
        return 2
    if rc == 0:
        tot = sum(r['instances'] for r in ctx.rules.values())
        print('OK property=%s tier=%s rules=%d instances=%d wall=%.1fs' %
              (prop, tier, len(ctx.rules), tot, __import__('time').time() - ctx.t0))
    return rc


if __name__ == '__main__':
    sys.exit(main())
