// configs: KT KF
// Probe (parsed, never executed): instantiates every member of yaclib_std::atomic<T>, atomic_flag and the
// fences individually, so that each body of the fault wrapper (fault/detail/atomic.hpp, atomic_flag.hpp) and of
// the fiber re-implementation (fault/detail/fiber/atomic*.hpp) exists as a non-dependent instantiation in the
// analysed program.  The repository's own tests use only load/store/exchange/CAS/fetch_add/fetch_sub.
#include <yaclib_std/atomic>

#include <cstddef>
#include <cstdint>

namespace probe {

constexpr auto kO = std::memory_order_seq_cst;

template <typename A>
struct ImplOf;
template <typename Impl, typename T>
struct ImplOf<yaclib::detail::Atomic<Impl, T>> {
  using type = Impl;
};

template <typename A, typename T>
void Common(A& a, T x, T y) {
  // (well-formed since the fix of F16: before it the implicit copy assignment of every derived class hid
  // AtomicBase::operator=(T), and the fiber implementation had no operator=(T) at all)
  (void)(a = x);
  a.store(x);
  a.store(x, kO);
  (void)a.load();
  (void)a.load(kO);
  (void)static_cast<T>(a);
  (void)a.exchange(x);
  (void)a.exchange(x, kO);
  (void)a.compare_exchange_weak(y, x);
  (void)a.compare_exchange_weak(y, x, kO);
  (void)a.compare_exchange_weak(y, x, kO, kO);
  (void)a.compare_exchange_strong(y, x);
  (void)a.compare_exchange_strong(y, x, kO);
  (void)a.compare_exchange_strong(y, x, kO, kO);
  (void)a.is_lock_free();
}

// volatile twins: only those members whose bodies are well-formed on a volatile object
template <typename A, typename T>
void CommonVolatile(volatile A& a, T x, T y) {
  (void)(a = x);
  a.store(x);
  (void)a.load();
  (void)a.exchange(x);
  // (well-formed since the fix of F15; before it the fiber volatile CAS bodies called a non-volatile helper)
  (void)a.compare_exchange_weak(y, x);
  (void)a.compare_exchange_weak(y, x, kO, kO);
  (void)a.compare_exchange_strong(y, x);
  (void)a.compare_exchange_strong(y, x, kO, kO);
  (void)a.is_lock_free();
}

template <typename A, typename T, typename D>
void Arith(A& a, D d) {
  (void)a.fetch_add(d);
  (void)a.fetch_add(d, kO);
  (void)a.fetch_sub(d);
  (void)a.fetch_sub(d, kO);
  (void)(a += d);
  (void)(a -= d);
}

template <typename A, typename T, typename D>
void ArithVolatile(volatile A& a, D d) {
  (void)a.fetch_add(d);
  (void)a.fetch_sub(d);
  (void)(a += d);
  (void)(a -= d);
}

template <typename A>
void IncDec(A& a) {
  (void)++a;
  (void)a++;
  (void)--a;
  (void)a--;
}

// (well-formed since the fix of F15: the wrapper cast *this to a non-volatile Impl&)
template <typename A>
void IncDecVolatile(volatile A& a) {
  (void)++a;
  (void)a++;
  (void)--a;
  (void)a--;
}

template <typename A, typename T>
void Bits(A& a, T x) {
  (void)a.fetch_and(x);
  (void)a.fetch_and(x, kO);
  (void)a.fetch_or(x);
  (void)a.fetch_or(x, kO);
  (void)a.fetch_xor(x);
  (void)a.fetch_xor(x, kO);
  (void)(a &= x);
  (void)(a |= x);
  (void)(a ^= x);
}

template <typename A, typename T>
void BitsVolatile(volatile A& a, T x) {
  (void)a.fetch_and(x);
  (void)a.fetch_or(x);
  (void)a.fetch_xor(x);
  (void)(a &= x);
  (void)(a |= x);
  (void)(a ^= x);
}

template <typename T>
void Integral() {
  yaclib_std::atomic<T> a{T{1}};
  Common(a, T{2}, T{3});
  CommonVolatile(a, T{2}, T{3});
  Arith<decltype(a), T, T>(a, T{1});
  ArithVolatile<decltype(a), T, T>(a, T{1});
  IncDec(a);
  IncDecVolatile(a);
  Bits(a, T{1});
  BitsVolatile(a, T{1});
}

template <typename T>
void Floating() {
  yaclib_std::atomic<T> a{T{1}};
  Common(a, T{2}, T{3});
  CommonVolatile(a, T{2}, T{3});
#if YACLIB_FAULT == 2 || __cpp_lib_atomic_float
  Arith<decltype(a), T, T>(a, T{1});
  ArithVolatile<decltype(a), T, T>(a, T{1});
#endif
}

void Bool() {
  yaclib_std::atomic<bool> a{true};
  Common(a, false, true);
  CommonVolatile(a, false, true);
}

void Pointer() {
  static int arr[4];
  yaclib_std::atomic<int*> a{arr};
  Common(a, static_cast<int*>(arr + 1), static_cast<int*>(arr + 2));
  CommonVolatile(a, static_cast<int*>(arr + 1), static_cast<int*>(arr + 2));
  Arith<decltype(a), int*, std::ptrdiff_t>(a, std::ptrdiff_t{1});
  ArithVolatile<decltype(a), int*, std::ptrdiff_t>(a, std::ptrdiff_t{1});
  IncDec(a);
  IncDecVolatile(a);
}

void Flag() {
  yaclib_std::atomic_flag f;
  f.clear();
  f.clear(kO);
  (void)f.test_and_set();
  (void)f.test_and_set(kO);
  volatile yaclib_std::atomic_flag& vf = f;
  vf.clear();
  (void)vf.test_and_set();
}

void Fences() {
  yaclib_std::atomic_thread_fence(kO);
  yaclib_std::atomic_signal_fence(kO);
}

}  // namespace probe

extern "C" void probe_atomic_all() {
  probe::Bool();
  probe::Integral<std::int8_t>();
  probe::Integral<std::uint8_t>();
  probe::Integral<std::int16_t>();
  probe::Integral<std::uint16_t>();
  probe::Integral<std::int32_t>();
  probe::Integral<std::uint32_t>();
  probe::Integral<std::int64_t>();
  probe::Integral<std::uint64_t>();
  probe::Integral<char>();
  probe::Floating<float>();
  probe::Floating<double>();
  probe::Pointer();
  probe::Flag();
  probe::Fences();
}
