// configs: ALLOC17 ALLOC20
// Probe for R-ALLOC (C20): compiled to LLVM IR only (never linked into a program, never executed).
// One extern "C" entry per API step; inputs arrive by reference so that only the step itself is measured.
#include <yaclib/async/connect.hpp>
#include <yaclib/async/contract.hpp>
#include <yaclib/async/join.hpp>
#include <yaclib/async/make.hpp>
#include <yaclib/async/run.hpp>
#include <yaclib/async/share.hpp>
#include <yaclib/async/shared_contract.hpp>
#include <yaclib/async/split.hpp>
#include <yaclib/async/wait.hpp>
#include <yaclib/async/wait_for.hpp>
#include <yaclib/async/wait_until.hpp>
#include <yaclib/async/when_all.hpp>
#include <yaclib/async/when_any.hpp>
#include <yaclib/exe/strand.hpp>
#include <yaclib/lazy/make.hpp>
#include <yaclib/lazy/schedule.hpp>

#include <chrono>
#include <exception>
#include <string>
#include <vector>

#if YACLIB_CORO != 0
#  include <yaclib/algo/wait_group.hpp>
#  include <yaclib/coro/await.hpp>
#  include <yaclib/coro/await_on.hpp>
#  include <yaclib/coro/await_sticky.hpp>
#  include <yaclib/coro/current_executor.hpp>
#  include <yaclib/coro/future.hpp>
#  include <yaclib/coro/on.hpp>
#  include <yaclib/coro/task.hpp>
#  include <yaclib/coro/yield.hpp>
#endif

using namespace yaclib;
using namespace std::chrono_literals;

// a value whose copy allocates (std::string member) and whose move constructor / assignment are NOT noexcept
struct LooseValue {
  std::string text;
  LooseValue() = default;
  LooseValue(const LooseValue&) = default;
  LooseValue& operator=(const LooseValue&) = default;
  LooseValue(LooseValue&& other) : text(std::move(other.text)) {
  }
  LooseValue& operator=(LooseValue&& other) {
    text = std::move(other.text);
    return *this;
  }
};

extern "C" {
// ---------------------------------------------------------------- one allocation per pipeline step  (bound 1)
void step1_run_exec(IExecutor& e, FutureOn<int>& out) {
  out = Run(e, [] {
    return 1;
  });
}
void step1_run_inline(Future<int>& out) {
  out = Run([] {
    return 1;
  });
}
void step1_run_shared(IExecutor& e, SharedFutureOn<int>& out) {
  out = RunShared(e, [] {
    return 1;
  });
}
void step1_async_contract(IExecutor& e, FutureOn<int>& out) {
  out = AsyncContract<int>(e, [](Promise<int> p) {
    std::move(p).Set(1);
  });
}
void step1_schedule(IExecutor& e, Task<int>& out) {
  out = Schedule(e, [] {
    return 1;
  });
}
void step1_lazy_contract(IExecutor& e, Task<int>& out) {
  out = LazyContract<int>(e, [](Promise<int> p) {
    std::move(p).Set(1);
  });
}
void step1_then_inline_value(Future<int>& f, Future<int>& out) {
  out = std::move(f).ThenInline([](int x) {
    return x + 1;
  });
}
void step1_then_inline_result(Future<int>& f, Future<int>& out) {
  out = std::move(f).ThenInline([](Result<int>&& r) {
    return std::move(r).Ok();
  });
}
void step1_then_inline_error(Future<int>& f, Future<int>& out) {
  out = std::move(f).ThenInline([](StopError) {
    return 0;
  });
}
void step1_then_inline_exception(Future<int>& f, Future<int>& out) {
  out = std::move(f).ThenInline([](std::exception_ptr) {
    return 0;
  });
}
void step1_then_inline_void(Future<>& f, Future<>& out) {
  out = std::move(f).ThenInline([] {
  });
}
void step1_then_exec(Future<int>& f, IExecutor& e, FutureOn<int>& out) {
  out = std::move(f).Then(e, [](int x) {
    return x + 1;
  });
}
void step1_then_on(FutureOn<int>& f, FutureOn<int>& out) {
  out = std::move(f).Then([](int x) {
    return x + 1;
  });
}
void step1_then_unwrap_future(Future<int>& f, Future<int>& out) {
  out = std::move(f).ThenInline([](int x) {
    return MakeFuture(x);
  });
}
void step1_then_unwrap_future_exec(Future<int>& f, IExecutor& e, FutureOn<int>& out) {
  out = std::move(f).Then(e, [](int x) {
    return MakeFuture(x);
  });
}
void step1_then_unwrap_task(Future<int>& f, Future<int>& out) {
  out = std::move(f).ThenInline([](int x) {
    return MakeTask(x);
  });
}
void step1_then_unwrap_shared(Future<int>& f, SharedFuture<int>& inner, Future<int>& out) {
  out = std::move(f).ThenInline([&](int) {
    return inner;
  });
}
// ---- "regardless of callback signature": the capture size / kind of the callable is part of the signature space.
// Fat captures (72 bytes: just above eight pointers; 1 KiB), a mutable lambda, a function pointer, a functor passed
// as an lvalue: each step still allocates once (the callable lives inside the step's core).
struct Fat72 {
  char bytes[72];
};
struct Fat1K {
  char bytes[1024];
};
struct CountingFunctor {
  int calls = 0;
  int operator()(int x) {
    return x + ++calls;
  }
};
int PlainFunction(int x);
void step1_fat72_run_exec(IExecutor& e, Fat72& c, FutureOn<int>& out) {
  out = Run(e, [c] {
    return static_cast<int>(c.bytes[0]);
  });
}
void step1_fat1k_run_inline(Fat1K& c, Future<int>& out) {
  out = Run([c] {
    return static_cast<int>(c.bytes[0]);
  });
}
void step1_fat72_then_inline(Future<int>& f, Fat72& c, Future<int>& out) {
  out = std::move(f).ThenInline([c](int x) {
    return x + c.bytes[0];
  });
}
void step1_fat1k_then_exec(Future<int>& f, IExecutor& e, Fat1K& c, FutureOn<int>& out) {
  out = std::move(f).Then(e, [c](Result<int>&& r) {
    return std::move(r).Ok() + c.bytes[0];
  });
}
void step1_fat72_then_unwrap(Future<int>& f, Fat72& c, Future<int>& out) {
  out = std::move(f).ThenInline([c](int x) {
    return MakeFuture(x + c.bytes[0]);
  });
}
void step1_fat72_detach_exec(Future<int>& f, IExecutor& e, Fat72& c) {
  std::move(f).Detach(e, [c](int) {
  });
}
void step1_fat72_schedule(IExecutor& e, Fat72& c, Task<int>& out) {
  out = Schedule(e, [c] {
    return static_cast<int>(c.bytes[0]);
  });
}
void step1_fat72_async_contract(IExecutor& e, Fat72& c, FutureOn<int>& out) {
  out = AsyncContract<int>(e, [c](Promise<int> p) {
    std::move(p).Set(c.bytes[0]);
  });
}
void step1_fat72_task_then(Task<int>& t, Fat72& c, Task<int>& out) {
  out = std::move(t).ThenInline([c](int x) {
    return x + c.bytes[0];
  });
}
void step1_mutable_lambda_then(Future<int>& f, Future<int>& out) {
  out = std::move(f).ThenInline([n = 0](int x) mutable {
    return x + ++n;
  });
}
void step1_function_pointer_then(Future<int>& f, Future<int>& out) {
  out = std::move(f).ThenInline(&PlainFunction);
}
void step1_function_reference_then(Future<int>& f, Future<int>& out) {
  out = std::move(f).ThenInline(PlainFunction);
}
void step1_lvalue_functor_then(Future<int>& f, CountingFunctor& fn, Future<int>& out) {
  out = std::move(f).ThenInline(fn);
}
void step1_fat72_shared_then(SharedFuture<int>& f, Fat72& c, Future<int>& out) {
  out = f.ThenInline([c](int x) {
    return x + c.bytes[0];
  });
}
void step1_detach_inline(Future<int>& f) {
  std::move(f).DetachInline([](int) {
  });
}
void step1_detach_exec(Future<int>& f, IExecutor& e) {
  std::move(f).Detach(e, [](int) {
  });
}
void step1_detach_on(FutureOn<int>& f) {
  std::move(f).Detach([](int) {
  });
}
void step1_shared_then_inline(SharedFuture<int>& f, Future<int>& out) {
  out = f.ThenInline([](int x) {
    return x + 1;
  });
}
void step1_shared_then_exec(SharedFuture<int>& f, IExecutor& e, FutureOn<int>& out) {
  out = f.Then(e, [](int x) {
    return x + 1;
  });
}
void step1_shared_subscribe_inline(SharedFuture<int>& f) {
  f.SubscribeInline([](int) {
  });
}
void step1_shared_subscribe(SharedFuture<int>& f, IExecutor& e) {
  f.Subscribe(e, [](int) {
  });
}
void step1_task_then_inline(Task<int>& t, Task<int>& out) {
  out = std::move(t).ThenInline([](int x) {
    return x + 1;
  });
}
void step1_task_then_exec(Task<int>& t, IExecutor& e, Task<int>& out) {
  out = std::move(t).Then(e, [](int x) {
    return x + 1;
  });
}
void step1_task_then(Task<int>& t, Task<int>& out) {
  out = std::move(t).Then([](int x) {
    return x + 1;
  });
}
void step1_make_future(Future<int>& out) {
  out = MakeFuture(1);
}
void step1_make_future_void(Future<>& out) {
  out = MakeFuture();
}
void step1_make_task(Task<int>& out) {
  out = MakeTask(1);
}
void step1_make_contract(Contract<int, StopError>& out) {
  out = MakeContract<int>();
}
void step1_make_contract_on(IExecutor& e, ContractOn<int, StopError>& out) {
  out = MakeContractOn<int>(e);
}
void step1_make_shared_contract(SharedContract<int, StopError>& out) {
  out = MakeSharedContract<int>();
}
void step1_share(SharedFuture<int>& f, Future<int>& out) {
  out = Share(f);
}
void step1_split(Future<int>& f, SharedFuture<int>& out) {
  out = Split(std::move(f));
}
// ---------------------------------------------------------------- nothing to wait / start / connect     (bound 0)
void step0_wait1(Future<int>& a) {
  Wait(a);
}
void step0_wait2(Future<int>& a, Future<double>& b) {
  Wait(a, b);
}
void step0_wait_it(std::vector<Future<int>>& v) {
  Wait(v.begin(), v.end());
}
bool step0_wait_for1(Future<int>& a) {
  return WaitFor(1s, a);
}
bool step0_wait_for2(Future<int>& a, Future<int>& b) {
  return WaitFor(1s, a, b);
}
bool step0_wait_for_it(std::vector<Future<int>>& v) {
  return WaitFor(1s, v.begin(), v.end());
}
bool step0_wait_until_it(std::vector<Future<int>>& v) {
  return WaitUntil(std::chrono::steady_clock::now() + 1s, v.begin(), v.size());
}
bool step0_wait_for_count(std::vector<Future<int>>& v) {
  return WaitFor(1s, v.begin(), v.size());
}
void step0_wait_count(std::vector<Future<int>>& v) {
  Wait(v.begin(), v.size());
}
bool step0_wait_until2(Future<int>& a, Future<int>& b) {
  return WaitUntil(std::chrono::steady_clock::now() + 1s, a, b);
}
void step0_get(Future<int>& a, Result<int, StopError>& r) {
  r = std::move(a).Get();
}
void step0_strand_submit(IExecutor& strand, Job& j) {
  strand.Submit(j);
}
void step0_connect(Future<int>& f, Promise<int>& p) {
  Connect(std::move(f), std::move(p));
}
void step0_task_to_future(Task<int>& t, Future<int>& out) {
  out = std::move(t).ToFuture();
}
void step0_task_detach(Task<int>& t) {
  std::move(t).Detach();
}
void step0_promise_set(Promise<int>& p) {
  std::move(p).Set(1);
}
// ---------------------------------------------------------------- combinators: a constant number      (finite)
void stepk_when_all_static(Future<int>& a, Future<int>& b, Future<std::vector<int>>& out) {
  out = WhenAll(std::move(a), std::move(b));
}
void stepk_when_all_tuple(Future<int>& a, Future<double>& b, Future<std::tuple<int, double>>& out) {
  out = WhenAll(std::move(a), std::move(b));
}
void stepk_when_all_dynamic(std::vector<Future<int>>& v, Future<std::vector<int>>& out) {
  out = WhenAll(v.begin(), v.size());
}
void stepk_when_all_dynamic_none(std::vector<Future<int>>& v, Future<std::vector<Result<int>>>& out) {
  out = WhenAll<FailPolicy::None>(v.begin(), v.size());
}
void stepk_when_any_static(Future<int>& a, Future<int>& b, Future<int>& out) {
  out = WhenAny(std::move(a), std::move(b));
}
void stepk_when_any_dynamic(std::vector<Future<int>>& v, Future<int>& out) {
  out = WhenAny(v.begin(), v.size());
}
void stepk_when_any_dynamic_firstfail(std::vector<Future<int>>& v, Future<int>& out) {
  out = WhenAny<FailPolicy::FirstFail>(v.begin(), v.size());
}
void stepk_join_static(Future<int>& a, Future<double>& b, Future<>& out) {
  out = Join(std::move(a), std::move(b));
}
void stepk_join_dynamic(std::vector<Future<int>>& v, Future<>& out) {
  out = Join(v.begin(), v.size());
}
// ---- value / error types whose copy allocates and whose move is not noexcept: taking an input's result out of its core
// must still be a move (a move_if_noexcept-style "safe" copy costs one block per input)
void stepk_when_all_dynamic_loose(std::vector<Future<LooseValue>>& v, Future<std::vector<LooseValue>>& out) {
  out = WhenAll(v.begin(), v.size());
}
void stepk_when_any_dynamic_loose(std::vector<Future<LooseValue>>& v, Future<LooseValue>& out) {
  out = WhenAny(v.begin(), v.size());
}
void stepk_when_all_static_loose(Future<LooseValue>& a, Future<LooseValue>& b, Future<std::vector<LooseValue>>& out) {
  out = WhenAll(std::move(a), std::move(b));
}
void stepk_join_dynamic_loose_firstfail(std::vector<Future<LooseValue>>& v, Future<>& out) {
  out = Join<FailPolicy::FirstFail>(v.begin(), v.size());
}
}  // extern "C"

#if YACLIB_CORO != 0
// Coroutines below only *instantiate* the awaiters; the measured entries are the awaiter members
// (await_ready / await_suspend / await_resume) and factories, selected by name — not these coroutine bodies,
// whose frame allocation is the user's, not the library's.
namespace probe {
Task<int> CoTask();
Future<int> UseAwaiters(IExecutor& e, Future<int>& f1, Future<double>& f2, SharedFuture<int>& s1, std::vector<Future<int>>& fs,
                        Task<int>& t1) {
  co_await Await(f1);
  co_await Await(s1);
  co_await Await(t1);
  co_await Await(f1, f2);
  co_await Await(f1, s1);
  co_await Await(fs.begin(), fs.end());
  co_await AwaitSticky(f1);
  co_await AwaitSticky(f1, f2);
  co_await AwaitOn(e, f1);
  co_await AwaitOn(e, f1, f2);
  co_await AwaitOn(e, fs.begin(), fs.end());
  co_await On(e);
  co_await kYield;
  co_await Yield();
  (void)co_await CurrentExecutor();
  int x = co_await std::move(f1);
  x += co_await s1;
  x += co_await std::move(t1);
  co_return x;
}
}  // namespace probe
#endif
