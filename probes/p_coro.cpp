// configs: K20 K20n KF
// Probe (parsed, never executed): coroutines returning Future/Task/SharedFuture, every awaiter, the coroutine
// Mutex<Batching,FIFO> x4 and SharedMutex<FIFO,ReadersFIFO> x4, WaitGroup / OneShotEvent awaiters.
#include <yaclib/algo/one_shot_event.hpp>
#include <yaclib/algo/wait_group.hpp>
#include <yaclib/async/contract.hpp>
#include <yaclib/async/make.hpp>
#include <yaclib/async/run.hpp>
#include <yaclib/async/shared_contract.hpp>
#include <yaclib/coro/await.hpp>
#include <yaclib/coro/await_on.hpp>
#include <yaclib/coro/await_sticky.hpp>
#include <yaclib/coro/current_executor.hpp>
#include <yaclib/coro/future.hpp>
#include <yaclib/coro/guard.hpp>
#include <yaclib/coro/guard_sticky.hpp>
#include <yaclib/coro/mutex.hpp>
#include <yaclib/coro/on.hpp>
#include <yaclib/coro/shared_future.hpp>
#include <yaclib/coro/shared_mutex.hpp>
#include <yaclib/coro/task.hpp>
#include <yaclib/coro/yield.hpp>
#include <yaclib/lazy/make.hpp>
#include <yaclib/lazy/schedule.hpp>

#include <chrono>
#include <string>
#include <vector>

namespace probe {

using namespace std::chrono_literals;
using yaclib::Future;
using yaclib::SharedFuture;
using yaclib::Task;

yaclib::IExecutor& Exe();

template <typename T>
void Sink(T&&);

// ---- coroutine return kinds
Future<int> CoFuture() {
  co_return 1;
}
Future<> CoFutureVoid() {
  co_return{};
}
Task<int> CoTask() {
  co_return 1;
}
Task<> CoTaskVoid() {
  co_return{};
}
SharedFuture<int> CoShared() {
  co_return 1;
}
Future<std::string> CoThrows() {
  throw 1;
  co_return std::string{};
}
Future<int> CoStop() {
  co_return yaclib::StopTag{};
}

// ---- single awaits
Future<int> AwaitSingles() {
  int x = co_await yaclib::MakeFuture(1);
  x += co_await yaclib::MakeContract<int>().first;
  auto sf = yaclib::MakeSharedContract<int>().first;
  x += co_await sf;
  x += co_await CoTask();
  x += co_await yaclib::MakeTask(1);
  x += co_await yaclib::Schedule(Exe(), [] {
    return 1;
  });
  x += co_await yaclib::LazyContract<int>(Exe(), [](yaclib::Promise<int> p) {
    std::move(p).Set(1);
  });
  x += co_await CoFuture();
  x += co_await CoShared();
  co_await CoFutureVoid();
  co_await CoTaskVoid();
  co_return x;
}

// ---- Await / AwaitOn / AwaitSticky / AwaitInline of 1, n, iterator x unique / shared / mixed
Future<int> AwaitForms() {
  auto f1 = yaclib::MakeContract<int>().first;
  auto f2 = yaclib::MakeContract<std::string>().first;
  auto s1 = yaclib::MakeSharedContract<int>().first;
  auto s2 = yaclib::MakeSharedContract<int>().first;
  auto t1 = CoTask();
  std::vector<Future<int>> fs;
  std::vector<SharedFuture<int>> ss;
  co_await Await(f1);
  co_await Await(s1);
  co_await Await(t1);
  co_await Await(f1, f2);
  co_await Await(s1, s2);
  co_await Await(f1, s1);
  co_await Await(f1, s1, f2, s2);
  co_await Await(fs.begin(), fs.end());
  co_await Await(fs.begin(), fs.size());
  co_await Await(ss.begin(), ss.end());
  co_await AwaitInline(f1);
  co_await AwaitInline(f1, f2);
  co_await AwaitInline(fs.begin(), fs.end());
  co_await AwaitSticky(f1);
  co_await AwaitSticky(s1);
  co_await AwaitSticky(f1, f2);
  co_await AwaitSticky(f1, s1);
  co_await AwaitSticky(fs.begin(), fs.end());
  co_await AwaitSticky(ss.begin(), ss.size());
  co_await AwaitOn(Exe(), f1);
  co_await AwaitOn(Exe(), s1);
  co_await AwaitOn(Exe(), f1, f2);
  co_await AwaitOn(Exe(), f1, s1);
  co_await AwaitOn(Exe(), s1, s2);
  co_await AwaitOn(Exe(), fs.begin(), fs.end());
  co_await AwaitOn(Exe(), ss.begin(), ss.end());
  co_await On(Exe());
  co_await yaclib::kYield;
  co_await yaclib::Yield();
  auto& e = co_await yaclib::CurrentExecutor();
  Sink(e);
  co_return std::as_const(f1).Touch().Ok();
}

Task<int> AwaitInTask() {
  auto f1 = yaclib::MakeContract<int>().first;
  co_await Await(f1);
  co_await On(Exe());
  co_await yaclib::Yield();
  int x = co_await CoTask();
  x += co_await yaclib::MakeFuture(1);
  co_return x;
}

SharedFuture<int> AwaitInShared() {
  auto f1 = yaclib::MakeContract<int>().first;
  co_await Await(f1);
  co_await On(Exe());
  int x = co_await CoTask();
  co_return x;
}

// ---- coroutine results used as pipeline steps / inner results
void Pipelines() {
  Sink(CoFuture().ThenInline([](int x) {
    return x;
  }));
  Sink(CoTask().Then(Exe(), [](int x) {
    return x;
  }));
  Sink(CoTask().ToFuture());
  Sink(CoTask().ToFuture(Exe()));
  Sink(CoTask().Get());
  CoTask().Detach();
  CoTask().Detach(Exe());
  CoTask().Cancel();
  CoTask();
  Sink(yaclib::MakeFuture(1).ThenInline([](int) {
    return CoTask();
  }));
  Sink(yaclib::MakeFuture(1).Then(Exe(), [](int) {
    return CoTask();
  }));
  Sink(yaclib::MakeFuture(1).ThenInline([](int) {
    return CoFuture();
  }));
  Sink(yaclib::MakeFuture(1).ThenInline([](int) {
    return CoShared();
  }));
  Sink(yaclib::MakeTask(1).ThenInline([](int) {
    return CoTask();
  }));
  Sink(CoShared().ThenInline([](int x) {
    return x;
  }));
  Sink(yaclib::Run(Exe(), [] {
    return CoTask();
  }));
  Sink(yaclib::Schedule(Exe(), [] {
    return CoTask();
  }));
}

// ---- Mutex
template <bool Batching, bool FIFO>
Future<int> MutexForms() {
  yaclib::Mutex<Batching, FIFO> m;
  co_await m.Lock();
  co_await m.Unlock();
  co_await m.Lock();
  co_await m.UnlockOn(Exe());
  co_await m.Lock();
  m.UnlockHere();
  if (m.TryLock()) {
    m.UnlockHere();
  }
  {
    auto g = co_await m.Guard();
    co_await g.Unlock();
    co_await g.Lock();
    co_await g.UnlockOn(Exe());
    Sink(g.OwnsLock());
    Sink(g.TryLock());
    g.UnlockHere();
  }
  {
    auto g = m.TryGuard();
    Sink(g.OwnsLock());
    auto g2 = std::move(g);
    g2.Swap(g);
    Sink(g.Release());
  }
  {
    auto g = co_await m.GuardSticky();
    co_await g.Unlock();
    co_await g.Lock();
    // every member of the sticky guard, move assignment and Swap included
    auto g2 = std::move(g);
    g = std::move(g2);
    g.Swap(g2);
  }
  co_return 1;
}

template <bool FIFO, bool ReadersFIFO>
Future<int> SharedMutexForms() {
  yaclib::SharedMutex<FIFO, ReadersFIFO> m;
  co_await m.Lock();
  m.UnlockHere();
  co_await m.LockShared();
  m.UnlockHereShared();
  if (m.TryLock()) {
    m.UnlockHere();
  }
  if (m.TryLockShared()) {
    m.UnlockHereShared();
  }
  {
    auto g = co_await m.Guard();
    Sink(g.OwnsLock());
  }
  {
    auto g = co_await m.GuardShared();
    Sink(g.OwnsLock());
  }
  {
    auto g = m.TryGuard();
    auto gs = m.TryGuardShared();
    Sink(g.OwnsLock());
    Sink(gs.OwnsLock());
  }
  co_return 1;
}

// ---- WaitGroup / OneShotEvent
Future<int> Events() {
  yaclib::WaitGroup<> wg{1};
  auto f = yaclib::MakeContract<int>().first;
  auto f2 = yaclib::MakeContract<std::string>().first;
  std::vector<Future<int>> fs;
  wg.Add();
  wg.Done();
  wg.Attach(f);
  wg.Attach(f, f2);
  wg.template Attach<false>(f);
  wg.Attach(fs.begin(), fs.end());
  wg.Attach(fs.begin(), fs.size());
  wg.Consume(yaclib::MakeContract<int>().first);
  wg.Consume(yaclib::MakeContract<int>().first, yaclib::MakeContract<std::string>().first);
  wg.template Consume<false>(yaclib::MakeContract<int>().first);
  wg.Consume(fs.begin(), fs.end());
  wg.Consume(fs.begin(), fs.size());
  Sink(wg.Count());
  wg.Wait();
  Sink(wg.WaitFor(1ms));
  Sink(wg.WaitUntil(std::chrono::steady_clock::now()));
  co_await wg;
  co_await wg.AwaitInline();
  co_await wg.AwaitSticky();
  co_await wg.AwaitOn(Exe());
  wg.Reset(1);
  yaclib::OneShotEvent ev;
  ev.Set();
  ev.Wait();
  Sink(ev.WaitFor(1ms));
  Sink(ev.WaitUntil(std::chrono::steady_clock::now()));
  Sink(ev.Ready());
  co_await ev;
  co_await ev.AwaitInline();
  co_await ev.AwaitSticky();
  co_await ev.AwaitOn(Exe());
  ev.Reset();
  co_return 1;
}

}  // namespace probe

extern "C" void probe_coro_all() {
  using namespace probe;
  Sink(CoFuture());
  Sink(CoFutureVoid());
  Sink(CoTask());
  Sink(CoTaskVoid());
  Sink(CoShared());
  Sink(CoThrows());
  Sink(CoStop());
  Sink(AwaitSingles());
  Sink(AwaitForms());
  Sink(AwaitInTask());
  Sink(AwaitInShared());
  Pipelines();
  Sink(MutexForms<false, false>());
  Sink(MutexForms<false, true>());
  Sink(MutexForms<true, false>());
  Sink(MutexForms<true, true>());
  Sink(SharedMutexForms<false, false>());
  Sink(SharedMutexForms<false, true>());
  Sink(SharedMutexForms<true, false>());
  Sink(SharedMutexForms<true, true>());
  Sink(Events());
}
