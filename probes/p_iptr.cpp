// configs: K17
// Probe (parsed, never executed): every member of IntrusivePtr<T>, including the converting constructors and
// assignments from IntrusivePtr<U>, instantiated for one pair Base / Derived (rule R-HANDLESPEC).
#include <yaclib/util/intrusive_ptr.hpp>
#include <yaclib/util/ref.hpp>

#include <utility>

namespace probe {

struct Base : yaclib::IRef {};
struct Derived : Base {};

template <typename T>
void Sink(T&&);

}  // namespace probe

template class yaclib::IntrusivePtr<probe::Base>;

extern "C" void probe_iptr() {
  using namespace probe;
  yaclib::IntrusivePtr<Derived> d;
  yaclib::IntrusivePtr<Base> from_copy{d};
  yaclib::IntrusivePtr<Base> from_move{std::move(d)};
  from_copy = d;
  from_move = std::move(d);
  Sink(from_copy);
  Sink(from_move);
  // every comparison operator of the handle
  Base* raw = nullptr;
  Sink(from_copy == d);
  Sink(from_copy != d);
  Sink(from_copy == raw);
  Sink(from_copy != raw);
  Sink(raw == from_copy);
  Sink(raw != from_copy);
  Sink(from_copy == nullptr);
  Sink(nullptr == from_copy);
  Sink(from_copy != nullptr);
  Sink(nullptr != from_copy);
  Sink(from_copy < from_move);
}
