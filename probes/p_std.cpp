// configs: KF
// Probe (parsed, never executed): instantiates every member (incl. the timed templates) of the yaclib_std lock
// types, condition variables, thread and this_thread under the FIBER backend.
#include <yaclib_std/chrono>
#include <yaclib_std/condition_variable>
#include <yaclib_std/mutex>
#include <yaclib_std/shared_mutex>
#include <yaclib_std/thread>
#include <yaclib_std/thread_local>

#include <chrono>
#include <mutex>

namespace probe {

using namespace std::chrono_literals;

template <typename M>
void Basic(M& m) {
  m.lock();
  m.unlock();
  if (m.try_lock()) {
    m.unlock();
  }
}

template <typename M>
void Timed(M& m) {
  if (m.try_lock_for(1ms)) {
    m.unlock();
  }
  if (m.try_lock_until(yaclib_std::chrono::steady_clock::now() + 1ms)) {
    m.unlock();
  }
  if (m.try_lock_until(yaclib_std::chrono::system_clock::now() + 1ms)) {
    m.unlock();
  }
}

template <typename M>
void Shared(M& m) {
  m.lock_shared();
  m.unlock_shared();
  if (m.try_lock_shared()) {
    m.unlock_shared();
  }
}

template <typename M>
void SharedTimed(M& m) {
  if (m.try_lock_shared_for(1ms)) {
    m.unlock_shared();
  }
  if (m.try_lock_shared_until(yaclib_std::chrono::steady_clock::now() + 1ms)) {
    m.unlock_shared();
  }
}

void Locks() {
  yaclib_std::mutex m;
  Basic(m);
  yaclib_std::timed_mutex tm;
  Basic(tm);
  Timed(tm);
  yaclib_std::recursive_mutex rm;
  Basic(rm);
  yaclib_std::recursive_timed_mutex rtm;
  Basic(rtm);
  Timed(rtm);
  yaclib_std::shared_mutex sm;
  Basic(sm);
  Shared(sm);
  yaclib_std::shared_timed_mutex stm;
  Basic(stm);
  Shared(stm);
  Timed(stm);
  SharedTimed(stm);
}

void CondVar() {
  yaclib_std::mutex m;
  yaclib_std::condition_variable cv;
  bool flag = false;
  std::unique_lock lock{m};
  cv.notify_one();
  cv.notify_all();
  cv.wait(lock);
  cv.wait(lock, [&] {
    return flag;
  });
  (void)cv.wait_for(lock, 1ms);
  (void)cv.wait_for(lock, 1ms, [&] {
    return flag;
  });
  (void)cv.wait_until(lock, yaclib_std::chrono::steady_clock::now() + 1ms);
  (void)cv.wait_until(lock, yaclib_std::chrono::steady_clock::now() + 1ms, [&] {
    return flag;
  });
}

static YACLIB_THREAD_LOCAL_PTR(int) tls_a;
static YACLIB_THREAD_LOCAL_PTR(long) tls_b;

void Threads() {
  int x = 0;
  yaclib_std::thread t{[&] {
    tls_a = &x;
    ++*tls_a;
  }};
  (void)t.joinable();
  (void)t.get_id();
  t.join();
  yaclib_std::thread t2{[] {
  }};
  t2.detach();
  yaclib_std::this_thread::sleep_for(1ms);
  yaclib_std::this_thread::sleep_until(yaclib_std::chrono::steady_clock::now() + 1ms);
  yaclib_std::this_thread::yield();
  (void)yaclib_std::this_thread::get_id();
  (void)yaclib_std::thread::hardware_concurrency();
  long y = 0;
  tls_b = &y;
  (void)(tls_b.Get() != nullptr);
}

}  // namespace probe

extern "C" void probe_std_all() {
  probe::Locks();
  probe::CondVar();
  probe::Threads();
}
