// configs: K17 K20 K20n
// Probe (parsed, never executed): instantiates the eager and lazy pipeline API for every
// consumer kind x producer kind x callback signature class x return kind x attachment mode.
#include <yaclib/async/connect.hpp>
#include <yaclib/async/contract.hpp>
#include <yaclib/async/future.hpp>
#include <yaclib/async/make.hpp>
#include <yaclib/async/promise.hpp>
#include <yaclib/async/run.hpp>
#include <yaclib/async/share.hpp>
#include <yaclib/async/shared_contract.hpp>
#include <yaclib/async/shared_future.hpp>
#include <yaclib/async/split.hpp>
#include <yaclib/async/wait.hpp>
#include <yaclib/async/wait_for.hpp>
#include <yaclib/async/wait_until.hpp>
#include <yaclib/exe/manual.hpp>
#include <yaclib/exe/strand.hpp>
#include <yaclib/exe/submit.hpp>
#include <yaclib/lazy/make.hpp>
#include <yaclib/lazy/schedule.hpp>
#include <yaclib/lazy/task.hpp>
#include <yaclib/runtime/fair_thread_pool.hpp>

#include <chrono>
#include <exception>
#include <memory>
#include <string>
#include <system_error>
#include <vector>

namespace probe {

using namespace std::chrono_literals;
using yaclib::Future;
using yaclib::FutureOn;
using yaclib::Result;
using yaclib::SharedFuture;
using yaclib::StopError;
using yaclib::Task;

yaclib::IExecutor& Exe();  // never defined: the probe is only parsed

// an error type other than StopError (as the repository's tests do)
struct Err : std::error_code {
  using std::error_code::error_code;
  Err() = default;
  Err(yaclib::StopTag) : std::error_code{std::make_error_code(std::errc::operation_canceled)} {
  }
  Err(yaclib::StopError) : Err{yaclib::StopTag{}} {
  }
  const char* What() const noexcept {
    return "";
  }
};

template <typename T>
void Sink(T&&);

template <typename V>
struct Make {
  static V Value() {
    return V{};
  }
};
template <>
struct Make<std::unique_ptr<int>> {
  static std::unique_ptr<int> Value() {
    return nullptr;
  }
};

// ------------------------------------------------------------------ producers x consumers (C01)
template <typename V, typename E>
void ProducerKinds(yaclib::Promise<V, E> p, int how) {
  if (how == 0) {
    if constexpr (std::is_void_v<V>) {
      std::move(p).Set();
    } else {
      std::move(p).Set(Make<V>::Value());
    }
  } else if (how == 1) {
    std::move(p).Set(std::make_exception_ptr(1));
  } else if (how == 2) {
    std::move(p).Set(E{yaclib::StopTag{}});
  } else if (how == 3) {
    std::move(p).Set(yaclib::StopTag{});
  } else if (how == 4) {
    std::move(p).Set(Result<V, E>{yaclib::StopTag{}});
  }
  // how == 5: drop
}

template <typename V, typename E>
void ConsumerKinds(int how) {
  auto make = [] {
    auto [f, p] = yaclib::MakeContract<V, E>();
    ProducerKinds<V, E>(std::move(p), 0);
    return std::move(f);
  };
  switch (how) {
    case 0:
      Sink(make().ThenInline([](Result<V, E>&& r) {
        return std::move(r).Ok();
      }));
      break;
    case 1:
      Sink(make().Then(Exe(), [](Result<V, E>&& r) {
        return std::move(r).Ok();
      }));
      break;
    case 2:
      make().DetachInline([](Result<V, E>&&) {
      });
      break;
    case 3:
      make().Detach(Exe(), [](Result<V, E>&&) {
      });
      break;
    case 4:
      make().Detach();
      break;
    case 5:
      Sink(make().Get());
      break;
    case 6: {
      auto f = make();
      Sink(std::as_const(f).Get());
      Sink(f.Ready());
      Sink(f.Valid());
      Sink(std::as_const(f).Touch());
      break;
    }
    case 7: {
      auto f = make();
      yaclib::Wait(f);
      Sink(yaclib::WaitFor(1ms, f));
      Sink(yaclib::WaitUntil(std::chrono::steady_clock::now(), f));
      Sink(std::move(f).Touch());
      break;
    }
    case 8: {
      auto [f2, p2] = yaclib::MakeContract<V, E>();
      yaclib::Connect(make(), std::move(p2));
      Sink(std::move(f2));
      break;
    }
    case 9: {
      auto [f2, p2] = yaclib::MakeContractOn<V, E>(Exe());
      Sink(std::move(f2).Then([](Result<V, E>&&) {
      }));
      std::move(f2).Detach([](Result<V, E>&&) {
      });
      ProducerKinds<V, E>(std::move(p2), 5);
      break;
    }
    default:
      make();  // drop
  }
}

// ------------------------------------------------------------------ callback signature x return kind (C02)
template <typename T>
auto ReturnKinds(int how) {
  // each lambda below is a different callback type => a different Core instantiation
  (void)how;
}

template <typename V, typename E, typename Src>
void Signatures(Src src) {
  // takes Result
  Sink(src().ThenInline([](Result<V, E>&&) {
  }));
  Sink(src().ThenInline([](Result<V, E>&&) {
    return 1;
  }));
  Sink(src().ThenInline([](Result<V, E>&&) {
    return Result<int, E>{1};
  }));
  Sink(src().ThenInline([](Result<V, E>&&) {
    return yaclib::MakeFuture<int, E>(1);
  }));
  Sink(src().ThenInline([](Result<V, E>&&) {
    return yaclib::MakeContractOn<int, E>(Exe()).first;
  }));
  Sink(src().ThenInline([](Result<V, E>&&) {
    return yaclib::MakeTask<int, E>(1);
  }));
  Sink(src().Then(Exe(), [](Result<V, E>&&) {
    return yaclib::MakeFuture<int, E>(1);
  }));
  Sink(src().Then(Exe(), [](Result<V, E>&&) {
    return yaclib::MakeTask<int, E>(1);
  }));
  Sink(src().Then(Exe(), [](Result<V, E>&&) {
    return 1;
  }));
  // takes the value (or nothing)
  if constexpr (std::is_void_v<V>) {
    Sink(src().ThenInline([] {
    }));
    Sink(src().ThenInline([] {
      return 1;
    }));
    Sink(src().ThenInline([](yaclib::Unit) {
      return 1;
    }));
    Sink(src().Then(Exe(), [] {
      return yaclib::MakeFuture<int, E>(1);
    }));
    Sink(src().ThenInline([] {
      return Result<int, E>{1};
    }));
  } else {
    Sink(src().ThenInline([](V&&) {
    }));
    Sink(src().ThenInline([](V&&) {
      return 1;
    }));
    Sink(src().ThenInline([](V) {
      return Result<int, E>{1};
    }));
    Sink(src().Then(Exe(), [](V&&) {
      return yaclib::MakeFuture<int, E>(1);
    }));
    Sink(src().Then(Exe(), [](V&&) {
      return 1;
    }));
  }
  // recovery: takes E / exception_ptr, must keep the value type
  if constexpr (std::is_void_v<V>) {
    Sink(src().ThenInline([](E) {
    }));
    Sink(src().ThenInline([](std::exception_ptr) {
    }));
    Sink(src().Then(Exe(), [](E) {
      return yaclib::MakeFuture<void, E>();
    }));
  } else {
    Sink(src().ThenInline([](E) {
      return Make<V>::Value();
    }));
    Sink(src().ThenInline([](std::exception_ptr) {
      return Make<V>::Value();
    }));
    Sink(src().ThenInline([](E) {
      return Result<V, E>{Make<V>::Value()};
    }));
    Sink(src().Then(Exe(), [](std::exception_ptr) {
      return yaclib::MakeFuture<V, E>(Make<V>::Value());
    }));
  }
  // detach forms
  src().DetachInline([](Result<V, E>&&) {
  });
  src().Detach(Exe(), [](Result<V, E>&&) {
  });
}

template <typename V, typename E>
void EagerSources() {
  Signatures<V, E>([] {
    if constexpr (std::is_void_v<V>) {
      return yaclib::MakeFuture<void, E>();
    } else {
      return yaclib::MakeFuture<V, E>(Make<V>::Value());
    }
  });
  Signatures<V, E>([] {
    return yaclib::MakeContract<V, E>().first;
  });
}

void RunSources() {
  // the shared contract heads (inline and on an executor)
  Sink(yaclib::AsyncSharedContract<int>([](yaclib::SharedPromise<int> p) {
    std::move(p).Set(1);
  }));
  Sink(yaclib::AsyncSharedContract<int>(Exe(), [](yaclib::SharedPromise<int> p) {
    std::move(p).Set(1);
  }));
  using E = StopError;
  Signatures<int, E>([] {
    return yaclib::Run(Exe(), [] {
      return 1;
    });
  });
  Signatures<void, E>([] {
    return yaclib::Run([] {
    });
  });
  Signatures<int, E>([] {
    return yaclib::AsyncContract<int>(Exe(), [](yaclib::Promise<int> p) {
      std::move(p).Set(1);
    });
  });
  Signatures<int, E>([] {
    return yaclib::AsyncContract<int>([](yaclib::Promise<int> p) {
      std::move(p).Set(1);
    });
  });
  // FutureOn-only forms
  auto fo = yaclib::Run(Exe(), [] {
    return 1;
  });
  Sink(std::move(fo).Then([](int) {
    return 2;
  }));
  auto fo2 = yaclib::Run(Exe(), [] {
    return 1;
  });
  Sink(std::move(fo2).ThenInline([](int) {
    return 2;
  }));
  yaclib::Run(Exe(), [] {
    return 1;
  }).Detach([](int) {
  });
  Sink(yaclib::Run(Exe(), [] {
    return yaclib::MakeFuture(1);
  }));
  Sink(yaclib::Run(Exe(), [] {
    return yaclib::MakeTask(1);
  }));
  Sink(yaclib::Run(Exe(), [] {
    return yaclib::RunShared(Exe(), [] {
      return 1;
    });
  }));
}

// ------------------------------------------------------------------ inner Task kinds (R-HEAD), returned from a step
void InnerTasks() {
  auto src = [] {
    return yaclib::MakeFuture(1);
  };
  Sink(src().ThenInline([](int) {
    return yaclib::MakeTask(2);
  }));
  Sink(src().ThenInline([](int) {
    return yaclib::Schedule(Exe(), [] {
      return 2;
    });
  }));
  Sink(src().ThenInline([](int) {
    return yaclib::Schedule([] {
      return 2;
    });
  }));
  Sink(src().ThenInline([](int) {
    return yaclib::Schedule(Exe(), [] {
             return 2;
           })
      .Then([](int x) {
        return x + 1;
      });
  }));
  Sink(src().ThenInline([](int) {
    return yaclib::LazyContract<int>(Exe(), [](yaclib::Promise<int> p) {
      std::move(p).Set(2);
    });
  }));
  Sink(src().ThenInline([](int) {
    return yaclib::LazyContract<int>([](yaclib::Promise<int> p) {
      std::move(p).Set(2);
    });
  }));
  Sink(src().Then(Exe(), [](int) {
    return yaclib::Schedule(Exe(), [] {
      return 2;
    });
  }));
  Sink(src().Then(Exe(), [](int) {
    return yaclib::MakeTask(2).ThenInline([](int x) {
      return x;
    });
  }));
}

// ------------------------------------------------------------------ lazy API (C12)
template <typename MakeT>
void LazyConsumers(MakeT make) {
  Sink(make().ToFuture());
  Sink(make().ToFuture(Exe()));
  Sink(make().Get());
  make().Detach();
  make().Detach(Exe());
  make().Cancel();
  make();  // drop
  Sink(make().ThenInline([](int x) {
    return x + 1;
  }));
  Sink(make().Then(Exe(), [](int x) {
    return x + 1;
  }));
  Sink(make().Then([](int x) {
    return x + 1;
  }));
  Sink(make().Then([](Result<int>&& r) {
    return std::move(r).Ok();
  }));
  Sink(make().ThenInline([](StopError) {
    return 0;
  }));
  Sink(make().ThenInline([](int) {
    return yaclib::MakeTask(3);
  }));
  Sink(make().ThenInline([](int) {
    return yaclib::MakeFuture(3);
  }));
  Sink(make().Then(Exe(), [](int) {
    return yaclib::Schedule(Exe(), [] {
      return 3;
    });
  }));
  {
    auto t = make();
    Sink(t.Ready());
    Sink(t.Valid());
    Sink(std::move(t).On(nullptr));
  }
  {
    auto t = make().Then([](int x) {
      return x;
    });
    Sink(std::move(t).ToFuture());
  }
}

void Lazy() {
  LazyConsumers([] {
    return yaclib::MakeTask(1);
  });
  LazyConsumers([] {
    return yaclib::Schedule(Exe(), [] {
      return 1;
    });
  });
  LazyConsumers([] {
    return yaclib::Schedule([] {
      return 1;
    });
  });
  LazyConsumers([] {
    return yaclib::LazyContract<int>(Exe(), [](yaclib::Promise<int> p) {
      std::move(p).Set(1);
    });
  });
  LazyConsumers([] {
    return yaclib::LazyContract<int>([](yaclib::Promise<int> p) {
      std::move(p).Set(1);
    });
  });
  LazyConsumers([] {
    return yaclib::Schedule(Exe(), [] {
             return 1;
           })
      .ThenInline([](int x) {
        return x + 1;
      });
  });
  Sink(yaclib::MakeTask());
  Sink(yaclib::MakeTask<int>(yaclib::StopTag{}));
  Sink(yaclib::MakeTask<void>(std::make_exception_ptr(1)));
  Sink(yaclib::Schedule(Exe(), [] {
    return yaclib::MakeTask(1);
  }));
  Sink(yaclib::Schedule(Exe(), [] {
    return yaclib::MakeFuture(1);
  }));
}

// ------------------------------------------------------------------ shared API (C06)
template <typename V>
void SharedApi() {
  using E = StopError;
  auto [sf, sp] = yaclib::MakeSharedContract<V, E>();
  // every public factory of the shared family is instantiated (MakeSharedContractOn did not compile: finding F14)
  auto [sfo, spo] = yaclib::MakeSharedContractOn<V, E>(Exe());
  Sink(sfo.Then([](const Result<V, E>&) {
  }));
  Sink(std::move(spo));
  Sink(yaclib::MakeSharedPromise<V, E>());
  auto copy = sf;
  auto moved = std::move(copy);
  Sink(sf.Ready());
  Sink(sf.Valid());
  Sink(sf.ThenInline([](const Result<V, E>&) {
  }));
  Sink(sf.ThenInline([](const Result<V, E>&) {
    return 1;
  }));
  Sink(sf.Then(Exe(), [](Result<V, E>) {
    return 1;
  }));
  Sink(sf.Then(Exe(), [](Result<V, E>) {
    return yaclib::MakeFuture(1);
  }));
  Sink(sf.ThenInline([](Result<V, E>) {
    return yaclib::MakeTask(1);
  }));
  Sink(sf.ThenInline([](E) {
    if constexpr (!std::is_void_v<V>) {
      return V{};
    }
  }));
  if constexpr (std::is_void_v<V>) {
    Sink(sf.ThenInline([] {
      return 1;
    }));
  } else {
    Sink(sf.ThenInline([](const V&) {
      return 1;
    }));
    Sink(sf.ThenInline([](V) {
      return 1;
    }));
  }
  sf.SubscribeInline([](const Result<V, E>&) {
  });
  sf.Subscribe(Exe(), [](Result<V, E>) {
  });
  Sink(yaclib::Share(sf));
  Sink(yaclib::Share(sf, Exe()));
  Sink(yaclib::Share(sp));
  Sink(yaclib::Share(sp, Exe()));
  Sink(yaclib::Split(sp));
  Sink(yaclib::Split(yaclib::MakeContract<V, E>().first));
  {
    auto [f, p] = yaclib::MakeContract<V, E>();
    yaclib::Connect(sf, std::move(p));
    Sink(std::move(f));
  }
  {
    auto [f, p] = yaclib::MakeSharedContract<V, E>();
    yaclib::Connect(sf, std::move(p));
    Sink(std::move(f));
  }
  {
    auto [f, p] = yaclib::MakeSharedContract<V, E>();
    yaclib::Connect(yaclib::MakeContract<V, E>().first, std::move(p));
    Sink(std::move(f));
  }
  {
    auto [f, p] = yaclib::MakeContract<V, E>();
    yaclib::Connect(sp, std::move(p));
    Sink(std::move(f));
  }
  {
    auto [f, p] = yaclib::MakeSharedContract<V, E>();
    yaclib::Connect(sp, std::move(p));
    Sink(std::move(f));
  }
  yaclib::Wait(sf);
  Sink(sf.Get());
  Sink(sf.Touch());
  Sink(std::move(moved).Get());
  {
    auto c2 = sf;
    Sink(std::move(c2).Touch());
  }
  {
    auto c3 = sf;
    std::move(c3).Detach();
  }
  if constexpr (std::is_void_v<V>) {
    std::move(sp).Set();
  } else {
    std::move(sp).Set(V{});
  }
  // MakeSharedContractOn is ill-formed when instantiated (returns SharedContract built from a SharedFutureOn)
  auto p2 = yaclib::MakeSharedPromise<V, E>();
  std::move(p2).Set(yaclib::StopTag{});
  // shared sources produced by running
  auto rs = yaclib::RunShared(Exe(), [] {
    return 1;
  });
  Sink(rs.Then([](int) {
    return 2;
  }));
  Sink(rs.ThenInline([](int) {
    return 2;
  }));
  rs.Subscribe([](int) {
  });
  Sink(std::move(rs).On(nullptr));
  Sink(yaclib::RunShared([] {
    return 1;
  }));
  Sink(yaclib::AsyncSharedContract<int>(Exe(), [](yaclib::SharedPromise<int> p) {
    std::move(p).Set(1);
  }));
  // a step returning a SharedFuture (AsyncType::Shared)
  Sink(yaclib::MakeFuture(1).ThenInline([](int) {
    return yaclib::MakeSharedContract<int, E>().first;
  }));
  Sink(sf.ThenInline([](Result<V, E>) {
    return yaclib::MakeSharedContract<int, E>().first;
  }));
  Sink(sf.Then(Exe(), [](Result<V, E>) {
    return yaclib::MakeSharedContract<int, E>().first;
  }));
}

}  // namespace probe

namespace probe {
void SubmitFunctors() {
  yaclib::Submit(Exe(), [] {
  });
  int captured = 1;
  yaclib::Submit(Exe(), [captured]() mutable {
    ++captured;
  });
}
}  // namespace probe

namespace probe {
// every multi-future wait form: variadic / iterator x untimed / WaitFor / WaitUntil x unique / shared / mixed
void MultiWaits() {
  using namespace std::chrono_literals;
  auto [f1, p1] = yaclib::MakeContract<int>();
  auto [f2, p2] = yaclib::MakeContract<int>();
  auto [f3, p3] = yaclib::MakeContract<void>();
  yaclib::Wait(f1, f2);
  yaclib::Wait(f1, f2, f3);
  Sink(yaclib::WaitFor(1ms, f1, f2));
  Sink(yaclib::WaitFor(1ms, f1, f2, f3));
  Sink(yaclib::WaitUntil(std::chrono::steady_clock::now(), f1, f2));
  std::vector<yaclib::Future<int>> fs;
  fs.push_back(std::move(f1));
  fs.push_back(std::move(f2));
  yaclib::Wait(fs.begin(), fs.end());
  yaclib::Wait(fs.begin(), fs.size());
  Sink(yaclib::WaitFor(1ms, fs.begin(), fs.end()));
  Sink(yaclib::WaitFor(1ms, fs.begin(), fs.size()));
  Sink(yaclib::WaitUntil(std::chrono::steady_clock::now(), fs.begin(), fs.end()));
  Sink(yaclib::WaitUntil(std::chrono::steady_clock::now(), fs.begin(), fs.size()));
  auto [sf1, sp1] = yaclib::MakeSharedContract<int>();
  auto [sf2, sp2] = yaclib::MakeSharedContract<int>();
  yaclib::Wait(sf1, sf2);
  yaclib::Wait(fs[0], sf1);
  yaclib::Wait(fs[0], sf1, sf2);
  std::vector<yaclib::SharedFuture<int>> sfs{sf1, sf2};
  yaclib::Wait(sfs.begin(), sfs.end());
  yaclib::Wait(sfs.begin(), sfs.size());
  std::move(p3).Set();
  std::move(sp1).Set(1);
  std::move(sp2).Set(2);
  Sink(std::move(f3));
  Sink(std::move(p1));
  Sink(std::move(p2));
}
}  // namespace probe

namespace probe {
// move assignment of every handle kind (they rely on IntrusivePtr's same-type move assignment)
void ResultErrorAccessors() {
  yaclib::ResultError<yaclib::StopError> e{yaclib::StopError{yaclib::StopTag{}}};
  Sink(e.Get());
  const auto& ce = e;
  Sink(ce.Get());
  Sink(e.what());
}

void HandleAssignments() {
  auto [f, p] = yaclib::MakeContract<int>();
  auto [g, q] = yaclib::MakeContract<int>();
  f = std::move(g);
  p = std::move(q);
  auto [sf, sp] = yaclib::MakeSharedContract<int>();
  auto [sg, sq] = yaclib::MakeSharedContract<int>();
  sf = std::move(sg);
  sp = std::move(sq);
  auto t = yaclib::MakeTask(1);
  auto t2 = yaclib::MakeTask(2);
  t = std::move(t2);
  yaclib::FutureOn<int> fo = yaclib::MakeContractOn<int>(Exe()).first;
  fo = yaclib::MakeContractOn<int>(Exe()).first;
  Sink(std::move(f));
  Sink(std::move(p));
  Sink(std::move(sp));
  Sink(std::move(t));
  Sink(std::move(fo));
}

// An error type that converts implicitly to the value type (an errno-style wrapper): a callback taking the value is
// then invocable with the error as well; it must still be classified by what it was written for (the value comes first).
struct Errno {
  Errno(yaclib::StopTag) noexcept : code{125} {
  }
  explicit Errno(int c) noexcept : code{c} {
  }
  operator int() const noexcept {
    return code;
  }
  static const char* What() noexcept {
    return "Errno";
  }
  int code;
};

void ConvertibleError() {
  Sink(yaclib::MakeFuture<int, Errno>(1).ThenInline([](int v) {
    return v + 1;
  }));
  Sink(yaclib::MakeFuture<int, Errno>(1).Then(Exe(), [](int v) {
    return v + 1;
  }));
  Sink(yaclib::MakeFuture<int, Errno>(1).ThenInline([](Errno e) {
    return e.code;
  }));
  Sink(yaclib::MakeFuture<int, Errno>(1).ThenInline([](std::exception_ptr) {
    return 0;
  }));
  Sink(yaclib::MakeTask<int, Errno>(1).ThenInline([](int v) {
    return v + 1;
  }));
  Sink(yaclib::MakeTask<int, Errno>(1).ThenInline([](Errno e) {
    return e.code;
  }));
}
}  // namespace probe

extern "C" void probe_async_all() {
  using namespace probe;
  ConvertibleError();
  SubmitFunctors();
  MultiWaits();
  HandleAssignments();
  ResultErrorAccessors();
  for (int how = 0; how < 11; ++how) {
    ConsumerKinds<void, StopError>(how);
    ConsumerKinds<int, StopError>(how);
    ConsumerKinds<std::string, StopError>(how);
    ConsumerKinds<std::unique_ptr<int>, StopError>(how);
    ConsumerKinds<int, Err>(how);
  }
  for (int how = 0; how < 6; ++how) {
    ProducerKinds<void, StopError>(yaclib::MakeContract<void, StopError>().second, how);
    ProducerKinds<int, StopError>(yaclib::MakeContract<int, StopError>().second, how);
    ProducerKinds<std::unique_ptr<int>, StopError>(yaclib::MakeContract<std::unique_ptr<int>, StopError>().second, how);
  }
  EagerSources<void, StopError>();
  EagerSources<int, StopError>();
  EagerSources<std::string, StopError>();
  EagerSources<std::unique_ptr<int>, StopError>();
  EagerSources<int, Err>();
  RunSources();
  InnerTasks();
  Lazy();
  SharedApi<void>();
  SharedApi<int>();
  SharedApi<std::string>();
}
