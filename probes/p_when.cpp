// configs: K17 K20
// Probe (parsed, never executed): WhenAll / WhenAny / Join x FailPolicy x {static same type, static mixed value
// types, dynamic} x {unique, shared, mixed unique+shared} x V in {void, int}.
#include <yaclib/async/contract.hpp>
#include <yaclib/async/join.hpp>
#include <yaclib/async/make.hpp>
#include <yaclib/async/shared_contract.hpp>
#include <yaclib/async/when_all.hpp>
#include <yaclib/async/when_any.hpp>

#include <array>
#include <string>
#include <vector>

namespace probe {

using yaclib::FailPolicy;
using yaclib::Future;
using yaclib::SharedFuture;

template <typename T>
void Sink(T&&);

template <typename V>
Future<V> U() {
  return yaclib::MakeContract<V>().first;
}
template <typename V>
SharedFuture<V> S() {
  return yaclib::MakeSharedContract<V>().first;
}

template <FailPolicy P, typename V>
void AllForms() {
  // static, same type
  Sink(yaclib::WhenAll<P>(U<V>(), U<V>()));
  Sink(yaclib::WhenAll<P>(U<V>()));
  Sink(yaclib::WhenAll<P>(S<V>(), S<V>()));
  Sink(yaclib::WhenAll<P>(U<V>(), S<V>()));
  Sink(yaclib::WhenAll<P>(U<V>(), S<V>(), U<V>()));
  // static, mixed value types => tuple
  Sink(yaclib::WhenAll<P>(U<V>(), U<std::string>()));
  Sink(yaclib::WhenAll<P>(U<V>(), S<std::string>(), U<double>()));
  Sink(yaclib::WhenAll<P>(S<V>(), S<std::string>()));
  // static, tuple output with a core type repeated among the inputs (index bookkeeping: by position, not by type)
  Sink(yaclib::WhenAll<P>(U<V>(), U<std::string>(), U<V>()));
  Sink(yaclib::WhenAll<P>(U<std::string>(), U<V>(), U<V>(), S<V>(), S<V>()));
  // dynamic
  std::vector<Future<V>> us;
  Sink(yaclib::WhenAll<P>(us.begin(), us.end()));
  Sink(yaclib::WhenAll<P>(us.begin(), us.size()));
  std::vector<SharedFuture<V>> ss;
  Sink(yaclib::WhenAll<P>(ss.begin(), ss.end()));
  std::array<Future<V>, 3> arr;
  Sink(yaclib::WhenAll<P>(arr.begin(), arr.end()));
}

template <FailPolicy P, typename V>
void JoinForms() {
  Sink(yaclib::Join<P>(U<V>(), U<V>()));
  Sink(yaclib::Join<P>(U<V>()));
  Sink(yaclib::Join<P>(S<V>(), S<V>()));
  Sink(yaclib::Join<P>(U<V>(), S<V>()));
  Sink(yaclib::Join<P>(U<V>(), U<std::string>()));
  Sink(yaclib::Join<P>(U<V>(), S<std::string>(), U<double>()));
  std::vector<Future<V>> us;
  Sink(yaclib::Join<P>(us.begin(), us.end()));
  Sink(yaclib::Join<P>(us.begin(), us.size()));
  std::vector<SharedFuture<V>> ss;
  Sink(yaclib::Join<P>(ss.begin(), ss.end()));
}

template <FailPolicy P, typename V>
void AnyForms() {
  Sink(yaclib::WhenAny<P>(U<V>(), U<V>()));
  Sink(yaclib::WhenAny<P>(U<V>()));
  Sink(yaclib::WhenAny<P>(S<V>(), S<V>()));
  Sink(yaclib::WhenAny<P>(U<V>(), S<V>()));
  if constexpr (!std::is_void_v<V>) {  // a variant cannot hold void
    Sink(yaclib::WhenAny<P>(U<V>(), U<std::string>()));
    Sink(yaclib::WhenAny<P>(U<V>(), S<std::string>(), U<double>()));
    Sink(yaclib::WhenAny<P>(S<V>(), S<std::string>()));
  }
  std::vector<Future<V>> us;
  Sink(yaclib::WhenAny<P>(us.begin(), us.end()));
  Sink(yaclib::WhenAny<P>(us.begin(), us.size()));
  std::vector<SharedFuture<V>> ss;
  Sink(yaclib::WhenAny<P>(ss.begin(), ss.end()));
  std::array<Future<V>, 3> arr;
  Sink(yaclib::WhenAny<P>(arr.begin(), arr.end()));
}

}  // namespace probe

extern "C" void probe_when_all() {
  using namespace probe;
  AllForms<FailPolicy::None, void>();
  AllForms<FailPolicy::None, int>();
  AllForms<FailPolicy::FirstFail, void>();
  AllForms<FailPolicy::FirstFail, int>();
  JoinForms<FailPolicy::None, void>();
  JoinForms<FailPolicy::None, int>();
  JoinForms<FailPolicy::FirstFail, void>();
  JoinForms<FailPolicy::FirstFail, int>();
  AnyForms<FailPolicy::None, void>();
  AnyForms<FailPolicy::None, int>();
  AnyForms<FailPolicy::FirstFail, void>();
  AnyForms<FailPolicy::FirstFail, int>();
  AnyForms<FailPolicy::LastFail, void>();
  AnyForms<FailPolicy::LastFail, int>();
  Sink(yaclib::WhenAll(U<int>(), U<int>()));
  Sink(yaclib::WhenAny(U<int>(), U<int>()));
  Sink(yaclib::Join(U<int>(), U<int>()));
}
