"""Syntax-directed summariser for small, loop-free method bodies (R-OPTABLE and friends).

This is NOT symbolic execution of the program handed to a solver: it is a structural
translation of a statement tree (1–6 statements, no loops) into closed terms over named
symbols, compared for syntactic equality (modulo commutativity) with a reference row.
A construct outside the recognised forms raises Unrecognised (-> analysis broken, exit 2).
"""

COMMUTATIVE = {'+', '&', '|', '^', '==', '!=', '*'}


class Unrecognised(Exception):
    pass


def norm(t):
    if isinstance(t, tuple) and t and t[0] == 'op':
        _, op, a, b = t
        a, b = norm(a), norm(b)
        if op in COMMUTATIVE and repr(b) < repr(a):
            a, b = b, a
        return ('op', op, a, b)
    return t


def neg(c):
    """logical negation in normal form: !!c == c, !(true) == false"""
    if isinstance(c, tuple) and c and c[0] == 'not':
        return c[1]
    if isinstance(c, tuple) and c and c[0] == 'const' and c[1] in (0, 1, True, False):
        return ('const', 0 if c[1] else 1)
    return ('not', c)


def show(t):
    if t is None:
        return '-'
    if isinstance(t, tuple):
        if t[0] == 'sym':
            return t[1]
        if t[0] == 'const':
            return str(t[1])
        if t[0] == 'op':
            return '(%s %s %s)' % (show(t[2]), t[1], show(t[3]))
        if t[0] == 'fwd':
            return '%s(%s)' % (t[1], ', '.join(show(x) for x in t[2]))
        if t[0] == 'not':
            return '!' + show(t[1])
        if t[0] == 'conv':
            return '%s(%s)' % (t[1], show(t[2]))
    return repr(t)


class Path:
    def __init__(self):
        self.cond = []
        self.env = {}  # ('local', id) -> term
        self.value = ('sym', 'v')  # the stored value
        self.value_written = False
        self.ref_writes = {}  # symbol name of a reference parameter -> term
        self.ret = None
        self.returned = False
        self.effects = []  # opaque calls, in order

    def fork(self):
        p = Path()
        p.cond = list(self.cond)
        p.env = dict(self.env)
        p.value = self.value
        p.value_written = self.value_written
        p.ref_writes = dict(self.ref_writes)
        p.ret = self.ret
        p.returned = self.returned
        p.effects = list(self.effects)
        return p


class Summariser:
    """hooks: is_value(fn, node) -> bool (the stored-value lvalue);
              call(fn, node, args_terms, path) -> term or raises Unrecognised  (opaque / inlined calls)"""

    def __init__(self, fb, param_syms, is_value, call_hook):
        self.fb = fb
        self.param_syms = param_syms  # local id -> symbol name
        self.is_value = is_value
        self.call_hook = call_hook

    # ---------------------------------------------------------------- statements
    def run(self, fn):
        p = Path()
        paths = self.stmt(fn, fn.raw['body'], [p])
        return paths

    def stmt(self, fn, i, paths):
        n = fn.nodes[i]
        k = n['k']
        live = [p for p in paths if not p.returned]
        done = [p for p in paths if p.returned]
        if not live:
            return paths
        if k == 'CompoundStmt':
            cur = live
            for c in n.get('ch', []):
                cur = self.stmt(fn, c, cur)
            return done + cur
        if k == 'NullStmt':
            return paths
        if k == 'DeclStmt':
            for v in n['vars']:
                for p in live:
                    if 'init' in v:
                        p.env[('local', v['id'])] = self.expr(fn, v['init'], p)
            return paths
        if k == 'ReturnStmt':
            out = list(done)
            for p in live:
                ch = n.get('ch', [])
                if ch and ch[0] >= 0:
                    j = fn.strip(ch[0])
                    tern = fn.nodes[j] if j is not None and j >= 0 else {}
                    if tern.get('k') == 'ConditionalOperator' and len(tern.get('ch', [])) == 3:
                        # return c ? a : b;  ==  if (c) return a; else return b;
                        c = self.expr(fn, tern['ch'][0], p)
                        pt = p.fork()
                        pt.cond.append(c)
                        p.cond.append(neg(c))
                        for q, e in ((pt, tern['ch'][1]), (p, tern['ch'][2])):
                            inl = self.inline_return(fn, e, q)
                            if inl is not None:
                                out += inl
                                continue
                            q.ret = self.expr(fn, e, q)
                            q.returned = True
                            out.append(q)
                        continue
                    inl = self.inline_return(fn, ch[0], p)
                    if inl is not None:
                        out += inl
                        continue
                    p.ret = self.expr(fn, ch[0], p)
                else:
                    p.ret = None
                p.returned = True
                out.append(p)
            return out
        if k == 'IfStmt':
            out = list(done)
            for p in live:
                c = self.expr(fn, n['cond'], p)
                pt = p.fork()
                pt.cond.append(c)
                pf = p
                pf.cond.append(neg(c))
                rt = self.stmt(fn, n['then'], [pt])
                rf = self.stmt(fn, n['else'], [pf]) if 'else' in n else [pf]
                out += rt + rf
            return out
        if 't' in n:  # expression statement
            for p in live:
                self.expr(fn, i, p)
            return paths
        raise Unrecognised('statement %s at %s' % (k, fn.loc(n)))

    # ---------------------------------------------------------------- expressions
    def lvalue(self, fn, i):
        """('value',) | ('local', id) | ('param', id) | None"""
        i = fn.strip(i)
        n = fn.nodes[i]
        if self.is_value(fn, n):
            return ('value',)
        if n['k'] == 'DeclRefExpr' and 'id' in n:
            if n['id'] in self.param_syms_for(fn):
                return ('param', n['id'])
            return ('local', n['id'])
        return None

    def param_syms_for(self, fn):
        return self.param_syms

    def inline_return(self, fn, i, p):
        """hook: `return f(args)` where f is to be inlined -> list of finished paths, or None"""
        return None

    def inline_value(self, fn, n, p, g, make_sub):
        """evaluate a call to g (body available, single path) as a sub-expression"""
        syms = {}
        for pid, a in zip(g.params, n.get('args', [])):
            syms[pid] = self.expr(fn, a, p)
        sub = make_sub(g, syms)
        q = p.fork()
        q.returned = False
        q.ret = None
        res = sub.stmt(g, g.raw['body'], [q])
        if len(res) != 1:
            raise Unrecognised('branching callee %s used as a sub-expression' % g.qn)
        r = res[0]
        p.value, p.value_written, p.ref_writes = r.value, r.value_written, r.ref_writes
        p.effects = r.effects
        return r.ret

    def read(self, fn, lv, p):
        if lv == ('value',):
            return p.value
        if lv[0] == 'param':
            s = self.param_syms_for(fn)[lv[1]]
            if s in p.ref_writes:
                return p.ref_writes[s]
            return s if isinstance(s, tuple) else ('sym', s)
        if lv in p.env:
            return p.env[lv]
        raise Unrecognised('read of uninitialised local')

    def write(self, fn, lv, val, p):
        if lv == ('value',):
            p.value = val
            p.value_written = True
        elif lv[0] == 'param':
            s = self.param_syms_for(fn)[lv[1]]
            if isinstance(s, tuple):
                if s[0] != 'sym':
                    raise Unrecognised('write through a parameter bound to a non-lvalue')
                s = s[1]
            p.ref_writes[s] = val
        else:
            p.env[lv] = val

    def expr(self, fn, i, p):
        i = fn.strip(i)
        n = fn.nodes[i]
        k = n['k']
        if k in ('IntegerLiteral', 'CXXBoolLiteralExpr'):
            return ('const', n['v'])
        if k == 'CXXNullPtrLiteralExpr':
            return ('const', 0)
        if k in ('CXXScalarValueInitExpr', 'ImplicitValueInitExpr', 'GNUNullExpr') or \
                (k == 'InitListExpr' and not n.get('ch')):
            return ('const', 0)  # T{} / T(): value-initialisation of a scalar
        if k == 'InitListExpr' and len(n.get('ch', [])) == 1:
            return self.expr(fn, n['ch'][0], p)  # T{x}
        if k == 'CXXReinterpretCastExpr' and n.get('ch'):
            # pointer arithmetic behind a reinterpret_cast is in other units than the element type's
            return ('conv', 'reinterpret', self.expr(fn, n['ch'][0], p))
        lv = self.lvalue(fn, i)
        if lv is not None:
            return self.read(fn, lv, p)
        if k in ('ImplicitCastExpr', 'CXXStaticCastExpr', 'CStyleCastExpr', 'CXXFunctionalCastExpr'):
            # integral promotions/truncations mirror what std::atomic<T> itself computes and are transparent;
            # conversions between floating and integral types (or between floating widths) change the value
            if n.get('cast') in ('FloatingToIntegral', 'IntegralToFloating', 'FloatingCast', 'FloatingToBoolean',
                                 'PointerToIntegral', 'IntegralToPointer'):
                return ('conv', n['cast'], self.expr(fn, n['ch'][0], p))
            return self.expr(fn, n['ch'][0], p)
        if k == 'BinaryOperator':
            op = n['op']
            a, b = n['ch']
            if op == '=':
                lvl = self.lvalue(fn, a)
                if lvl is None:
                    raise Unrecognised('assignment to %s at %s' % (fn.text(a), fn.loc(n)))
                val = self.expr(fn, b, p)
                self.write(fn, lvl, val, p)
                return val
            if op == ',':
                self.expr(fn, a, p)
                return self.expr(fn, b, p)
            if op in ('&&', '||'):
                # operands of the analysed predicates are side-effect free reads
                return ('op', op, self.expr(fn, a, p), self.expr(fn, b, p))
            return norm(('op', op, self.expr(fn, a, p), self.expr(fn, b, p)))
        if k == 'CompoundAssignOperator':
            op = n['op'][:-1]
            a, b = n['ch']
            lvl = self.lvalue(fn, a)
            if lvl is None:
                raise Unrecognised('compound assignment to %s at %s' % (fn.text(a), fn.loc(n)))
            val = norm(('op', op, self.read(fn, lvl, p), self.expr(fn, b, p)))
            self.write(fn, lvl, val, p)
            return val
        if k == 'UnaryOperator':
            op = n['op']
            a = n['ch'][0]
            if op in ('++', '--'):
                lvl = self.lvalue(fn, a)
                if lvl is None:
                    raise Unrecognised('inc/dec of %s at %s' % (fn.text(a), fn.loc(n)))
                old = self.read(fn, lvl, p)
                new = norm(('op', '+' if op == '++' else '-', old, ('const', 1)))
                self.write(fn, lvl, new, p)
                return old if n.get('post') else new
            if op == '!':
                return neg(self.expr(fn, a, p))
            if op in ('*', '&'):
                return self.expr(fn, a, p)
            raise Unrecognised('unary %s at %s' % (op, fn.loc(n)))
        if k == 'CXXDefaultArgExpr':
            return ('const', n.get('v')) if 'v' in n else ('sym', 'default')
        if k in ('CallExpr', 'CXXMemberCallExpr', 'CXXOperatorCallExpr', 'CXXConstructExpr',
                 'CXXTemporaryObjectExpr'):
            return self.call_hook(self, fn, n, p)
        if k == 'CXXThisExpr':
            return ('sym', 'this')
        if k == 'DeclRefExpr':
            if 'v' in n:
                return ('const', n['v'])
            return ('sym', n['dn'])
        if k == 'MemberExpr':
            return ('sym', n['dn'])
        raise Unrecognised('expression %s at %s' % (k, fn.loc(n)))
