"""Fact extraction driver and fact-base loader.

Runs /verif/build/yaclint (LibTooling) over library and probe units in the analysed
configurations, caches one JSON per (unit, configuration) keyed by a hash of the analysed
sources, and exposes the facts as light python objects.  Nothing of YACLib is executed.
"""
import gzip
import hashlib
import json
import os
import re
import shutil
import subprocess
import sys
import threading
import time
from concurrent.futures import ThreadPoolExecutor

VERIF = os.path.dirname(os.path.dirname(os.path.abspath(__file__)))
REPO = os.environ.get('YACLIB_ROOT', '/repo')
TOOL = os.path.join(VERIF, 'build', 'yaclint')
CACHE = os.environ.get('YACLIB_VERIF_CACHE') or os.path.join(VERIF, '.cache')
PROBES = os.path.join(VERIF, 'probes')

CONFIGS = {
    # id: std, YACLIB_FAULT, coroutines, symmetric transfer
    'K17': dict(std='c++17', fault=0, coro=0, sym=0),
    'K20': dict(std='c++20', fault=0, coro=1, sym=1),
    'K20n': dict(std='c++20', fault=0, coro=1, sym=0),
    'KT': dict(std='c++20', fault=1, coro=1, sym=1),
    'KF': dict(std='c++20', fault=2, coro=1, sym=1),
}


# ---- renamed data members: (record qualified name without template arguments, current field name) -> name the
# rules were written against (tables/field_anchors.json; see tool/gen_anchors.py)
FIELD_ALIAS = {}
_FIELD_TABLE = None


def _field_table():
    global _FIELD_TABLE
    if _FIELD_TABLE is None:
        try:
            with open(os.path.join(VERIF, 'tables', 'field_anchors.json')) as f:
                _FIELD_TABLE = json.load(f)['records']
        except (OSError, ValueError, KeyError):
            _FIELD_TABLE = {}
    return _FIELD_TABLE


def note_record_fields(qn, names, types=None):
    """called for every record read from a fact file: detect renamed fields (same record, same number of fields,
    same position; the old name is gone and the new one was never a field of this record)"""
    variants = _field_table().get(qn) or []
    if any([x[0] for x in v] == list(names) for v in variants):
        return
    for ref in variants:
        if len(ref) == len(names):
            _note_fields_variant(qn, ref, names, types)


def _note_fields_variant(qn, ref, names, types):
    old_names = [x[0] for x in ref]
    ren = []
    same_types = True
    for i, (o, n) in enumerate(zip(old_names, names)):
        if o != n:
            if n in old_names or o in names:
                return  # reordered / swapped: not a pure rename
            ren.append((n, o))
            if types is None or strip_targs(types[i]) != ref[i][1]:
                same_types = False
    # many renames at once are believed only if every renamed position kept its type
    if len(ren) > max(1, len(names) // 2) and not same_types:
        return
    for n, o in ren:
        FIELD_ALIAS[(qn, n)] = o


METHOD_ALIAS = {}
_METHOD_TABLE = None


def _method_table():
    global _METHOD_TABLE
    if _METHOD_TABLE is None:
        try:
            with open(os.path.join(VERIF, 'tables', 'field_anchors.json')) as f:
                _METHOD_TABLE = json.load(f).get('methods', {})
        except (OSError, ValueError):
            _METHOD_TABLE = {}
    return _METHOD_TABLE


def note_record_methods(qn, names):
    """renamed member functions: same record, same number of member functions (templates included), same position;
    the old name is gone from the record and the new one was never one of its members"""
    variants = _method_table().get(qn) or []
    if list(names) in variants:
        return
    for ref in variants:
        if len(ref) == len(names):
            _note_methods_variant(qn, ref, names)


def _note_methods_variant(qn, ref, names):
    ren = {}
    for o, n in zip(ref, names):
        if o != n:
            if n in ref or o in names:
                return
            if ren.get(n, o) != o:
                return
            ren[n] = o
    if len(ren) > max(2, len(set(names)) // 3):
        return
    for n, o in ren.items():
        METHOD_ALIAS[(qn, n)] = o


def canon_function(qn_stripped):
    """canonical qualified function name: a renamed member function is spelled with its original name"""
    if not METHOD_ALIAS or '::' not in qn_stripped:
        return qn_stripped
    rec, name = qn_stripped.rsplit('::', 1)
    o = METHOD_ALIAS.get((rec, name))
    return rec + '::' + o if o else qn_stripped


def canon_field(qualified):
    """canonical qualified field name ('a::B::_x'): a renamed field is spelled with its original name"""
    if not FIELD_ALIAS or '::' not in qualified:
        return qualified
    rec, name = qualified.rsplit('::', 1)
    o = FIELD_ALIAS.get((strip_targs(rec), name))
    return rec + '::' + o if o else qualified


class AnalysisBroken(Exception):
    """The analysis itself cannot be carried out (exit 2): never a pass, never a violation."""


def _read(p):
    with open(p, 'rb') as f:
        return f.read()


def tree_hash(root=None):
    root = root or REPO
    h = hashlib.sha256()
    paths = []
    for base in (os.path.join(root, 'include'), os.path.join(root, 'src'), os.path.join(root, 'test'), PROBES,
                 os.path.join(VERIF, 'witness')):
        for d, _, fs in os.walk(base):
            for f in fs:
                paths.append(os.path.join(d, f))
    paths.append(TOOL)  # the extractor binary that actually produces the facts (not its source)
    for p in sorted(paths):
        h.update(p.encode())
        h.update(b'\0')
        try:
            h.update(_read(p))
        except OSError:
            pass
        h.update(b'\0')
    return h.hexdigest()[:24]


_cache_dir = {}


def cache_dir(root=None):
    root = root or REPO
    if root not in _cache_dir:
        d = os.path.join(CACHE, tree_hash(root))
        os.makedirs(d, exist_ok=True)
        _cache_dir[root] = d
        # keep the cache small: drop other trees' directories (best effort)
        try:
            olds = sorted((os.path.getmtime(os.path.join(CACHE, x)), x) for x in os.listdir(CACHE)
                          if os.path.join(CACHE, x) != d)
            for _, x in olds[:-3]:
                subprocess.call(['rm', '-rf', os.path.join(CACHE, x)])
        except OSError:
            pass
    return _cache_dir[root]


def gen_config(cfg, root=None):
    """configure_file() of src/config.hpp.in for one analysed configuration."""
    root = root or REPO
    c = CONFIGS[cfg]
    d = os.path.join(cache_dir(root), 'cfg_' + cfg)
    out = os.path.join(d, 'yaclib', 'config.hpp')
    if os.path.exists(out):
        return d
    os.makedirs(os.path.dirname(out), exist_ok=True)
    tpl = _read(os.path.join(root, 'src', 'config.hpp.in')).decode()
    vals = {
        'YACLIB_ASAN': '0', 'YACLIB_TSAN': '0', 'YACLIB_MEMSAN': '0', 'YACLIB_UBSAN': '0',
        'YACLIB_FAULT': str(c['fault']), 'YACLIB_COVERAGE': '0', 'YACLIB_CORO_NEED': str(c['coro']),
        'YACLIB_SYMMETRIC_TRANSFER': str(c['sym']), 'YACLIB_FINAL_SUSPEND_TRANSFER': str(c['sym']),
        'YACLIB_FUTEX': '0',
    }

    def sub(m):
        k = m.group(1)
        if k not in vals:
            raise AnalysisBroken('config.hpp.in uses unknown variable ${%s}' % k)
        return vals[k]

    txt = re.sub(r'\$\{(\w+)\}', sub, tpl)
    tmp = out + '.tmp%d.%d' % (os.getpid(), threading.get_ident())
    with open(tmp, 'w') as f:
        f.write(txt)
    os.replace(tmp, out)  # atomic: a concurrent check of the same tree never sees a partial file
    return d


def flags(cfg, root=None):
    root = root or REPO
    c = CONFIGS[cfg]
    return ['-std=' + c['std'], '-DNDEBUG', '-I' + os.path.join(root, 'include'), '-I' + gen_config(cfg, root),
            '-I' + os.path.join(root, 'src'), '-I' + PROBES, '-Wno-everything', '-ferror-limit=5']


def library_units(cfg, root=None):
    root = root or REPO
    c = CONFIGS[cfg]
    out = []
    for d, _, fs in os.walk(os.path.join(root, 'src')):
        for f in sorted(fs):
            if not f.endswith('.cpp'):
                continue
            p = os.path.join(d, f)
            rel = os.path.relpath(p, root)
            if rel.startswith('src/fault/fiber/'):
                if c['fault'] != 2:
                    continue
            elif rel in ('src/fault/random_device.cpp', 'src/fault/atomic.cpp', 'src/fault/condition_variable.cpp'):
                if c['fault'] == 0:
                    continue
            elif rel.startswith('src/coro/'):
                if not c['coro']:
                    continue
            out.append(p)
    return sorted(out)


def probe_units(cfg):
    out = []
    if not os.path.isdir(PROBES):
        return out
    for f in sorted(os.listdir(PROBES)):
        if not f.endswith('.cpp'):
            continue
        p = os.path.join(PROBES, f)
        with open(p) as fh:
            head = fh.readline()
        m = re.match(r'//\s*configs:\s*(.*)', head)
        cfgs = m.group(1).split() if m else []
        if cfg in cfgs:
            out.append(p)
    return out


def test_units(cfg, root=None):
    """The repository's own test and example units that the build of this configuration compiles
    (test/CMakeLists.txt: the unit and example lists, coro/ only with coroutines, fault/ only under FIBER).
    They are parsed, never run: their only role is to instantiate more of the library's templates."""
    root = root or REPO
    c = CONFIGS[cfg]
    try:
        cm = _read(os.path.join(root, 'test', 'CMakeLists.txt')).decode()
    except OSError:
        return []
    out = []
    for sub in ('unit', 'example'):
        for d, _, fs in os.walk(os.path.join(root, 'test', sub)):
            for f in sorted(fs):
                if not f.endswith('.cpp'):
                    continue
                p = os.path.join(d, f)
                rel = os.path.relpath(p, os.path.join(root, 'test'))[:-4]
                if not re.search(r'(?m)^\s*(add_executable\([^)]*\s)?%s(\.cpp\)?)?\s*$' % re.escape(rel), cm):
                    continue
                if rel == 'unit/log':
                    continue  # built with extra logging definitions; instantiates nothing of interest
                if rel.startswith('unit/coro/') or rel == 'unit/async/dealloc_order':
                    if not c['coro']:
                        continue
                if rel.startswith('unit/fault/'):
                    if c['fault'] != 2:
                        continue
                out.append(p)
    return sorted(out)


def _is_test_unit(unit, root):
    return unit.startswith(os.path.join(root, 'test') + '/')


def _out_name(unit, cfg, root):
    rel = unit
    for base in (root, VERIF):
        if unit.startswith(base + '/'):
            rel = os.path.relpath(unit, base)
    return cfg + '__' + rel.replace('/', '_') + ('.json.gz' if _is_test_unit(unit, root) else '.json')


def extract(pairs, root=None, jobs=16):
    """pairs: list of (unit path, cfg). Returns {(unit,cfg): json path}. Raises AnalysisBroken."""
    root = root or REPO
    if not os.path.exists(TOOL):
        raise AnalysisBroken('extractor not built: run MANIFEST.setup_cmd (make -C /verif)')
    cd = cache_dir(root)
    res = {}
    todo = []
    for unit, cfg in pairs:
        out = os.path.join(cd, _out_name(unit, cfg, root))
        res[(unit, cfg)] = out
        if not os.path.exists(out):
            todo.append((unit, cfg, out))

    flags_of = {cfg: flags(cfg, root) for cfg in sorted({c for _, c, _ in todo})}  # configs generated up front

    def run(job):
        unit, cfg, out = job
        tmp = out + '.tmp%d' % os.getpid()
        roots = ','.join([os.path.join(root, 'include'), os.path.join(root, 'src'), PROBES])
        fl = flags_of[cfg]
        if _is_test_unit(unit, root):
            fl = fl + ['-I' + os.path.join(root, 'test'), '-DYACLIB_CI_SLOWDOWN=1']
        cmd = [TOOL, '-o', tmp, '--roots=' + roots, unit, '--'] + fl
        p = subprocess.run(cmd, stdout=subprocess.PIPE, stderr=subprocess.PIPE, text=True)
        if p.returncode != 0 or not os.path.exists(tmp):
            try:
                os.unlink(tmp)
            except OSError:
                pass
            return (unit, cfg, p.stderr[-3000:])
        if out.endswith('.gz'):
            with open(tmp, 'rb') as fi, gzip.open(tmp + '.gz', 'wb', compresslevel=1) as fo:
                shutil.copyfileobj(fi, fo, 1 << 20)
            os.unlink(tmp)
            tmp += '.gz'
        os.replace(tmp, out)
        return None

    if todo:
        with ThreadPoolExecutor(max_workers=jobs) as ex:
            errs = [e for e in ex.map(run, todo) if e]
        if os.path.basename(cd) != tree_hash(root):
            # the sources changed while they were being parsed: the new fact files may describe either version
            for _, _, out in todo:
                try:
                    os.unlink(out)
                except OSError:
                    pass
            raise AnalysisBroken('the analysed sources under %s changed during extraction; run the check again' % root)
        if errs:
            msg = '\n'.join('unit %s does not parse in configuration %s:\n%s' % e for e in errs[:3])
            raise AnalysisBroken(msg)
    return res


# ----------------------------------------------------------------------------- fact base

_INTERNED = ('k', 't', 'fl', 'dn', 'dk', 'fk', 'mn', 'fr', 'ot', 'op', 'cn', 'ck', 'cr', 'cast', 'at', 'dt', 'lam',
             'pdt')

STRIP = ('ImplicitCastExpr', 'ParenExpr', 'ExprWithCleanups', 'MaterializeTemporaryExpr', 'CXXBindTemporaryExpr',
         'ConstantExpr', 'FullExpr', 'SubstNonTypeTemplateParmExpr')


_strip_cache = {}
_OPS = ['<<=', '>>=', '<=>', '->*', '<<', '>>', '<=', '>=', '==', '!=', '->', '()', '[]', '&&', '||', '++', '--', '+=',
        '-=', '*=', '/=', '%=', '&=', '|=', '^=', '<', '>', '=', '!', '+', '-', '*', '/', '%', '&', '|', '^', '~', ',']


def strip_targs(name):
    """qualified name without template argument lists: a::B<int, C<x>>::f -> a::B::f (operators kept)"""
    r = _strip_cache.get(name)
    if r is not None:
        return r
    if '<' not in name:
        _strip_cache[name] = name
        return name
    out = []
    depth = 0
    i = 0
    n = len(name)
    while i < n:
        c = name[i]
        if depth == 0 and name.startswith('operator', i) and (i == 0 or not (name[i - 1].isalnum() or name[i - 1] == '_')):
            # copy the operator token verbatim: operator<, operator<<, operator<=, operator->, operator() ...
            j = i + 8
            rest = name[j:]
            tok = None
            for op in _OPS:
                if rest.startswith(op):
                    tok = name[i:j + len(op)]
                    j += len(op)
                    break
            if tok is None:
                tok = name[i:j]
            out.append(tok)
            i = j
            continue
        if c == '<':
            depth += 1
        elif c == '>':
            depth -= 1
        elif depth == 0:
            out.append(c)
        i += 1
    r = ''.join(out)
    _strip_cache[name] = r
    return r


class Function:
    __slots__ = ('raw', 'S', 'key', 'qn', 'qnf', 'n', 'file', 'line', 'eline', 'ret', 'cls', 'clsq', 'cta', 'fta', 'pe', 'ov',
                 'parent', 'unit', 'cfgid', '_nodes', '_cfg', '_locals', '_parents', 'flags', '_single_defs')

    def __init__(self, raw, S, unit, cfgid):
        self.raw = raw
        self.S = S
        self.unit = unit
        self.cfgid = cfgid
        self.key = S[raw['key']]
        self.qnf = S[raw['qn']]
        self.qn = canon_function(strip_targs(self.qnf))
        self.n = S[raw['n']]
        if METHOD_ALIAS and self.qn.rsplit('::', 1)[-1] != self.n and '::' in self.qn and \
                strip_targs(self.qnf).rsplit('::', 1)[-1] == self.n:
            self.n = self.qn.rsplit('::', 1)[-1]  # a renamed member function keeps its original name for the rules
        self.file = S[raw['file']]
        self.line = raw['line']
        self.eline = raw.get('eline', raw['line'])
        self.ret = S[raw['ret']]
        self.cls = S[raw['cls']] if 'cls' in raw else ''
        self.clsq = S[raw['clsq']] if 'clsq' in raw else ''
        self.cta = [S[i] for i in raw.get('cta', [])]
        self.fta = [S[i] for i in raw.get('fta', [])]
        self.pe = [S[i] for i in raw.get('pe', [])]  # enum-valued template arguments, 'yaclib::FailPolicy=1'
        self.ov = [S[i] for i in raw.get('ov', [])]
        self.parent = S[raw['parent']] if 'parent' in raw else None
        self.flags = {k for k in ('noexcept', 'virtual', 'const', 'static', 'lambda', 'ctor', 'dtor', 'externc',
                                  'coroutine', 'volatile', 'varinit') if raw.get(k)}
        self._nodes = None
        self._cfg = None
        self._locals = None
        self._parents = None

    # ---- identity helpers
    @property
    def full(self):
        s = (self.cls + '::' + self.n) if self.cls else self.qn
        if self.fta:
            s += '<' + ', '.join(self.fta) + '>'
        return s

    @property
    def where(self):
        return '%s:%d' % (rel(self.file), self.line)

    @property
    def nodes(self):
        if self._nodes is None:
            S = self.S
            ns = self.raw['nodes']
            for i, n in enumerate(ns):
                n['i'] = i
                for k in _INTERNED:
                    if k in n:
                        n[k] = S[n[k]]
                if 'cta' in n:
                    n['cta'] = [S[x] for x in n['cta']]
                if 'cpe' in n:
                    n['cpe'] = [S[x] for x in n['cpe']]
                if 'lams' in n:
                    n['lams'] = [S[x] for x in n['lams']]
                if 'cn' in n:
                    n['cnf'] = n['cn']
                    n['cn'] = canon_function(strip_targs(n['cn']))
                if 'dn' in n:
                    n['dnf'] = n['dn']
                    n['dn'] = strip_targs(n['dn'])
                if METHOD_ALIAS and n['k'] == 'MemberExpr' and 'mn' in n and 'dn' in n and '::' in n['dn']:
                    rec = n['dn'].rsplit('::', 1)[0]
                    o = METHOD_ALIAS.get((rec, n['mn']))
                    if o is not None:
                        n['mn'] = o
                        n['dn'] = rec + '::' + o
                if FIELD_ALIAS and n['k'] == 'MemberExpr' and 'mn' in n and 'dn' in n and '::' in n['dn']:
                    rec = n['dn'].rsplit('::', 1)[0]
                    o = FIELD_ALIAS.get((rec, n['mn']))
                    if o is not None:  # a renamed data member: the rules see its original name
                        n['mn_now'] = n['mn']
                        n['mn'] = o
                        n['dn'] = rec + '::' + o
            self._nodes = ns
        return self._nodes

    def foreign(self):
        """indices of nodes that belong to the body of a nested lambda (they are also emitted as the lambda's own
        function); lexical scans of *this* function skip them"""
        out = set()
        for n in self.nodes:
            if n['k'] == 'LambdaExpr' and n.get('ch'):
                out.update(self.descendants(n['ch'][-1]))
        return out

    def own_nodes(self):
        fg = self.foreign()
        return [n for n in self.nodes if n['i'] not in fg] if fg else self.nodes

    @property
    def locals(self):
        if self._locals is None:
            S = self.S
            self._locals = [dict(n=S[l['n']], t=S[l['t']], p=l['p'], static=l.get('static', 0))
                            for l in self.raw['locals']]
        return self._locals

    @property
    def params(self):
        return self.raw['params']

    @property
    def cfg(self):
        if self._cfg is None and self.raw['cfg'] is not None:
            from . import cfg as _cfg
            self.nodes  # decode
            self._cfg = _cfg.CFG(self, self.raw['cfg'])
        return self._cfg

    @property
    def parents(self):
        if self._parents is None:
            par = {}
            for n in self.nodes:
                for c in n.get('ch', ()):
                    if c >= 0 and c not in par:
                        par[c] = n['i']
            self._parents = par
        return self._parents

    # ---- tree helpers
    def node(self, i):
        return self.nodes[i]

    def strip(self, i):
        """skip implicit casts / parens / temporaries wrappers"""
        ns = self.nodes
        while i is not None and i >= 0:
            n = ns[i]
            if n['k'] in STRIP and n.get('ch'):
                i = n['ch'][0]
                continue
            if n['k'] in ('CXXStaticCastExpr', 'CStyleCastExpr', 'CXXFunctionalCastExpr', 'CXXConstCastExpr') and \
                    n.get('cast') in ('NoOp', 'LValueToRValue') and n.get('ch'):
                i = n['ch'][0]
                continue
            return i
        return i

    def sn(self, i):
        i = self.strip(i)
        return self.nodes[i] if i is not None and i >= 0 else None

    def descendants(self, i, include_self=True):
        ns = self.nodes
        out = []
        st = [i]
        while st:
            j = st.pop()
            if j is None or j < 0:
                continue
            if j != i or include_self:
                out.append(j)
            st.extend(ns[j].get('ch', ()))
        return out

    # ---- value flow through single-assignment locals (named sub-expressions, reference aliases)
    @property
    def single_defs(self):
        """{local id: initialiser node} of locals that are declared with an initialiser and never written again in
        this function body (no assignment, compound assignment, ++/--, and their address is not taken)"""
        try:
            return self._single_defs
        except AttributeError:
            pass
        inits = {}
        written = set()
        for n in self.own_nodes():
            k = n['k']
            if k == 'DeclStmt':
                for v in n.get('vars', ()):
                    if v.get('id', -1) >= 0 and 'init' in v:
                        if v['id'] in inits:
                            written.add(v['id'])
                        inits[v['id']] = v['init']
            elif k in ('BinaryOperator', 'CompoundAssignOperator') and n.get('op', '').endswith('=') and \
                    n['op'] not in ('==', '!=', '<=', '>='):
                l = self.sn(n['ch'][0])
                if l is not None and l['k'] == 'DeclRefExpr' and 'id' in l:
                    written.add(l['id'])
            elif k == 'UnaryOperator' and n.get('op') in ('++', '--', '&'):
                l = self.sn(n['ch'][0])
                if l is not None and l['k'] == 'DeclRefExpr' and 'id' in l:
                    written.add(l['id'])
            if n.get('args'):
                # a local bound to a reference parameter may be written by the callee (compare_exchange's expected):
                # by-value arguments carry an LValueToRValue conversion, by-reference ones do not
                for a in n['args']:
                    j = a
                    byval = False
                    while j is not None and j >= 0:
                        m = self.nodes[j]
                        if m.get('cast') == 'LValueToRValue':
                            byval = True
                            break
                        if m['k'] in STRIP and m.get('ch'):
                            j = m['ch'][0]
                            continue
                        break
                    if not byval and j is not None and j >= 0:
                        m = self.nodes[j]
                        if m['k'] == 'DeclRefExpr' and 'id' in m:
                            t = m.get('t', '')
                            try:
                                decl_t = self.locals[m['id']].get('t', '')
                            except (IndexError, KeyError, TypeError):
                                decl_t = ''
                            # a reference local is an alias that can never be re-seated; a const local never changes
                            if not t.startswith('const ') and not decl_t.rstrip().endswith('&'):
                                written.add(m['id'])
        params = set(self.params)
        d = {i: init for i, init in inits.items() if i not in written and i not in params}
        self._single_defs = d
        return d

    def resolve(self, i, limit=6):
        """the expression a (stripped) node stands for: a reference / single-assignment local is replaced by its
        initialiser, repeatedly"""
        j = self.strip(i)
        while limit > 0 and j is not None and j >= 0:
            n = self.nodes[j]
            if n['k'] == 'DeclRefExpr' and n.get('id') in self.single_defs:
                j = self.strip(self.single_defs[n['id']])
                limit -= 1
                continue
            break
        return j

    def resolve_neg(self, i, limit=6):
        """(node index, negated): the expression i stands for after removing `!` and following single-assignment
        locals (`const bool last = x.SubEqual(1); return !last;` -> (SubEqual call, True))"""
        neg = False
        j = self.strip(i)
        while j is not None and j >= 0 and limit > 0:
            n = self.nodes[j]
            if n['k'] == 'UnaryOperator' and n.get('op') == '!':
                neg = not neg
                j = self.strip(n['ch'][0])
                continue
            if n['k'] == 'DeclRefExpr' and n.get('id') in self.single_defs:
                j = self.strip(self.single_defs[n['id']])
                limit -= 1
                continue
            break
        return j, neg

    def deep_descendants(self, i, limit=4):
        """descendants of i, continued through the initialisers of single-assignment locals"""
        out = []
        seen = set()
        work = [(i, limit)]
        while work:
            j, lim = work.pop()
            for d in self.descendants(j):
                if d in seen:
                    continue
                seen.add(d)
                out.append(d)
                n = self.nodes[d]
                if lim > 0 and n['k'] == 'DeclRefExpr' and n.get('id') in self.single_defs:
                    work.append((self.single_defs[n['id']], lim - 1))
        return out

    def xtext(self, i, depth=0):
        """text() with single-assignment locals expanded to their initialisers (named sub-expressions are
        transparent for the structural rules)"""
        return self.text(i, depth, expand=4)

    def calls(self, name_re=None):
        """all call-like nodes (CallExpr family + CXXConstructExpr) with a resolved callee"""
        out = []
        for n in self.own_nodes():
            if 'cn' in n and n['k'] != 'CXXNewExpr':
                if name_re is None or re.search(name_re, n['cn']):
                    out.append(n)
        return out

    def loc(self, n):
        if isinstance(n, int):
            n = self.nodes[n]
        return '%s:%d' % (rel(n.get('fl', self.file)), n.get('l', self.line))

    def text(self, i, depth=0, expand=0):
        """small pretty printer for diagnostics (expand > 0: follow that many single-assignment locals)"""
        if i is None or i < 0:
            return '?'
        n = self.nodes[i]
        k = n['k']
        ch = n.get('ch', [])
        if depth > 6:
            return '…'
        if expand:
            return self._xtext(i, depth, expand)
        if k in STRIP or k in ('CXXStaticCastExpr', 'CXXReinterpretCastExpr', 'CStyleCastExpr',
                               'CXXFunctionalCastExpr', 'CXXConstCastExpr'):
            return self.text(ch[0], depth) if ch else k
        if k == 'DeclRefExpr':
            return n['dn'].split('::')[-1]
        if k == 'MemberExpr':
            b = self.text(ch[0], depth + 1) if ch else ''
            return (b + ('->' if n.get('arrow') else '.') if b != 'this' else '') + n['mn']
        if k == 'CXXThisExpr':
            return 'this'
        if k in ('IntegerLiteral', 'CXXBoolLiteralExpr'):
            return str(n.get('v'))
        if k == 'CXXNullPtrLiteralExpr':
            return 'nullptr'
        if k in ('BinaryOperator', 'CompoundAssignOperator'):
            return '%s %s %s' % (self.text(ch[0], depth + 1), n['op'], self.text(ch[1], depth + 1))
        if k == 'UnaryOperator':
            return (self.text(ch[0], depth + 1) + n['op']) if n.get('post') else (n['op'] + self.text(ch[0], depth + 1))
        if k in ('CXXMemberCallExpr',):
            return '%s(%s)' % (self.text(ch[0], depth + 1), ', '.join(self.text(a, depth + 1) for a in n['args']))
        if k in ('CallExpr', 'CXXOperatorCallExpr'):
            return '%s(%s)' % (n.get('cn', '?').split('::')[-1], ', '.join(self.text(a, depth + 1) for a in n['args']))
        if k in ('CXXConstructExpr', 'CXXTemporaryObjectExpr'):
            return '%s{%s}' % (n.get('cr', '?').split('::')[-1], ', '.join(self.text(a, depth + 1) for a in n['args']))
        if k == 'CXXDefaultArgExpr':
            return 'default(%s)' % n.get('v')
        if k == 'ReturnStmt':
            return 'return ' + (self.text(ch[0], depth + 1) if ch else '')
        return k


def _xtext(self, i, depth, expand):
    """text with expansion: implemented by temporarily splicing the initialiser text in place of the local"""
    n = self.nodes[i]
    k = n['k']
    ch = n.get('ch', [])
    if k in STRIP or k in ('CXXStaticCastExpr', 'CXXReinterpretCastExpr', 'CStyleCastExpr',
                           'CXXFunctionalCastExpr', 'CXXConstCastExpr'):
        return self.text(ch[0], depth, expand) if ch else k
    if k == 'DeclRefExpr':
        if n.get('id') in self.single_defs and expand > 0 and not any(
                self.nodes[d]['k'] in ('CallExpr', 'CXXMemberCallExpr', 'CXXOperatorCallExpr', 'CXXConstructExpr',
                                       'LambdaExpr') for d in self.descendants(self.single_defs[n['id']])):
            # a name for a pure sub-expression (no call): transparent
            init = self.strip(self.single_defs[n['id']])
            t = self.text(init, depth + 1, expand - 1) if expand > 1 else self.text(init, depth + 1)
            m = self.nodes[init] if init is not None and init >= 0 else {}
            return '(%s)' % t if m.get('k') in ('BinaryOperator', 'ConditionalOperator') else t
        return n['dn'].split('::')[-1]
    T = lambda c, d=depth + 1: self.text(c, d, expand)  # noqa: E731
    if k == 'MemberExpr':
        b = T(ch[0]) if ch else ''
        return (b + ('->' if n.get('arrow') else '.') if b != 'this' else '') + n['mn']
    if k in ('BinaryOperator', 'CompoundAssignOperator'):
        return '%s %s %s' % (T(ch[0]), n['op'], T(ch[1]))
    if k == 'UnaryOperator':
        return (T(ch[0]) + n['op']) if n.get('post') else (n['op'] + T(ch[0]))
    if k in ('CXXMemberCallExpr',):
        return '%s(%s)' % (T(ch[0]), ', '.join(T(a) for a in n['args']))
    if k in ('CallExpr', 'CXXOperatorCallExpr'):
        return '%s(%s)' % (n.get('cn', '?').split('::')[-1], ', '.join(T(a) for a in n['args']))
    if k in ('CXXConstructExpr', 'CXXTemporaryObjectExpr'):
        return '%s{%s}' % (n.get('cr', '?').split('::')[-1], ', '.join(T(a) for a in n['args']))
    return self.text(i, depth)


Function._xtext = _xtext


def rel(path):
    for base in (REPO + '/', VERIF + '/'):
        if path.startswith(base):
            return path[len(base):]
    return path


class Record:
    __slots__ = ('name', 'qn', 'file', 'line', 'bases', 'fields', 'methods', 'final', 'union', 'ta', 'mnames')

    def __init__(self, raw, S):
        self.name = S[raw['name']]
        self.qn = S[raw['qn']]
        self.file = S[raw['file']]
        self.line = raw['line']
        self.final = bool(raw.get('final'))
        self.union = bool(raw.get('union'))
        self.ta = [S[i] for i in raw.get('ta', [])]
        self.bases = [dict(t=S[b['t']], acc=b['acc'], virtual=b.get('virtual', 0)) for b in raw['bases']]
        self.fields = [dict(n=S[f['n']], t=S[f['t']], acc=f['acc'], mutable=f.get('mutable', 0), dmi=f.get('dmi', 0),
                            dmiv=f.get('dmiv'))
                       for f in raw['fields']]
        self.mnames = [S[i] for i in raw.get('mnames', [])]
        qn0 = strip_targs(self.qn)
        note_record_methods(qn0, self.mnames)
        note_record_fields(qn0, [f['n'] for f in self.fields], [f['t'] for f in self.fields])
        for f in self.fields:
            o = FIELD_ALIAS.get((qn0, f['n']))
            if o is not None:
                f['n_now'] = f['n']
                f['n'] = o
        self.methods = [dict(n=S[m['n']], key=S[m['key']], virtual=m.get('virtual', 0), pure=m.get('pure', 0),
                             final=m.get('final', 0), const=m.get('const', 0), deleted=m.get('deleted', 0),
                             defaulted=m.get('defaulted', 0), defined=m.get('def', 0), line=m.get('line', 0),
                             acc=m['acc'], ov=[S[o] for o in m.get('ov', [])]) for m in raw['methods']]


def _lam_key(cls):
    m = re.search(r'([^/ ]+:\d+:\d+)\)', cls)
    return m.group(1) if m else cls


class FactBase:
    """Union of the facts of several (unit, configuration) pairs of ONE configuration family.

    Functions are keyed by mangled name (ODR: the first definition seen wins)."""

    def __init__(self):
        self.fn = {}
        self.records = {}
        self.enums = {}
        self.vars = {}
        self.member_def = {}  # (class, member, line, file) -> 1 if some specialisation instantiated its definition
        self.templates = {}  # (qualified name, file, line) of a namespace-scope function template -> instantiations seen
        self.units = []
        self._by_qn = None
        self._overriders = None
        self._derived = None

    def load(self, path, unit, cfgid):
        with (gzip.open(path, 'rt') if path.endswith('.gz') else open(path)) as f:
            d = json.load(f)
        if d.get('errors'):
            raise AnalysisBroken('%s has %d compile errors in %s' % (unit, d['errors'], cfgid))
        S = d['S']
        nf = 0
        for raw in d['records']:  # first: they reveal renamed members, which the functions below are named by
            n = S[raw['name']]
            if n not in self.records:
                self.records[n] = Record(raw, S)
            # which user-declared members of (specialisations of) a class have an instantiated definition anywhere
            qn0 = strip_targs(S[raw['qn']])
            for m in raw['methods']:
                if m.get('deleted') or m.get('pure'):
                    continue
                k = (qn0, S[m['n']], m.get('line', 0), S[raw['file']])
                self.member_def[k] = max(self.member_def.get(k, 0), m.get('def', 0))
        for raw in d['functions']:
            k = S[raw['key']]
            if k not in self.fn:
                self.fn[k] = Function(raw, S, unit, cfgid)
                nf += 1
        for raw in d['enums']:
            self.enums.setdefault(S[raw['name']], raw['consts'])
        for raw in d['vars']:
            n = strip_targs(S[raw['name']])
            if n not in self.vars:
                self.vars[n] = dict(name=n, t=S[raw['t']], file=S[raw['file']], line=raw['line'],
                                    tls=raw.get('tls', 0), const=raw.get('const', 0), member=raw.get('member', 0),
                                    staticlocal=raw.get('staticlocal', 0), v=raw.get('v'))
        for raw in d.get('templates', []):
            k = (S[raw['name']], S[raw['file']], raw['line'])
            self.templates[k] = self.templates.get(k, 0) + raw.get('inst', 0)
        self.units.append((rel(unit), cfgid, nf))
        self._by_qn = None
        return self

    # ---- queries
    def by_qn(self, qn):
        if self._by_qn is None:
            m = {}
            for f in self.fn.values():
                m.setdefault(f.qn, []).append(f)
            self._by_qn = m
        return self._by_qn.get(qn, [])

    def lambda_ops(self, cls):
        """operator() bodies of the closure type `cls` ("(lambda <file>:<line>:<col>)"); the root prefix of probe files
        differs between the type spelling and the record name, so the match is on basename:line:col"""
        if getattr(self, '_lam_ops', None) is None:
            m = {}
            for f in self.fn.values():
                if f.n == 'operator()' and (f.cls or '').startswith('(lambda '):
                    m.setdefault(_lam_key(f.cls), []).append(f)
            self._lam_ops = m
        return self._lam_ops.get(_lam_key(cls), [])

    def find(self, pattern):
        r = re.compile(pattern)
        return [f for f in self.fn.values() if r.search(f.qn)]

    def functions_in(self, relpaths):
        out = []
        for f in self.fn.values():
            rp = rel(f.file)
            if any(rp == p or rp.startswith(p) for p in relpaths):
                out.append(f)
        return out

    def overriders(self, key):
        """all method keys that (transitively) override the virtual method `key`, plus key itself"""
        if self._overriders is None:
            direct = {}
            for r in self.records.values():
                for m in r.methods:
                    for o in m['ov']:
                        direct.setdefault(o, set()).add(m['key'])
            for f in self.fn.values():
                for o in f.ov:
                    direct.setdefault(o, set()).add(f.key)
            self._overriders = direct
        seen = {key}
        st = [key]
        while st:
            k = st.pop()
            for d in self._overriders.get(k, ()):
                if d not in seen:
                    seen.add(d)
                    st.append(d)
        return seen

    def derived(self, recname):
        if self._derived is None:
            m = {}
            for r in self.records.values():
                for b in r.bases:
                    m.setdefault(b['t'], set()).add(r.name)
            self._derived = m
        seen = set()
        st = [recname]
        while st:
            k = st.pop()
            for d in self._derived.get(k, ()):
                if d not in seen:
                    seen.add(d)
                    st.append(d)
        return seen

    def all_bases(self, recname):
        seen = []
        st = [recname]
        while st:
            k = st.pop()
            r = self.records.get(k)
            if not r:
                continue
            for b in r.bases:
                if b['t'] not in seen:
                    seen.append(b['t'])
                    st.append(b['t'])
        return seen


def load(cfgs, kinds=('lib', 'probe'), only=None, root=None, extra_units=(), tests=None):
    """Extract (cached) and load the facts of the given configurations.

    returns {cfg: FactBase}.  `only`: optional regex on the unit path."""
    root = root or REPO
    pairs = []
    for c in cfgs:
        us = []
        if 'lib' in kinds:
            us += library_units(c, root)
        if 'probe' in kinds:
            us += probe_units(c)
        us += [u for u in extra_units]
        for u in us:
            if only and not re.search(only, u):
                continue
            pairs.append((u, c))
        if tests:
            for u in test_units(c, root):
                if re.search(tests, u):
                    pairs.append((u, c))
    t0 = time.time()
    outs = extract(pairs, root)
    fbs = {}
    for (u, c), p in outs.items():
        fbs.setdefault(c, FactBase()).load(p, u, c)
    for c in cfgs:
        fbs.setdefault(c, FactBase())
    return fbs
