"""A small shape analysis for in-place manipulation of intrusive singly linked lists (abstract interpretation).

Abstract heap: nodes are `one` (exactly one list node) or `many` (a chain of >= 1 nodes whose inner links are
intact); every node has one `next` (another node or null).  Pointer variables point to null or to a node (for a
`many` node: to its first element).  Reading or writing `x->next` where x points to a `many` node materialises it
(case split: the chain has exactly one element / at least two).  After every statement nodes that no variable points
to and that have exactly one predecessor are folded into it, so the state space is finite for a fixed set of
variables and the fixpoint over the CFG terminates (it is capped all the same).

What is decided, for every list length:
  * leak      a node that is neither finished (Call()/Drop()/Loop(.., x)) nor reachable from any live variable or
              escaped root any more -> the waiter / job it stands for is never resumed
  * cycle     an assignment x->next = y that makes x reachable from itself
  * twice     a node finished twice
  * null      x->next / finishing through a pointer that can be null
  * at exit   every unfinished node is reachable from the returned pointer or an escaped root

Order: every node carries the interval of positions it occupies in the list it was taken from (position 0 = the
element the detached head pointed to, i.e. the NEWEST entry of a push-front stack) and a `many` node the direction
its inner links run in ('orig': towards older entries, 'rev': towards newer ones, 'mixed': neither).  Folding two
adjacent nodes keeps the direction when the link agrees with it; materialising splits the interval accordingly.
With `ordered_finishers` set, finishing a node while an OLDER node of the same input is still unfinished is reported
('order'); `direction_of(heap, start)` tells in which direction a returned list runs.  An order that cannot be
established ('mixed') is Unsupported where it matters, never a pass.
Anything outside the modelled statement forms raises Unsupported (-> analysis broken), never a silent pass.
"""
import itertools
from fractions import Fraction

NULL = 0  # the null "node"


class Unsupported(Exception):
    pass


class Heap:
    """nodes: id -> [kind, next, finished, lo, hi, dir];  vars: key -> node id (or NULL / None = not a tracked
    pointer).  [lo, hi) = positions in the input list (None = unknown), dir = 'orig' | 'rev' | 'mixed'"""
    __slots__ = ('nodes', 'vars', 'fresh', 'escaped', 'ninputs')

    def __init__(self):
        self.nodes = {}
        self.vars = {}
        self.fresh = 1
        self.escaped = frozenset()
        self.ninputs = 0

    def copy(self):
        h = Heap()
        h.nodes = {k: list(v) for k, v in self.nodes.items()}
        h.vars = dict(self.vars)
        h.fresh = self.fresh
        h.escaped = self.escaped
        h.ninputs = self.ninputs
        return h

    def new(self, kind, nxt=NULL, finished=False, lo=None, hi=None, direction='orig'):
        i = self.fresh
        self.fresh += 1
        self.nodes[i] = [kind, nxt, finished, lo, hi, direction]
        return i

    def new_input(self, kind):
        """a freshly detached list: positions [k, k+1), links run from the newest to the oldest entry"""
        base = Fraction(self.ninputs)
        self.ninputs += 1
        return self.new(kind, NULL, False, base, base + 1, 'orig')

    # ---- structure
    def preds(self, n):
        return [i for i, v in self.nodes.items() if v[1] == n]

    def roots(self):
        return set(v for v in self.vars.values() if v) | set(self.escaped)

    def reachable_from(self, starts):
        seen = set()
        st = [s for s in starts if s]
        while st:
            n = st.pop()
            if n in seen or n not in self.nodes:
                continue
            seen.add(n)
            nx = self.nodes[n][1]
            if nx:
                st.append(nx)
        return seen

    def collect(self):
        """remove unreachable nodes; returns the list of removed *unfinished* ones (leaks)"""
        live = self.reachable_from(self.roots())
        leaked = []
        for n in list(self.nodes):
            if n not in live:
                if not self.nodes[n][2]:
                    leaked.append(n)
                del self.nodes[n]
        return leaked

    def fold(self):
        """merge a node that no variable points to and that has exactly one predecessor into that predecessor"""
        changed = True
        while changed:
            changed = False
            pointed = self.roots()
            for n in list(self.nodes):
                if n in pointed or n not in self.nodes:
                    continue
                ps = self.preds(n)
                if len(ps) != 1:
                    continue
                p = ps[0]
                if p == n or self.nodes[p][2] != self.nodes[n][2]:
                    continue
                P, N = self.nodes[p], self.nodes[n]
                # direction of the merged chain: p links to n
                d = 'mixed'
                lo = hi = None
                if P[3] is not None and N[3] is not None:
                    lo, hi = min(P[3], N[3]), max(P[4], N[4])
                    pd = P[5] if P[0] == 'many' else None
                    nd = N[5] if N[0] == 'many' else None
                    if P[4] == N[3] and pd in (None, 'orig') and nd in (None, 'orig'):
                        d = 'orig'  # p is newer than n and adjacent: the link runs towards older entries
                    elif N[4] == P[3] and pd in (None, 'rev') and nd in (None, 'rev'):
                        d = 'rev'
                    else:
                        # not neighbours in the input list (or chains of opposite direction): keeping them apart
                        # loses nothing; the number of such seams is bounded by the pointed nodes between them
                        continue
                P[0] = 'many'
                P[1] = N[1]
                P[3], P[4], P[5] = lo, hi, d
                del self.nodes[n]
                changed = True

    def canon(self):
        """canonical key up to renaming of node ids"""
        order = {}
        out = []
        for k in sorted(self.vars, key=repr):
            v = self.vars[k]
            st = [v]
            while st:
                n = st.pop()
                if not n or n in order or n not in self.nodes:
                    continue
                order[n] = len(order) + 1
                st.append(self.nodes[n][1])
        for n in sorted(self.escaped):
            st = [n]
            while st:
                m = st.pop()
                if not m or m in order or m not in self.nodes:
                    continue
                order[m] = len(order) + 1
                st.append(self.nodes[m][1])
        vs = tuple((repr(k), order.get(self.vars[k], 0) if self.vars[k] else (0 if self.vars[k] == NULL else -1))
                   for k in sorted(self.vars, key=repr))
        bounds = sorted({b for n in self.nodes for b in self.nodes[n][3:5] if b is not None})
        rk = {b: i for i, b in enumerate(bounds)}
        ns = tuple(sorted((order[n], self.nodes[n][0], order.get(self.nodes[n][1], 0), self.nodes[n][2],
                           rk.get(self.nodes[n][3], -1), rk.get(self.nodes[n][4], -1),
                           self.nodes[n][5] if self.nodes[n][0] == 'many' else '')
                          for n in self.nodes if n in order))
        es = tuple(sorted(order.get(n, 0) for n in self.escaped))
        return (vs, ns, es)

    def materialise(self, n):
        """n is a `many` node: the states in which it is split into its first element and the rest"""
        if self.nodes[n][0] != 'many':
            return [self]
        a = self.copy()
        a.nodes[n][0] = 'one'
        b = self.copy()
        kind, nxt, fin, lo, hi, d = b.nodes[n]
        if lo is None or d == 'mixed':
            rest = b.new('many', nxt, fin, lo, hi, d)  # positions unknown: both parts keep the hull
        else:
            mid = (lo + hi) / 2
            if d == 'orig':   # the first element is the newest of the chain
                rest = b.new('many', nxt, fin, mid, hi, d)
                b.nodes[n][3], b.nodes[n][4] = lo, mid
            else:             # 'rev': the first element is the oldest of the chain
                rest = b.new('many', nxt, fin, lo, mid, d)
                b.nodes[n][3], b.nodes[n][4] = mid, hi
        b.nodes[n][0] = 'one'
        b.nodes[n][1] = rest
        return [a, b]

    def older_unfinished(self, n):
        """-> (definitely, possibly): is there an unfinished node of the same input list that is older than n?"""
        lo, hi = self.nodes[n][3], self.nodes[n][4]
        definitely = possibly = False
        for m, v in self.nodes.items():
            if m == n or v[2]:
                continue
            if lo is None or v[3] is None:
                possibly = True
                continue
            if v[3] // 1 != lo // 1:
                continue  # a node of another input list
            if v[3] >= hi:
                definitely = True   # entirely behind n in the detached list = pushed earlier
            elif v[4] > lo:
                possibly = True     # overlapping hulls (a 'mixed' chain)
        return definitely, possibly

    def direction_of(self, start):
        """'rev' / 'orig' / 'mixed' / 'single': the direction of the chain that starts at node `start`"""
        dirs = set()
        n = start
        seen = set()
        prev = None
        count = 0
        while n and n in self.nodes and n not in seen:
            seen.add(n)
            v = self.nodes[n]
            count += 2 if v[0] == 'many' else 1
            if v[0] == 'many':
                dirs.add(v[5])
            if prev is not None:
                P = self.nodes[prev]
                if P[3] is None or v[3] is None:
                    dirs.add('mixed')
                elif P[4] == v[3]:
                    dirs.add('orig')
                elif v[4] == P[3]:
                    dirs.add('rev')
                else:
                    dirs.add('mixed')
            prev = n
            n = v[1]
        if count <= 1:
            return 'single'
        if len(dirs) == 1:
            return next(iter(dirs))
        return 'mixed'


class Problem:
    def __init__(self, kind, loc, msg):
        self.kind, self.loc, self.msg = kind, loc, msg

    def key(self):
        return (self.kind, self.loc, self.msg)


FINISHERS = ('Call', 'Drop')
PTR_CASTS = ('ImplicitCastExpr', 'CXXStaticCastExpr', 'CXXReinterpretCastExpr', 'CStyleCastExpr', 'ParenExpr',
             'CXXFunctionalCastExpr', 'ExprWithCleanups', 'MaterializeTemporaryExpr', 'CXXConstCastExpr')


class Analysis:
    """interprets one function (helpers that touch `next` are inlined) over sets of abstract heaps"""
    max_states = 400

    def __init__(self, fb, inputs, is_helper=None, next_field='yaclib::detail::Node::next', ordered_finishers=(),
                 finishers=None, on_store=None):
        """inputs(fn, node) -> 'list' (non-empty input list), 'maybe-list', 'single', 'maybe-single' (one node whose
        next is null) or None: which expressions introduce the list under analysis (e.g. the exchange that detaches
        it)"""
        self.fb = fb
        self.inputs = inputs
        self.is_helper = is_helper or (lambda fn, g: False)
        self.next_field = next_field
        self.ordered_finishers = tuple(ordered_finishers)  # finishers that must run oldest entry first
        #                                                     ('escape' = a node handed to another function)
        self.finishers = tuple(finishers) if finishers else FINISHERS
        self.on_store = on_store  # callback(fn, node, heap, value) when a tracked chain is stored into a member
        self.problems = {}
        self.nstates = 0

    def problem(self, kind, fn, node, msg):
        p = Problem(kind, fn.loc(node) if node is not None else fn.where, msg)
        self.problems.setdefault(p.key(), p)

    # ------------------------------------------------------------------ expressions
    def key(self, depth, vid):
        return (depth, vid)

    def strip(self, fn, i):
        while i is not None and i >= 0:
            n = fn.nodes[i]
            if n['k'] in PTR_CASTS and n.get('ch'):
                i = n['ch'][0]
                continue
            return i
        return i

    def eval(self, fn, i, h, depth):
        """-> list of (heap, value); value: node id | NULL | None (not a tracked pointer / unknown)"""
        i = self.strip(fn, i)
        if i is None or i < 0:
            return [(h, None)]
        n = fn.nodes[i]
        k = n['k']
        if k == 'CXXNullPtrLiteralExpr' or ('v' in n and n['v'] == 0 and 'id' not in n):
            return [(h, NULL)]  # nullptr, 0, a named constant whose value is 0 (kEmpty)
        kind = self.inputs(fn, n)
        if kind is not None:
            out = []
            if kind.startswith('maybe-'):
                out.append((h, NULL))
            h2 = h.copy()
            out.append((h2, h2.new_input('one' if kind.endswith('single') else 'many')))
            return out
        if k == 'DeclRefExpr':
            if 'id' in n:
                return [(h, h.vars.get(self.key(depth, n['id'])))]
            return [(h, None)]
        if k == 'UnaryOperator' and n.get('op') in ('&', '*'):
            return self.eval(fn, n['ch'][0], h, depth)  # references and pointers to a node denote the node
        if k == 'MemberExpr' and n.get('dn') == self.next_field and n.get('ch'):
            out = []
            for h1, b in self.eval(fn, n['ch'][0], h, depth):
                if b is None:
                    out.append((h1, None))
                    continue
                if b == NULL:
                    self.problem('null', fn, n, 'next of a null pointer is read')
                    continue
                for h2 in h1.materialise(b):
                    out.append((h2, h2.nodes[b][1]))
            return out
        if k in ('CallExpr', 'CXXMemberCallExpr'):
            g = self.fb.fn.get(n.get('ck'))
            if g is not None and self.is_helper(fn, g) and g.cfg is not None:
                return self.call(fn, n, g, h, depth)
            return [(h, None)]
        if k == 'ConditionalOperator' and len(n.get('ch', [])) == 3:
            t, f = self.branch(fn, n['ch'][0], h, depth)
            out = []
            for h1 in t:
                out += self.eval(fn, n['ch'][1], h1, depth)
            for h1 in f:
                out += self.eval(fn, n['ch'][2], h1, depth)
            return out
        return [(h, None)]

    def call(self, fn, n, g, h, depth):
        """inline a helper: bind pointer parameters, run it, return (heap, returned value)"""
        states = [(h, [])]
        for a in n.get('args', []):
            nxt = []
            for h1, vals in states:
                for h2, v in self.eval(fn, a, h1, depth):
                    nxt.append((h2, vals + [v]))
            states = nxt
        out = []
        for h1, vals in states:
            h2 = h1.copy()
            for pid, v in zip(g.params, vals):
                if v is not None:
                    h2.vars[self.key(depth + 1, pid)] = v
            for h3, rv in self.run(g, h2, depth + 1):
                # the callee's variables die
                for kk in [kk for kk in h3.vars if kk[0] == depth + 1]:
                    del h3.vars[kk]
                if rv:
                    h3.vars[('tmp', depth, n['i'])] = rv  # keep the returned node alive until it is consumed
                out.append((h3, rv))
        return out

    # ------------------------------------------------------------------ statements
    def settle(self, fn, node, h):
        leaked = h.collect()
        if leaked:
            self.problem('leak', fn, node, 'a list node becomes unreachable here without having been finished '
                         '(resumed / Called / Dropped): whoever waits in it is never woken up')
        h.fold()

    def drop_tmps(self, h, depth):
        for kk in [kk for kk in h.vars if kk[0] == 'tmp' and kk[1] == depth]:
            del h.vars[kk]

    def assign_var(self, fn, node, h, depth, vid, val):
        kk = self.key(depth, vid)
        if val is None:
            h.vars.pop(kk, None)
        else:
            h.vars[kk] = val

    def stmt(self, fn, e, h, depth):
        """transformer of one CFG element; returns list of heaps"""
        n = fn.nodes[e]
        k = n['k']
        if k == 'DeclStmt':
            states = [h]
            for v in n.get('vars', ()):
                if 'init' not in v or v.get('id', -1) < 0:
                    continue
                nxt = []
                for h1 in states:
                    for h2, val in self.eval(fn, v['init'], h1, depth):
                        h3 = h2.copy()
                        self.assign_var(fn, n, h3, depth, v['id'], val)
                        self.drop_tmps(h3, depth)
                        self.settle(fn, n, h3)
                        nxt.append(h3)
                states = nxt
            return states
        if k == 'BinaryOperator' and n.get('op') == '=':
            lhs = self.strip(fn, n['ch'][0])
            ln = fn.nodes[lhs]
            if ln['k'] == 'DeclRefExpr' and 'id' in ln:
                out = []
                for h2, val in self.eval(fn, n['ch'][1], h, depth):
                    kk = self.key(depth, ln['id'])
                    if val is None and kk not in h2.vars:
                        out.append(h2)
                        continue
                    h3 = h2.copy()
                    self.assign_var(fn, n, h3, depth, ln['id'], val)
                    self.drop_tmps(h3, depth)
                    self.settle(fn, n, h3)
                    out.append(h3)
                return out
            if ln['k'] == 'MemberExpr' and ln.get('dn') == self.next_field and ln.get('ch'):
                out = []
                for h1, b in self.eval(fn, ln['ch'][0], h, depth):
                    if b is None:
                        out.append(h1)  # the next field of something that is not part of the list under analysis
                        continue
                    if b == NULL:
                        self.problem('null', fn, n, 'next of a null pointer is written')
                        continue
                    for h2, val in self.eval(fn, n['ch'][1], h1, depth):
                        if val is None:
                            raise Unsupported('an untracked pointer is stored into ->next at %s' % fn.loc(n))
                        for h3 in h2.materialise(b):
                            h3.nodes[b][1] = val
                            if val and b in h3.reachable_from([val]):
                                self.problem('cycle', fn, n, 'this assignment links a node behind itself: the list '
                                             'becomes cyclic')
                                continue
                            self.drop_tmps(h3, depth)
                            self.settle(fn, n, h3)
                            out.append(h3)
                return out
            if ln['k'] == 'MemberExpr':
                # a pointer stored into a field: the nodes escape (stay reachable)
                out = []
                for h2, val in self.eval(fn, n['ch'][1], h, depth):
                    if val:
                        h3 = h2.copy()
                        if self.on_store is not None:
                            self.on_store(self, fn, n, h3, val)
                        h3.escaped = h3.escaped | {val}
                        out.append(h3)
                    else:
                        out.append(h2)
                return out
            return [h]
        if k == 'CXXMemberCallExpr' and n.get('cn', '').split('::')[-1] in self.finishers and n.get('obj') is not None:
            out = []
            for h1, b in self.eval(fn, n['obj'], h, depth):
                if b is None:
                    out.append(h1)
                    continue
                if b == NULL:
                    self.problem('null', fn, n, 'a null node is finished')
                    continue
                for h2 in h1.materialise(b):
                    if h2.nodes[b][2]:
                        self.problem('twice', fn, n, 'a list node is finished twice')
                        continue
                    if n['cn'].split('::')[-1] in self.ordered_finishers:
                        definitely, possibly = h2.older_unfinished(b)
                        if definitely:
                            self.problem('order', fn, n, 'an entry is finished while an OLDER entry of the same '
                                         'detached list is still pending: the entries do not run in the order they '
                                         'were pushed')
                        elif possibly:
                            raise Unsupported('the order in which the entries are finished cannot be established at '
                                              '%s' % fn.loc(n))
                    h2.nodes[b][2] = True
                    self.settle(fn, n, h2)
                    out.append(h2)
            return out
        if k == 'CallExpr' and n.get('cn') == 'yaclib::detail::Loop' and len(n.get('args', [])) == 2:
            out = []
            for h1, b in self.eval(fn, n['args'][1], h, depth):
                if not b:
                    out.append(h1)
                    continue
                for h2 in h1.materialise(b):
                    if h2.nodes[b][2]:
                        self.problem('twice', fn, n, 'a list node is finished twice')
                        continue
                    h2.nodes[b][2] = True
                    self.settle(fn, n, h2)
                    out.append(h2)
            return out
        if k in ('CallExpr', 'CXXMemberCallExpr') and n.get('args'):
            # a tracked node handed to some other function (Submit(*node), Run(node)): it escapes = is consumed there
            g = self.fb.fn.get(n.get('ck'))
            if g is not None and self.is_helper(fn, g):
                return [h]  # evaluated where its value is used
            out = [h]
            for a in n['args']:
                nxt = []
                for h0 in out:
                    for h1, b in self.eval(fn, a, h0, depth):
                        if b:
                            for h2 in h1.materialise(b):
                                if not h2.nodes[b][2]:
                                    if 'escape' in self.ordered_finishers:
                                        definitely, possibly = h2.older_unfinished(b)
                                        if definitely:
                                            self.problem('order', fn, n, 'an entry is handed on (granted / submitted) '
                                                         'while an OLDER entry of the same detached list is still '
                                                         'pending: the entries are not served in arrival order')
                                        elif possibly:
                                            raise Unsupported('the order in which the entries are handed on cannot be '
                                                              'established at %s' % fn.loc(n))
                                    h2.nodes[b][2] = True  # handed over: the callee resumes / runs it
                                nxt.append(h2)
                        else:
                            nxt.append(h1)
                out = nxt
            return out
        return [h]

    def branch(self, fn, ci, h, depth):
        """-> (states on the true edge, states on the false edge)"""
        i = self.strip(fn, ci)
        n = fn.nodes[i]
        neg = False
        while n['k'] == 'UnaryOperator' and n.get('op') == '!':
            neg = not neg
            i = self.strip(fn, n['ch'][0])
            n = fn.nodes[i]
        t, f = [], []
        if n['k'] == 'BinaryOperator' and n.get('op') in ('==', '!='):
            for h1, a in self.eval(fn, n['ch'][0], h, depth):
                for h2, b in self.eval(fn, n['ch'][1], h1, depth):
                    if a is None or b is None:
                        t.append(h2)
                        f.append(h2.copy())
                        continue
                    eq = (a == b)
                    (t if eq == (n['op'] == '==') else f).append(h2)
        else:
            for h1, a in self.eval(fn, i, h, depth):
                if a is None:
                    t.append(h1)
                    f.append(h1.copy())
                elif a == NULL:
                    f.append(h1)
                else:
                    t.append(h1)
        return (f, t) if neg else (t, f)

    # ------------------------------------------------------------------ fixpoint over the CFG
    def run(self, fn, h0, depth=0):
        """-> list of (heap, returned value) at the exits of fn"""
        cfg = fn.cfg
        if cfg is None:
            raise Unsupported('no CFG for %s' % fn.full)
        seen = {}
        work = [(cfg.entry, h0)]
        exits = []
        while work:
            b, h = work.pop()
            ck = h.canon()
            if ck in seen.setdefault(b, set()):
                continue
            seen[b].add(ck)
            self.nstates += 1
            if sum(len(s) for s in seen.values()) > self.max_states:
                raise Unsupported('more than %d abstract states in %s' % (self.max_states, fn.full))
            blk = cfg.blocks[b]
            states = [h]
            returned = False
            for e in blk.el:
                if not isinstance(e, int):
                    continue
                n = fn.nodes[e]
                if n['k'] == 'ReturnStmt':
                    ch = n.get('ch', [])
                    for h1 in states:
                        if ch and ch[0] >= 0:
                            for h2, v in self.eval(fn, ch[0], h1, depth):
                                exits.append((h2, v))
                        else:
                            exits.append((h1, None))
                    returned = True
                    break
                nxt = []
                for h1 in states:
                    nxt += self.stmt(fn, e, h1, depth)
                states = nxt
            if returned:
                continue
            succ = blk.succ
            live = [s for s in succ if s is not None]
            if b == cfg.exit or not live:
                for h1 in states:
                    exits.append((h1, None))
                continue
            if blk.cond is not None and len(succ) == 2:
                for h1 in states:
                    t, f = self.branch(fn, blk.cond, h1, depth)
                    if succ[0] is not None:
                        work += [(succ[0], x) for x in t]
                    if succ[1] is not None:
                        work += [(succ[1], x) for x in f]
            else:
                for s in live:
                    work += [(s, x.copy()) for x in states]
        return exits

    def check_function(self, fn, h0=None, must_return_all=True):
        """analyse fn from the empty heap (inputs are introduced by `inputs`); at every exit all unfinished nodes
        must be reachable from the returned pointer or an escaped root"""
        h = h0 or Heap()
        exits = self.run(fn, h, 0)
        for h1, rv in exits:
            h2 = h1.copy()
            h2.vars = {('ret',): rv} if rv else {}
            leaked = h2.collect()
            if leaked and must_return_all:
                self.problem('leak', fn, None, 'at the end of the function a list node is neither finished nor reachable '
                             'from what the function returns / stores: it is lost')
        return exits
