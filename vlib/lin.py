"""Linear symbolic values for counter / queue-length reasoning (an abstract domain, no solver).

A LinExpr is  c + sum(coef_i * sym_i)  with integer coefficients over named symbols that stand for the values of
counters and list lengths in the pre-state of a transition (all symbols are natural numbers).  A Facts object is the
abstract state: a list of expressions known to be >= 0 (path conditions and pre-state invariants).  Equalities are
eliminated by substitution as soon as they are learned, so two expressions are equal iff their normal forms are.

prove_ge0(e): e is shown non-negative by a non-negative integer combination of the known facts (coefficients 0..3
over at most 10 facts, plus sym >= 0 for every symbol) -- a Farkas certificate found by enumeration.  Sound (a found
certificate is a proof); incomplete (no certificate is "cannot prove", which the rules report as analysis-broken
or as a violation only together with a concrete counter-shape).
"""
import itertools


class LinExpr:
    __slots__ = ('c', 't')

    def __init__(self, c=0, t=None):
        self.c = c
        self.t = {k: v for k, v in (t or {}).items() if v != 0}

    @staticmethod
    def sym(name):
        return LinExpr(0, {name: 1})

    @staticmethod
    def const(c):
        return LinExpr(c)

    def is_const(self):
        return not self.t

    def __add__(self, o):
        o = lift(o)
        t = dict(self.t)
        for k, v in o.t.items():
            t[k] = t.get(k, 0) + v
        return LinExpr(self.c + o.c, t)

    def __neg__(self):
        return LinExpr(-self.c, {k: -v for k, v in self.t.items()})

    def __sub__(self, o):
        return self + (-lift(o))

    def scale(self, k):
        return LinExpr(self.c * k, {s: v * k for s, v in self.t.items()})

    def subst(self, sym, e):
        if sym not in self.t:
            return self
        k = self.t[sym]
        r = LinExpr(self.c, {s: v for s, v in self.t.items() if s != sym})
        return r + e.scale(k)

    def same(self, o):
        o = lift(o)
        return self.c == o.c and self.t == o.t

    def key(self):
        return (self.c, tuple(sorted(self.t.items())))

    def __repr__(self):
        parts = []
        for s, v in sorted(self.t.items()):
            if v == 1:
                parts.append('+ ' + s)
            elif v == -1:
                parts.append('- ' + s)
            else:
                parts.append(('+ %d*' % v if v > 0 else '- %d*' % -v) + s)
        if self.c or not parts:
            parts.append(('+ %d' % self.c) if self.c >= 0 else '- %d' % -self.c)
        r = ' '.join(parts)
        return r[2:] if r.startswith('+ ') else r


def lift(x):
    return x if isinstance(x, LinExpr) else LinExpr(int(x))


from vlib.pathwalk import Infeasible  # noqa: E402  (one exception type for "this path cannot happen")


class Facts:
    """immutable: every learning step returns a new object"""

    def __init__(self, ge0=(), subs=()):
        self.ge0 = tuple(ge0)  # LinExpr known >= 0
        self.subs = tuple(subs)  # (sym, LinExpr) eliminations, in order

    # ---- normal form
    def norm(self, e):
        e = lift(e)
        for s, r in self.subs:
            e = e.subst(s, r)
        return e

    # ---- proving
    def prove_ge0(self, e):
        e = self.norm(e)
        if e.is_const():
            return e.c >= 0
        # quick: all coefficients non-negative and constant non-negative (symbols are naturals)
        if e.c >= 0 and all(v >= 0 for v in e.t.values()):
            return True
        facts = [f for f in self.ge0 if not f.is_const() and set(f.t) & set(e.t)]
        # also facts that share symbols transitively (one level)
        syms = set(e.t)
        for f in facts:
            syms |= set(f.t)
        facts = [f for f in self.ge0 if not f.is_const() and set(f.t) & syms][:10]
        for lam in itertools.product(range(4), repeat=len(facts)):
            if not any(lam):
                continue
            r = e
            for k, f in zip(lam, facts):
                if k:
                    r = r - f.scale(k)
            if r.c >= 0 and all(v >= 0 for v in r.t.values()):
                return True
        return False

    def prove_eq0(self, e):
        e = self.norm(e)
        if e.is_const():
            return e.c == 0
        return self.prove_ge0(e) and self.prove_ge0(-e)

    def prove_ne0(self, e):
        e = self.norm(e)
        if e.is_const():
            return e.c != 0
        return self.prove_ge0(e - 1) or self.prove_ge0(-e - 1)

    def decide_eq0(self, e):
        """True / False / None"""
        if self.prove_eq0(e):
            return True
        if self.prove_ne0(e):
            return False
        return None

    def contradictory(self):
        """some non-negative combination of the facts is negative for all natural symbol values"""
        facts = [f for f in self.ge0 if not f.is_const()][:10]
        if any(f.is_const() and f.c < 0 for f in self.ge0):
            return True
        for lam in itertools.product(range(3), repeat=len(facts)):
            if not any(lam):
                continue
            r = LinExpr(0)
            for k, f in zip(lam, facts):
                if k:
                    r = r + f.scale(k)
            if r.c < 0 and all(v <= 0 for v in r.t.values()):
                return True
        return False

    # ---- learning
    def learn_ge0(self, e):
        e = self.norm(e)
        if e.is_const():
            if e.c < 0:
                raise Infeasible()
            return self
        if any(f.same(e) for f in self.ge0):
            return self
        n = Facts(self.ge0 + (e,), self.subs)
        if n.prove_ge0(-e - 1):  # the opposite was already known
            raise Infeasible()
        # e >= 0 together with a known -e >= 0 is an equality
        if self.prove_ge0(-e):
            return self.learn_eq0(e)
        return n

    def learn_eq0(self, e):
        e = self.norm(e)
        if e.is_const():
            if e.c != 0:
                raise Infeasible()
            return self
        # solve for a symbol with coefficient +-1 (prefer the lexically last: ghost pre-state symbols sort first)
        cand = [s for s, v in e.t.items() if v in (1, -1)]
        if not cand:
            n = Facts(self.ge0 + (e, -e), self.subs)
            return n
        s = sorted(cand)[-1]
        k = e.t[s]
        rest = LinExpr(e.c, {x: v for x, v in e.t.items() if x != s})
        val = rest.scale(-1) if k == 1 else rest  # s = -rest (k=1)  or  s = rest (k=-1)
        ge0 = []
        for f in self.ge0:
            g = f.subst(s, val)
            if g.is_const():
                if g.c < 0:
                    raise Infeasible()
                continue
            ge0.append(g)
        # the eliminated symbol is a natural number too
        n = Facts(tuple(ge0), self.subs + ((s, val),))
        n = n.learn_ge0(val) if not val.is_const() else n
        if val.is_const() and val.c < 0:
            raise Infeasible()
        if n.contradictory():
            raise Infeasible()
        return n

    def learn_ne0(self, e):
        e = self.norm(e)
        if e.is_const():
            if e.c == 0:
                raise Infeasible()
            return self
        if self.prove_ge0(e):
            return self.learn_ge0(e - 1)
        if self.prove_ge0(-e):
            return self.learn_ge0(-e - 1)
        return self  # sign unknown: the disequality is not representable, nothing learned

    def __repr__(self):
        return 'Facts(ge0=[%s]; subs=[%s])' % ('; '.join(map(repr, self.ge0)),
                                                '; '.join('%s:=%r' % s for s in self.subs))


def from_ast(fn, i, depth=0):
    """LinExpr of an integer expression of function `fn` over symbols named after locals / members (single-assignment
    locals with a pure initialiser are expanded: a named sub-expression is transparent); None if not linear"""
    j = fn.strip(i)
    if j is None or j < 0 or depth > 8:
        return None
    n = fn.nodes[j]
    k = n['k']
    if k in ('CXXStaticCastExpr', 'CStyleCastExpr', 'CXXFunctionalCastExpr') and n.get('ch'):
        return from_ast(fn, n['ch'][0], depth + 1)
    if 'v' in n and isinstance(n['v'], int) and k != 'DeclRefExpr':
        return LinExpr(n['v'])
    if k == 'DeclRefExpr':
        vid = n.get('id')
        if vid in fn.single_defs:
            init = fn.single_defs[vid]
            pure = not any(fn.nodes[d]['k'] in ('CallExpr', 'CXXMemberCallExpr', 'CXXOperatorCallExpr',
                                                 'CXXConstructExpr', 'LambdaExpr') for d in fn.descendants(init))
            if pure:
                r = from_ast(fn, init, depth + 1)
                if r is not None:
                    return r
        if 'v' in n and isinstance(n['v'], int) and vid is None:
            return LinExpr(n['v'])
        return LinExpr.sym(n['dn'].split('::')[-1])
    if k == 'MemberExpr':
        return LinExpr.sym(fn.text(j))
    if k == 'UnaryOperator' and n.get('op') == '-':
        a = from_ast(fn, n['ch'][0], depth + 1)
        return -a if a is not None else None
    if k == 'BinaryOperator' and n.get('op') in ('+', '-'):
        a, b = from_ast(fn, n['ch'][0], depth + 1), from_ast(fn, n['ch'][1], depth + 1)
        if a is None or b is None:
            return None
        return a + b if n['op'] == '+' else a - b
    if k == 'BinaryOperator' and n.get('op') == '*':
        a, b = from_ast(fn, n['ch'][0], depth + 1), from_ast(fn, n['ch'][1], depth + 1)
        if a is not None and b is not None:
            if a.is_const():
                return b.scale(a.c)
            if b.is_const():
                return a.scale(b.c)
        return None
    return None


def difference(fn, i):
    """for a comparison node a <op> b: (op, LinExpr(a - b)) or None"""
    j = fn.strip(i)
    if j is None or j < 0:
        return None
    n = fn.nodes[j]
    if n['k'] != 'BinaryOperator' or n.get('op') not in ('==', '!=', '<', '>', '<=', '>='):
        return None
    a, b = from_ast(fn, n['ch'][0]), from_ast(fn, n['ch'][1])
    if a is None or b is None:
        return None
    return n['op'], a - b
