"""Enumeration of atomic access sites (R-WORD / R-ORDER / R-CASKIND).

A site = one call of a std::atomic member operation (or a fence) inside a YACLib function, with
  word      qualified name of the member/variable operated on (template arguments stripped)
  op        load | store | exchange | cas_strong | cas_weak | fetch_add | fetch_sub | fetch_or | … | fence
  orders    resolved memory orders (success[, failure]); default arguments and orders that arrive through a
            parameter are resolved (parameter orders: from the call sites, see resolve_param_orders)
  value     class of the value written / desired: ('const', n) | ('addr', param name) | ('param', name) | ('other', text)
  expected  for CAS: class of the expected value when known
  in_loop   the site lies on a CFG cycle
"""
ORDER_NAME = {0: 'relaxed', 1: 'consume', 2: 'acquire', 3: 'release', 4: 'acq_rel', 5: 'seq_cst'}
ATOMIC_RECS = ('std::atomic', 'std::__atomic_base', 'std::atomic_flag', 'std::__atomic_flag_base', 'std::__atomic_float')
OPS = {'load': 'load', 'store': 'store', 'exchange': 'exchange', 'compare_exchange_strong': 'cas_strong',
       'compare_exchange_weak': 'cas_weak', 'fetch_add': 'fetch_add', 'fetch_sub': 'fetch_sub', 'fetch_and': 'fetch_and',
       'fetch_or': 'fetch_or', 'fetch_xor': 'fetch_xor', 'test_and_set': 'test_and_set', 'clear': 'clear',
       'wait': 'wait', 'notify_one': 'notify_one', 'notify_all': 'notify_all',
       'operator++': 'fetch_add', 'operator--': 'fetch_sub', 'operator+=': 'fetch_add', 'operator-=': 'fetch_sub',
       'operator=': 'store'}


def includes_acquire(o):
    return o in (1, 2, 4, 5)


def includes_release(o):
    return o in (3, 4, 5)


def at_least(o, minimum):
    """memory-order lattice: relaxed < {acquire, release} < acq_rel < seq_cst"""
    if minimum == 'relaxed':
        return True
    if minimum == 'acquire':
        return includes_acquire(o)
    if minimum == 'release':
        return includes_release(o)
    if minimum == 'acq_rel':
        return o in (4, 5)
    if minimum == 'seq_cst':
        return o == 5
    raise ValueError(minimum)


def word_of(fn, i):
    n = fn.sn(i)
    while n is not None and n['k'] in ('ImplicitCastExpr', 'CXXStaticCastExpr', 'CXXConstCastExpr', 'UnaryOperator',
                                       'ParenExpr'):
        n = fn.sn(n['ch'][0])
    if n is None:
        return '?'
    if n['k'] == 'MemberExpr':
        return n['dn']
    if n['k'] == 'DeclRefExpr':
        return n['dn']
    if n['k'] == 'CXXThisExpr':
        return 'this'
    return '?' + n['k']


def value_class(fn, i, depth=0):
    n = fn.sn(i)
    if n is None:
        return ('other', '?')
    if 'v' in n:
        return ('const', n['v'])
    # reinterpret_cast<uintptr_t>(&x) / &x / static_cast<Node*>(&x)
    m = n
    while m is not None and m['k'] in ('CXXReinterpretCastExpr', 'CXXStaticCastExpr', 'ImplicitCastExpr',
                                       'CStyleCastExpr', 'ParenExpr', 'CXXFunctionalCastExpr'):
        m = fn.sn(m['ch'][0])
    if m is not None and m['k'] == 'UnaryOperator' and m['op'] == '&':
        t = fn.sn(m['ch'][0])
        if t is not None and t['k'] == 'DeclRefExpr' and 'id' in t:
            return ('addr', fn.locals[t['id']]['n'])
        return ('addr', fn.text(m['ch'][0]))
    if m is not None and m['k'] == 'DeclRefExpr' and 'id' in m:
        if m['id'] in fn.single_defs and depth < 4:
            # a named value: const auto self = reinterpret_cast<uintptr_t>(&curr)
            v = value_class(fn, fn.single_defs[m['id']], depth + 1)
            if v[0] in ('addr', 'const'):
                return v
        return ('param' if fn.locals[m['id']]['p'] else 'local', fn.locals[m['id']]['n'])
    if m is not None and m['k'] == 'CXXThisExpr':
        return ('addr', 'this')
    if m is not None and 'cn' in m:
        return ('call', m['cn'])
    return ('other', fn.text(i))


def order_of(fn, i):
    """resolved constant order, or ('param', local id) when the order is a parameter of the function"""
    n = fn.sn(i)
    if n is None:
        return None
    if 'v' in n and n['k'] != 'DeclRefExpr':
        return n['v']
    if n['k'] == 'DeclRefExpr':
        if 'id' in n and fn.locals[n['id']]['p']:
            return ('param', n['id'])
        if 'v' in n:
            return n['v']
    raw = fn.nodes[i]
    if 'v' in raw:
        return raw['v']
    return None


def sites(fb, want_fn=None):
    out = []
    for f in fb.fn.values():
        if want_fn is not None and not want_fn(f):
            continue
        loops = None
        for n in f.own_nodes():
            k = n['k']
            if k not in ('CXXMemberCallExpr', 'CXXOperatorCallExpr', 'CallExpr'):
                continue
            cn = n.get('cn', '')
            if k == 'CallExpr':
                if cn in ('std::atomic_thread_fence', 'std::atomic_signal_fence'):
                    out.append(dict(fn=f, node=n, word='(fence)', op='fence', orders=[order_of(f, n['args'][0])],
                                    value=None, expected=None, in_loop=False))
                continue
            cr = n.get('cr', '')
            base = cr.split('<')[0]
            if base not in ATOMIC_RECS:
                continue
            name = cn.split('::')[-1]
            op = OPS.get(name)
            if op is None:
                if name.startswith('operator ') or name in ('is_lock_free',):
                    op = 'load' if name.startswith('operator ') else None
                if op is None:
                    continue
            if k == 'CXXOperatorCallExpr':
                obj = n['args'][0]
                args = n['args'][1:]
            else:
                obj = n['obj']
                args = n['args']
            word = word_of(f, obj)
            orders = []
            value = expected = None
            if op in ('load', 'test', 'wait'):
                orders = [order_of(f, a) for a in args[-1:]] if args and k != 'CXXOperatorCallExpr' else [5]
            elif op in ('store', 'exchange', 'fetch_add', 'fetch_sub', 'fetch_and', 'fetch_or', 'fetch_xor'):
                if k == 'CXXOperatorCallExpr':
                    value = value_class(f, args[0]) if args and name not in ('operator++', 'operator--') else \
                        ('const', 1)
                    orders = [5]
                else:
                    value = value_class(f, args[0])
                    orders = [order_of(f, args[1])] if len(args) > 1 else [5]
            elif op in ('cas_strong', 'cas_weak'):
                expected = value_class(f, args[0])
                value = value_class(f, args[1])
                if len(args) == 4:
                    orders = [order_of(f, args[2]), order_of(f, args[3])]
                elif len(args) == 3:
                    o = order_of(f, args[2])
                    # single-order form: failure order is the success order with the release part dropped
                    fo = {4: 2, 3: 0}.get(o, o) if isinstance(o, int) else o
                    orders = [o, fo]
                else:
                    orders = [5, 5]
            elif op in ('test_and_set', 'clear'):
                orders = [order_of(f, args[0])] if args else [5]
            in_loop = False
            if f.cfg is not None:
                if loops is None:
                    loops = f.cfg.loops()
                pos = f.cfg.pos_of(n['i'])
                in_loop = bool(pos and pos[0] in loops)
            out.append(dict(fn=f, node=n, word=word, op=op, orders=orders, value=value, expected=expected,
                            in_loop=in_loop))
    return out


def fmt_orders(orders):
    return '/'.join(ORDER_NAME.get(o, str(o)) if isinstance(o, int) else 'param' if o else '?' for o in orders)
