"""CFG utilities over the clang CFG emitted by yaclint.

Elements are either node indices (int) or dicts (implicit destructors / ctor initializers).
A *position* is (block id, element index).  Edges of a two-way terminator: succ[0] is the
true edge, succ[1] the false edge (clang convention); pruned edges are None.
"""


class Block:
    __slots__ = ('id', 'el', 'succ', 'pred', 'term', 'cond', 'tk', 'noret')

    def __init__(self, raw):
        self.id = raw['id']
        self.el = raw['el']
        self.succ = raw['succ']
        self.pred = []
        self.term = raw.get('term')
        self.cond = raw.get('cond')
        self.tk = raw.get('tk')
        self.noret = bool(raw.get('noret'))


class CFG:
    def __init__(self, fn, raw):
        self.fn = fn
        self.entry = raw['entry']
        self.exit = raw['exit']
        self.blocks = {b['id']: Block(b) for b in raw['blocks']}
        for b in self.blocks.values():
            for s in b.succ:
                if s is not None:
                    self.blocks[s].pred.append(b.id)
        self._reach = None
        self._dom = None
        self._pdom = None
        self._pos = None

    # ---- basic
    def reachable(self):
        if self._reach is None:
            seen = {self.entry}
            st = [self.entry]
            while st:
                b = st.pop()
                for s in self.blocks[b].succ:
                    if s is not None and s not in seen:
                        seen.add(s)
                        st.append(s)
            self._reach = seen
        return self._reach

    def succs(self, b):
        return [s for s in self.blocks[b].succ if s is not None]

    def econd(self, b):
        """effective branch condition of block b: for the block that evaluates the right operand of
        `A && B` / `A || B` under an if/while/… terminator, clang reports the whole logical expression as
        the condition; on that block its truth value equals the right operand's."""
        blk = self.blocks[b]
        c = blk.cond
        if c is None:
            return None
        fn = self.fn
        while True:
            j = fn.strip(c)
            n = fn.nodes[j]
            if n['k'] == 'BinaryOperator' and n.get('op') in ('&&', '||') and blk.term != j:
                c = n['ch'][1]
                continue
            return j

    def positions(self):
        """{node index: (block, idx)} for statement elements of reachable blocks"""
        if self._pos is None:
            pos = {}
            for b in self.reachable():
                for i, e in enumerate(self.blocks[b].el):
                    if isinstance(e, int):
                        pos.setdefault(e, (b, i))
            self._pos = pos
        return self._pos

    def pos_of(self, node_index):
        return self.positions().get(node_index)

    def elements(self):
        """iterate (block, idx, element) over reachable blocks"""
        for b in sorted(self.reachable(), reverse=True):
            for i, e in enumerate(self.blocks[b].el):
                yield b, i, e

    # ---- dominance
    def _dominators(self, entry, succ_of, nodes):
        dom = {n: set(nodes) for n in nodes}
        dom[entry] = {entry}
        pred_of = {n: [] for n in nodes}
        for n in nodes:
            for s in succ_of(n):
                if s in pred_of:
                    pred_of[s].append(n)
        changed = True
        order = list(nodes)
        while changed:
            changed = False
            for n in order:
                if n == entry:
                    continue
                ps = [dom[p] for p in pred_of[n]]
                new = set.intersection(*ps) if ps else set()
                new = new | {n}
                if new != dom[n]:
                    dom[n] = new
                    changed = True
        return dom

    def dom(self):
        if self._dom is None:
            nodes = self.reachable()
            self._dom = self._dominators(self.entry, lambda n: [s for s in self.succs(n) if s in nodes], nodes)
        return self._dom

    def pdom(self):
        if self._pdom is None:
            nodes = {b for b in self.reachable()}
            # blocks that can reach exit
            self._pdom = self._dominators(self.exit, lambda n: [p for p in self.blocks[n].pred if p in nodes], nodes)
        return self._pdom

    def dominates(self, pa, pb):
        """position pa dominates position pb"""
        (ba, ia), (bb, ib) = pa, pb
        if ba == bb:
            return ia <= ib
        return ba in self.dom().get(bb, ())

    # ---- path queries
    def exists_path(self, start, is_target, is_blocker=None, include_start=False):
        """Is there a CFG path from position `start` (exclusive unless include_start) to an element
        satisfying is_target(block, idx, element) that passes no element satisfying is_blocker first?
        Returns the witness list of positions or None."""
        b0, i0 = start
        first = i0 if include_start else i0 + 1
        # scan the remainder of the start block
        res = self._scan(b0, first, is_target, is_blocker)
        if res == 'blocked':
            return None
        if res is not None:
            return [start, res]
        seen = set()
        st = [(s, [start]) for s in self.succs(b0)]
        while st:
            b, path = st.pop()
            if b in seen:
                continue
            seen.add(b)
            res = self._scan(b, 0, is_target, is_blocker)
            if res == 'blocked':
                continue
            if res is not None:
                return path + [res]
            for s in self.succs(b):
                if s not in seen:
                    st.append((s, path + [(b, 0)]))
        return None

    def _scan(self, b, first, is_target, is_blocker):
        el = self.blocks[b].el
        for i in range(first, len(el)):
            e = el[i]
            if is_blocker is not None and is_blocker(b, i, e):
                return 'blocked'
            if is_target(b, i, e):
                return (b, i)
        return None

    def reaches_exit_without(self, start, is_blocker, include_start=False):
        """path from start to the function exit that passes no blocker element"""
        b0, i0 = start
        first = i0 if include_start else i0 + 1
        if self._scan(b0, first, lambda *_: False, is_blocker) == 'blocked':
            return None
        seen = set()
        st = [(s, [start]) for s in self.succs(b0)]
        while st:
            b, path = st.pop()
            if b in seen:
                continue
            seen.add(b)
            if b == self.exit:
                return path + [(b, 0)]
            if self._scan(b, 0, lambda *_: False, is_blocker) == 'blocked':
                continue
            for s in self.succs(b):
                if s not in seen:
                    st.append((s, path + [(b, 0)]))
        return None

    def entry_reaches_without(self, is_target, is_blocker):
        """path from function entry to a target passing no blocker"""
        return self.exists_path((self.entry, -1), is_target, is_blocker)

    def edge_blocks(self, b):
        """(true successor, false successor) of a two-way conditional block, else None"""
        blk = self.blocks[b]
        if blk.cond is not None and len(blk.succ) == 2:
            return blk.succ[0], blk.succ[1]
        return None

    def loops(self):
        """set of blocks that lie on a cycle"""
        # Tarjan SCC
        index = {}
        low = {}
        onst = set()
        st = []
        res = set()
        counter = [0]
        import sys
        sys.setrecursionlimit(10000)

        def visit(v):
            index[v] = low[v] = counter[0]
            counter[0] += 1
            st.append(v)
            onst.add(v)
            for w in self.succs(v):
                if w not in index:
                    visit(w)
                    low[v] = min(low[v], low[w])
                elif w in onst:
                    low[v] = min(low[v], index[w])
            if low[v] == index[v]:
                comp = []
                while True:
                    w = st.pop()
                    onst.discard(w)
                    comp.append(w)
                    if w == v:
                        break
                if len(comp) > 1 or v in self.succs(v):
                    res.update(comp)

        for b in self.reachable():
            if b not in index:
                visit(b)
        return res

    def describe_path(self, path):
        fn = self.fn
        out = []
        for (b, i) in path:
            el = self.blocks[b].el
            if 0 <= i < len(el) and isinstance(el[i], int):
                out.append('B%d:%s' % (b, fn.loc(el[i])))
            else:
                out.append('B%d' % b)
        return ' -> '.join(out)
