"""Bounded path enumeration over the clang CFG with a small abstract evaluator and optional inlining.

Used for small functions (lock methods, executors, event code) where the rule is a property of every
CFG path.  Loops are unrolled `loop_bound` times (a block may be entered at most loop_bound+1 times on
one path); branches on constants, on boolean locals/parameters with a known value are followed on the
consistent edge only (partial evaluation), everything else is explored both ways.

Values: ('c', int) constant | ('u',) unknown | ('n', node index, depth) result of a call, kept symbolic.
"""
import copy

UNKNOWN = ('u',)


class State:
    def __init__(self):
        self.locals = {}  # (depth, local id) -> value
        self.events = []  # free-form event list, appended by the rule
        self.depth = 0
        self.data = {}

    def copy(self):
        s = State()
        s.locals = dict(self.locals)
        s.events = list(self.events)
        s.depth = self.depth
        s.data = copy.copy(self.data)
        return s


class TooManyPaths(Exception):
    pass


class Infeasible(Exception):
    """raised by a hook (on_edge, on_node, split ...) when the facts of the current path are contradictory: the
    path is dropped, its siblings are not"""


class Walker:
    loop_bound = 1
    max_paths = 50000
    track_blocks = False  # record the visited blocks of the outermost function in st.data['blocks']

    def __init__(self, fb):
        self.fb = fb
        self.npaths = 0

    # ------------------------------------------------------------------ hooks (override)
    def inline(self, fn, node, st):
        """return the callee Function to inline at this call node, or None"""
        return None

    def on_node(self, fn, node, st):
        pass

    def on_inline(self, fn, node, callee, st):
        pass

    def on_dtor(self, fn, elem, st):
        pass

    def on_edge(self, fn, cond_i, taken, st):
        pass

    def call_value(self, fn, node, st):
        return UNKNOWN

    def member_value(self, fn, node, st):
        return None

    def ev_extra(self, fn, node, st):
        return None

    def split(self, fn, node, st):
        """case split before an element: return None, or a list of alternative states (copies of st that each know
        more); the element is then evaluated once under every alternative"""
        return None

    # ------------------------------------------------------------------ evaluator
    def ev(self, fn, i, st):
        i = fn.strip(i)
        if i is None or i < 0:
            return UNKNOWN
        n = fn.nodes[i]
        if 'v' in n and n['k'] != 'DeclRefExpr':
            return ('c', n['v'])
        k = n['k']
        if k == 'DeclRefExpr':
            if 'id' in n:
                v = st.locals.get((st.depth, n['id']))
                if v is not None:
                    return v
            if 'v' in n:
                return ('c', n['v'])
            return UNKNOWN
        if k in ('ImplicitCastExpr', 'CXXStaticCastExpr', 'CStyleCastExpr', 'CXXFunctionalCastExpr'):
            return self.ev(fn, n['ch'][0], st)
        if k == 'MemberExpr':
            v = self.member_value(fn, n, st)
            return v if v is not None else UNKNOWN
        if k == 'UnaryOperator' and n['op'] == '!':
            v = self.ev(fn, n['ch'][0], st)
            return ('c', 0 if v[1] else 1) if v[0] == 'c' else UNKNOWN
        if k == 'BinaryOperator' and n['op'] in ('&&', '||'):
            sc = st.data.get(('sc', st.depth, i))
            if sc is not None:
                return ('c', sc)
            # not short-circuited on this path: the value is the right operand's
            return self.ev(fn, n['ch'][1], st)
        if k == 'BinaryOperator' and n['op'] in ('==', '!='):
            a, b = self.ev(fn, n['ch'][0], st), self.ev(fn, n['ch'][1], st)
            if a[0] == 'c' and b[0] == 'c':
                r = (a[1] == b[1])
                return ('c', int(r if n['op'] == '==' else not r))
            return UNKNOWN
        v = self.ev_extra(fn, n, st)
        if v is not None:
            return v
        if k in ('CallExpr', 'CXXMemberCallExpr', 'CXXOperatorCallExpr'):
            v = st.data.get(('ret', st.depth, i))
            return v if v is not None else UNKNOWN
        return UNKNOWN

    def assign_effects(self, fn, n, st):
        """keep the local-value map in sync with assignments / declarations"""
        k = n['k']
        if k == 'DeclStmt':
            for v in n['vars']:
                if 'init' in v and v['id'] >= 0:
                    st.locals[(st.depth, v['id'])] = self.ev(fn, v['init'], st)
        elif k in ('BinaryOperator', 'CompoundAssignOperator') and n['op'].endswith('=') and \
                n['op'] not in ('==', '!=', '<=', '>='):
            lhs = fn.sn(n['ch'][0])
            if lhs is not None and lhs['k'] == 'DeclRefExpr' and 'id' in lhs:
                st.locals[(st.depth, lhs['id'])] = self.ev(fn, n['ch'][1], st) if n['op'] == '=' else UNKNOWN
        elif k == 'UnaryOperator' and n['op'] in ('++', '--'):
            lhs = fn.sn(n['ch'][0])
            if lhs is not None and lhs['k'] == 'DeclRefExpr' and 'id' in lhs:
                st.locals[(st.depth, lhs['id'])] = UNKNOWN

    # ------------------------------------------------------------------ the walk
    def run(self, fn, st=None, args=None):
        """enumerate paths of fn; returns list of (state, return value)"""
        st = st or State()
        cfg = fn.cfg
        if cfg is None:
            raise TooManyPaths('no CFG for ' + fn.full)
        if args:
            for pid, v in zip(fn.params, args):
                st.locals[(st.depth, pid)] = v
        out = []
        self._walk(fn, cfg, cfg.entry, 0, st, {}, out)
        return out

    def _walk(self, fn, cfg, b, start, st, visits, out):
        try:
            self._walk0(fn, cfg, b, start, st, visits, out)
        except Infeasible:
            return

    def _walk0(self, fn, cfg, b, start, st, visits, out):
        while True:
            blk = cfg.blocks[b]
            if start == 0:
                c = visits.get(b, 0)
                if c > self.loop_bound:
                    return  # loop bound reached: this unrolling is cut (other exits are explored)
                visits = dict(visits)
                visits[b] = c + 1
                if self.track_blocks and st.depth == 0:
                    st.data = copy.copy(st.data)
                    st.data['blocks'] = st.data.get('blocks', frozenset()) | {b}
            el = blk.el
            i = start
            while i < len(el):
                e = el[i]
                i += 1
                if isinstance(e, int):
                    n = fn.nodes[e]
                    if n['k'] == 'ReturnStmt':
                        ch = n.get('ch', [])
                        rv = self.ev(fn, ch[0], st) if ch and ch[0] >= 0 else None
                        self.on_node(fn, n, st)
                        # run the destructors that follow the return in this block
                        for e2 in el[i:]:
                            if not isinstance(e2, int):
                                self.on_dtor(fn, e2, st)
                        self._finish(st, rv, out)
                        return
                    alts = self.split(fn, n, st)
                    if alts is not None:
                        if not alts:
                            return  # no consistent alternative: the path is infeasible
                        for a in alts[1:]:
                            self._walk(fn, cfg, b, i - 1, a, visits, out)
                        st = alts[0]
                    g = self.inline(fn, n, st) if 'ck' in n else None
                    if g is not None:
                        self.on_inline(fn, n, g, st)
                        argv = [self.ev(fn, a, st) for a in n.get('args', [])]
                        sub = st.copy()
                        sub.depth = st.depth + 1
                        res = self.run(g, sub, argv)
                        if not res:
                            return
                        for (rs, rv) in res[1:]:
                            rs2 = rs
                            rs2.depth = st.depth
                            rs2.data = copy.copy(rs2.data)
                            rs2.data[('ret', st.depth, e)] = rv if rv is not None else UNKNOWN
                            self._walk(fn, cfg, b, i, rs2, visits, out)
                        rs, rv = res[0]
                        rs.depth = st.depth
                        rs.data[('ret', st.depth, e)] = rv if rv is not None else UNKNOWN
                        st = rs
                        continue
                    if 'ck' in n or n['k'] in ('CallExpr', 'CXXMemberCallExpr', 'CXXOperatorCallExpr'):
                        st.data[('ret', st.depth, e)] = self.call_value(fn, n, st)
                    self.on_node(fn, n, st)
                    self.assign_effects(fn, n, st)
                else:
                    self.on_dtor(fn, e, st)
            succ = blk.succ
            if b == cfg.exit or not [s for s in succ if s is not None]:
                self._finish(st, None, out)
                return
            if blk.cond is not None and len(succ) == 2:
                ci = blk.cond
                v = self.ev(fn, ci, st)
                lop = None
                if blk.term is not None:
                    tn = fn.nodes[blk.term]
                    if tn['k'] == 'BinaryOperator' and tn.get('op') in ('&&', '||') and fn.strip(ci) != blk.term:
                        lop = (blk.term, tn['op'])
                ci = self.effective(fn, ci, st)
                taken = []
                if v[0] == 'c':
                    taken = [0 if v[1] else 1]
                else:
                    taken = [0, 1]
                nexts = [(t, succ[t]) for t in taken if succ[t] is not None]
                if not nexts:
                    return
                for t, s in nexts[1:]:
                    st2 = st.copy()
                    try:
                        self._take(fn, ci, t == 0, st2, lop)
                    except Infeasible:
                        continue
                    self._walk(fn, cfg, s, 0, st2, visits, out)
                t, s = nexts[0]
                try:
                    self._take(fn, ci, t == 0, st, lop)
                except Infeasible:
                    return
                b, start = s, 0
                continue
            live = [s for s in succ if s is not None]
            for s in live[1:]:
                self._walk(fn, cfg, s, 0, st.copy(), visits, out)
            b, start = live[0], 0

    def effective(self, fn, ci, st):
        """the sub-expression whose truth value the branch really tests on this path (descends into the right
        operand of && / || that were not short-circuited); None if the outcome was already decided"""
        while True:
            j = fn.strip(ci)
            n = fn.nodes[j]
            if n['k'] == 'BinaryOperator' and n.get('op') in ('&&', '||'):
                if st.data.get(('sc', st.depth, j)) is not None:
                    return None
                ci = n['ch'][1]
                continue
            return j

    def _take(self, fn, ci, truth, st, lop):
        if lop is not None:
            node, op = lop
            st.data = copy.copy(st.data)
            if (op == '||' and truth) or (op == '&&' and not truth):
                st.data[('sc', st.depth, node)] = 1 if op == '||' else 0
            else:
                st.data.pop(('sc', st.depth, node), None)
        if ci is not None:
            self._edge_fact(fn, ci, truth, st)
            self.on_edge(fn, ci, truth, st)

    def _edge_fact(self, fn, ci, truth, st):
        """record what a taken edge tells about a boolean local"""
        i = fn.strip(ci)
        neg = False
        while True:
            n = fn.nodes[i]
            if n['k'] == 'UnaryOperator' and n['op'] == '!':
                neg = not neg
                i = fn.strip(n['ch'][0])
                continue
            if n['k'] == 'ImplicitCastExpr':
                i = fn.strip(n['ch'][0])
                continue
            break
        if n['k'] == 'DeclRefExpr' and 'id' in n and n.get('t') == 'bool':
            st.locals[(st.depth, n['id'])] = ('c', int(truth != neg))

    def _finish(self, st, rv, out):
        self.npaths += 1
        if self.npaths > self.max_paths:
            raise TooManyPaths('more than %d paths' % self.max_paths)
        out.append((st, rv))
