"""Bounded path enumeration over the clang CFG with a small abstract evaluator and optional inlining.

Used for small functions (lock methods, executors, event code) where the rule is a property of every
CFG path.  Loops are unrolled `loop_bound` times (a block may be entered at most loop_bound+1 times on
one path); branches on constants, on boolean locals/parameters with a known value are followed on the
consistent edge only (partial evaluation), everything else is explored both ways.

Values: ('c', int) constant | ('u',) unknown | ('n', node index, depth) result of a call, kept symbolic.
"""
import copy

UNKNOWN = ('u',)


class State:
    def __init__(self):
        self.locals = {}  # (depth, local id) -> value
        self.events = []  # free-form event list, appended by the rule
        self.depth = 0
        self.data = {}

    def copy(self):
        s = State()
        s.locals = dict(self.locals)
        s.events = list(self.events)
        s.depth = self.depth
        s.data = copy.copy(self.data)
        return s


class TooManyPaths(Exception):
    pass


class Infeasible(Exception):
    """raised by a hook (on_edge, on_node, split ...) when the facts of the current path are contradictory: the
    path is dropped, its siblings are not"""


class Walker:
    loop_bound = 1
    max_paths = 50000
    track_blocks = False  # record the visited blocks of the outermost function in st.data['blocks']

    def __init__(self, fb):
        self.fb = fb
        self.npaths = 0

    # ------------------------------------------------------------------ hooks (override)
    inline_helpers = False  # opt-in: inline non-virtual member functions of the same class (extracted helpers)
    no_inline = ()  # names the rule treats as events of their own

    def inline(self, fn, node, st):
        """return the callee Function to inline at this call node, or None"""
        if not self.inline_helpers:
            return None
        g = self.fb.fn.get(node.get('ck'))
        if g is None or g.cfg is None or st.depth >= 3 or g.n in self.no_inline:
            return None
        if g.cls and g.cls == fn.cls and 'virtual' not in g.flags and 'ctor' not in g.flags and \
                'dtor' not in g.flags:
            return g
        return None

    def on_node(self, fn, node, st):
        pass

    def on_inline(self, fn, node, callee, st):
        pass

    def on_dtor(self, fn, elem, st):
        pass

    def on_edge(self, fn, cond_i, taken, st):
        pass

    def call_value(self, fn, node, st):
        return UNKNOWN

    def member_value(self, fn, node, st):
        return None

    def ev_extra(self, fn, node, st):
        return None

    def split(self, fn, node, st):
        """case split before an element: return None, or a list of alternative states (copies of st that each know
        more); the element is then evaluated once under every alternative"""
        return None

    # ------------------------------------------------------------------ evaluator
    def ev(self, fn, i, st):
        i = fn.strip(i)
        if i is None or i < 0:
            return UNKNOWN
        n = fn.nodes[i]
        if 'v' in n and n['k'] != 'DeclRefExpr':
            return ('c', n['v'])
        k = n['k']
        if k == 'DeclRefExpr':
            if 'id' in n:
                v = st.locals.get((st.depth, n['id']))
                if v is not None:
                    return v
            if 'v' in n:
                return ('c', n['v'])
            return UNKNOWN
        if k in ('ImplicitCastExpr', 'CXXStaticCastExpr', 'CStyleCastExpr', 'CXXFunctionalCastExpr'):
            return self.ev(fn, n['ch'][0], st)
        if k == 'MemberExpr':
            v = self.member_value(fn, n, st)
            return v if v is not None else UNKNOWN
        if k == 'UnaryOperator' and n['op'] == '!':
            v = self.ev(fn, n['ch'][0], st)
            return ('c', 0 if v[1] else 1) if v[0] == 'c' else UNKNOWN
        if k == 'BinaryOperator' and n['op'] in ('&&', '||'):
            sc = st.data.get(('sc', st.depth, i))
            if sc is not None:
                return ('c', sc)
            # not short-circuited on this path: the value is the right operand's
            return self.ev(fn, n['ch'][1], st)
        if k == 'BinaryOperator' and n['op'] in ('==', '!='):
            a, b = self.ev(fn, n['ch'][0], st), self.ev(fn, n['ch'][1], st)
            if a[0] == 'c' and b[0] == 'c':
                r = (a[1] == b[1])
                return ('c', int(r if n['op'] == '==' else not r))
            return UNKNOWN
        v = self.ev_extra(fn, n, st)
        if v is not None:
            return v
        if k in ('CallExpr', 'CXXMemberCallExpr', 'CXXOperatorCallExpr'):
            v = st.data.get(('ret', st.depth, i))
            return v if v is not None else UNKNOWN
        return UNKNOWN

    def assign_effects(self, fn, n, st):
        """keep the local-value map in sync with assignments / declarations"""
        k = n['k']
        if k == 'DeclStmt':
            for v in n['vars']:
                if 'init' in v and v['id'] >= 0:
                    val = self.ev(fn, v['init'], st)
                    st.locals[(st.depth, v['id'])] = val
                    if val[0] != 'c':
                        self._note_cond_def(fn, v['id'], v['init'], st)
        elif k in ('BinaryOperator', 'CompoundAssignOperator') and n['op'].endswith('=') and \
                n['op'] not in ('==', '!=', '<=', '>='):
            lhs = fn.sn(n['ch'][0])
            if lhs is not None and lhs['k'] == 'DeclRefExpr' and 'id' in lhs:
                st.locals[(st.depth, lhs['id'])] = self.ev(fn, n['ch'][1], st) if n['op'] == '=' else UNKNOWN
                st.data.pop(('cond', st.depth, lhs['id']), None)
                if n['op'] == '=' and st.locals[(st.depth, lhs['id'])][0] != 'c':
                    self._note_cond_def(fn, lhs['id'], n['ch'][1], st)
        elif k == 'UnaryOperator' and n['op'] in ('++', '--'):
            lhs = fn.sn(n['ch'][0])
            if lhs is not None and lhs['k'] == 'DeclRefExpr' and 'id' in lhs:
                st.locals[(st.depth, lhs['id'])] = UNKNOWN

    def _note_cond_def(self, fn, vid, init, st):
        """a local that holds the (unknown) value of a condition: a later branch on the local is a branch on the
        condition (`const bool last = x.SubEqual(1); if (last)`, `auto old = w.exchange(1); if (old != 0)` is
        handled by the rules through the value; here: booleans and anything whose defining expression is a
        comparison, a logical operator, a negation or a call returning bool)"""
        j = fn.strip(init)
        if j is None or j < 0:
            return
        n = fn.nodes[j]
        try:
            t = fn.locals[vid].get('t', '')
        except (IndexError, KeyError, TypeError, AttributeError):
            t = ''
        isbool = n.get('t') == 'bool' or t.replace('const ', '') == 'bool'
        if not isbool:
            return
        st.data = copy.copy(st.data)
        # a bool initialised from an inlined helper whose return value was a condition: keep that link
        rc = st.data.get(('retcond', st.depth, j))
        st.data[('cond', st.depth, vid)] = rc if rc is not None else (fn, j, st.depth)

    def _resolve_cond(self, fn, ci, st):
        """follow a branch condition through named bool locals and inlined helper results to the expression that
        was really tested: returns (fn, node, depth, negated) or None"""
        neg = False
        depth = st.depth
        for _ in range(8):
            j = fn.strip(ci)
            if j is None or j < 0:
                return None
            n = fn.nodes[j]
            if n['k'] == 'UnaryOperator' and n.get('op') == '!':
                neg = not neg
                ci = n['ch'][0]
                continue
            if n['k'] in ('ImplicitCastExpr', 'CXXStaticCastExpr', 'CXXFunctionalCastExpr') and n.get('ch'):
                ci = n['ch'][0]
                continue
            link = None
            if n['k'] == 'DeclRefExpr' and 'id' in n:
                link = st.data.get(('cond', depth, n['id']))
            elif n['k'] in ('CallExpr', 'CXXMemberCallExpr', 'CXXOperatorCallExpr'):
                link = st.data.get(('retcond', depth, j))
            if link is None:
                return None
            fn, ci, depth = link
            # the link target may itself be negated / another local: keep resolving, then report the final target
            k = fn.strip(ci)
            m = fn.nodes[k]
            more = (m['k'] == 'UnaryOperator' and m.get('op') == '!') or \
                (m['k'] == 'DeclRefExpr' and 'id' in m and st.data.get(('cond', depth, m['id'])) is not None) or \
                (m['k'] in ('CallExpr', 'CXXMemberCallExpr', 'CXXOperatorCallExpr') and
                 st.data.get(('retcond', depth, k)) is not None)
            if not more:
                return fn, k, depth, neg
            # continue resolving inside the target function/depth
            sub = self._resolve_cond_at(fn, ci, depth, st)
            if sub is None:
                return fn, k, depth, neg
            f2, k2, d2, n2 = sub
            return f2, k2, d2, neg != n2
        return None

    def _resolve_cond_at(self, fn, ci, depth, st):
        old = st.depth
        st.depth = depth
        try:
            r = self._resolve_cond(fn, ci, st)
        finally:
            st.depth = old
        if r is not None:
            return r
        # plain negations only
        neg = False
        j = fn.strip(ci)
        while j is not None and j >= 0 and fn.nodes[j]['k'] == 'UnaryOperator' and fn.nodes[j].get('op') == '!':
            neg = not neg
            j = fn.strip(fn.nodes[j]['ch'][0])
        return (fn, j, depth, neg) if neg else None

    # ------------------------------------------------------------------ the walk
    def run(self, fn, st=None, args=None):
        """enumerate paths of fn; returns list of (state, return value)"""
        st = st or State()
        cfg = fn.cfg
        if cfg is None:
            raise TooManyPaths('no CFG for ' + fn.full)
        if args:
            for pid, v in zip(fn.params, args):
                st.locals[(st.depth, pid)] = v
        out = []
        self._walk(fn, cfg, cfg.entry, 0, st, {}, out)
        return out

    def _walk(self, fn, cfg, b, start, st, visits, out):
        try:
            self._walk0(fn, cfg, b, start, st, visits, out)
        except Infeasible:
            return

    def _walk0(self, fn, cfg, b, start, st, visits, out):
        while True:
            blk = cfg.blocks[b]
            if start == 0:
                c = visits.get(b, 0)
                if c > self.loop_bound:
                    return  # loop bound reached: this unrolling is cut (other exits are explored)
                visits = dict(visits)
                visits[b] = c + 1
                if self.track_blocks and st.depth == 0:
                    st.data = copy.copy(st.data)
                    st.data['blocks'] = st.data.get('blocks', frozenset()) | {b}
            el = blk.el
            i = start
            while i < len(el):
                e = el[i]
                i += 1
                if isinstance(e, int):
                    n = fn.nodes[e]
                    if n['k'] == 'ReturnStmt':
                        ch = n.get('ch', [])
                        rv = self.ev(fn, ch[0], st) if ch and ch[0] >= 0 else None
                        if rv is not None and rv[0] != 'c' and st.depth > 0:
                            # remember which condition the (unknown) boolean return value stands for
                            eff = self.effective(fn, ch[0], st)
                            if eff is not None and fn.nodes[eff].get('t') == 'bool':
                                st.data = copy.copy(st.data)
                                sub = self._resolve_cond_at(fn, eff, st.depth, st)
                                st.data['retcond-pending'] = (sub[0], sub[1], sub[2]) if sub is not None and \
                                    not sub[3] else (fn, eff, st.depth)
                        self.on_node(fn, n, st)
                        # run the destructors that follow the return in this block
                        for e2 in el[i:]:
                            if not isinstance(e2, int):
                                self.on_dtor(fn, e2, st)
                        self._finish(st, rv, out)
                        return
                    alts = self.split(fn, n, st)
                    if alts is not None:
                        if not alts:
                            return  # no consistent alternative: the path is infeasible
                        for a in alts[1:]:
                            self._walk(fn, cfg, b, i - 1, a, visits, out)
                        st = alts[0]
                    g = self.inline(fn, n, st) if 'ck' in n else None
                    if g is not None:
                        self.on_inline(fn, n, g, st)
                        argv = [self.ev(fn, a, st) for a in n.get('args', [])]
                        sub = st.copy()
                        sub.depth = st.depth + 1
                        res = self.run(g, sub, argv)
                        if not res:
                            return
                        for (rs, rv) in res[1:]:
                            rs2 = rs
                            rs2.depth = st.depth
                            rs2.data = copy.copy(rs2.data)
                            rs2.data[('ret', st.depth, e)] = rv if rv is not None else UNKNOWN
                            pend = rs2.data.pop('retcond-pending', None)
                            if pend is not None:
                                rs2.data[('retcond', st.depth, e)] = pend
                            self._walk(fn, cfg, b, i, rs2, visits, out)
                        rs, rv = res[0]
                        rs.depth = st.depth
                        rs.data = copy.copy(rs.data)
                        rs.data[('ret', st.depth, e)] = rv if rv is not None else UNKNOWN
                        pend = rs.data.pop('retcond-pending', None)
                        if pend is not None:
                            rs.data[('retcond', st.depth, e)] = pend
                        st = rs
                        continue
                    if 'ck' in n or n['k'] in ('CallExpr', 'CXXMemberCallExpr', 'CXXOperatorCallExpr'):
                        st.data[('ret', st.depth, e)] = self.call_value(fn, n, st)
                    self.on_node(fn, n, st)
                    self.assign_effects(fn, n, st)
                else:
                    self.on_dtor(fn, e, st)
            succ = blk.succ
            if b == cfg.exit or not [s for s in succ if s is not None]:
                self._finish(st, None, out)
                return
            if blk.cond is not None and len(succ) == 2:
                ci = blk.cond
                v = self.ev(fn, ci, st)
                lop = None
                if blk.term is not None:
                    tn = fn.nodes[blk.term]
                    if tn['k'] == 'BinaryOperator' and tn.get('op') in ('&&', '||') and fn.strip(ci) != blk.term:
                        lop = (blk.term, tn['op'])
                ci = self.effective(fn, ci, st)
                taken = []
                if v[0] == 'c':
                    taken = [0 if v[1] else 1]
                else:
                    taken = [0, 1]
                nexts = [(t, succ[t]) for t in taken if succ[t] is not None]
                if not nexts:
                    return
                for t, s in nexts[1:]:
                    st2 = st.copy()
                    try:
                        self._take(fn, ci, t == 0, st2, lop)
                    except Infeasible:
                        continue
                    self._walk(fn, cfg, s, 0, st2, visits, out)
                t, s = nexts[0]
                try:
                    self._take(fn, ci, t == 0, st, lop)
                except Infeasible:
                    return
                b, start = s, 0
                continue
            live = [s for s in succ if s is not None]
            for s in live[1:]:
                self._walk(fn, cfg, s, 0, st.copy(), visits, out)
            b, start = live[0], 0

    def effective(self, fn, ci, st):
        """the sub-expression whose truth value the branch really tests on this path (descends into the right
        operand of && / || that were not short-circuited); None if the outcome was already decided"""
        while True:
            j = fn.strip(ci)
            n = fn.nodes[j]
            if n['k'] == 'BinaryOperator' and n.get('op') in ('&&', '||'):
                if st.data.get(('sc', st.depth, j)) is not None:
                    return None
                ci = n['ch'][1]
                continue
            return j

    def _take(self, fn, ci, truth, st, lop):
        if lop is not None:
            node, op = lop
            st.data = copy.copy(st.data)
            if (op == '||' and truth) or (op == '&&' and not truth):
                st.data[('sc', st.depth, node)] = 1 if op == '||' else 0
            else:
                st.data.pop(('sc', st.depth, node), None)
        if ci is not None:
            self._edge_fact(fn, ci, truth, st)
            self.on_edge(fn, ci, truth, st)
            r = self._resolve_cond(fn, ci, st)
            if r is not None:
                # the branch tests a named bool / the result of an inlined helper: the rule also sees the
                # condition that was really evaluated
                self._dispatch_edge(r[0], r[1], r[2], truth != r[3], st)

    def _dispatch_edge(self, fn, node, depth, truth, st):
        """on_edge for a condition that was evaluated earlier (in a named local / in an inlined helper); && and ||
        are decomposed when their outcome determines the operands"""
        n = fn.nodes[node]
        if n['k'] == 'BinaryOperator' and n.get('op') in ('&&', '||'):
            if (n['op'] == '&&') == truth:  # a && b true: both true;  a || b false: both false
                for c in n['ch']:
                    sub = self._resolve_cond_at(fn, c, depth, st)
                    if sub is not None:
                        self._dispatch_edge(sub[0], sub[1], sub[2], truth != sub[3], st)
                    else:
                        self._dispatch_edge(fn, fn.strip(c), depth, truth, st)
            return
        if n['k'] == 'UnaryOperator' and n.get('op') == '!':
            self._dispatch_edge(fn, fn.strip(n['ch'][0]), depth, not truth, st)
            return
        old = st.depth
        st.depth = depth
        try:
            self.on_edge(fn, node, truth, st)
        finally:
            st.depth = old

    def _edge_fact(self, fn, ci, truth, st):
        """record what a taken edge tells about a boolean local"""
        i = fn.strip(ci)
        neg = False
        while True:
            n = fn.nodes[i]
            if n['k'] == 'UnaryOperator' and n['op'] == '!':
                neg = not neg
                i = fn.strip(n['ch'][0])
                continue
            if n['k'] == 'ImplicitCastExpr':
                i = fn.strip(n['ch'][0])
                continue
            break
        if n['k'] == 'DeclRefExpr' and 'id' in n and n.get('t') == 'bool':
            st.locals[(st.depth, n['id'])] = ('c', int(truth != neg))

    def _finish(self, st, rv, out):
        self.npaths += 1
        if self.npaths > self.max_paths:
            raise TooManyPaths('more than %d paths' % self.max_paths)
        out.append((st, rv))
