"""Check context: collects rule instances, reports, known findings, writes evidence, sets exit code."""
import fnmatch
import json
import os
import sys
import time

from . import facts

VERIF = facts.VERIF


class Ctx:
    def __init__(self, prop, tier, root=None, only_rule=None):
        self.prop = prop
        self.tier = tier
        self.root = root or facts.REPO
        self.only_rule = only_rule
        self.t0 = time.time()
        self.reports = []  # dict(rule,key,where,msg,detail)
        self.rules = {}  # rule -> dict(instances, minimum, desc)
        self.samples = []
        self.units = []
        self.functions = 0
        self.assumptions = []
        self.notes = []
        self._fb_cache = {}
        self.broken_rules = []
        # self-tests analyse a scratch copy (--root): their evidence must never overwrite the real one
        self.evdir = os.path.join(VERIF, 'evidence') if os.path.abspath(self.root) == '/repo' else \
            os.path.join('/tmp', 'yaclib_verif_selftest', 'evidence')
        self.seed = int(os.environ.get('VERIF_SEED', '0') or 0)

    # ---- facts
    def facts(self, cfgs, kinds=('lib', 'probe'), only=None, tests=None, quick_tests=None):
        """`tests`: regex selecting units of the repository's own test suite; they are added (parsed only) in the
        thorough tier, so that every rule also sees the template instantiations the real build produces.
        `quick_tests`: the (small) subset that is parsed in the quick tier as well — the test units of the property's
        own area, whose instantiations (value types, policies, input mixes) the probes do not all reproduce."""
        if self.tier != 'thorough':
            tests = quick_tests
        if os.environ.get('VERIF_NO_TESTS') or not os.path.isdir(os.path.join(self.root, 'test')):
            tests = None
        key = (tuple(cfgs), tuple(kinds), only, tests)
        if key not in self._fb_cache:
            fbs = facts.load(cfgs, kinds, only, self.root, tests=tests)
            for c, fb in fbs.items():
                for u in fb.units:
                    self.units.append('%s[%s]: %d functions' % (u[0], u[1], u[2]))
                self.functions += len(fb.fn)
            self._fb_cache[key] = fbs
        return self._fb_cache[key]

    # ---- bookkeeping
    def rule(self, name, desc, minimum=1):
        r = self.rules.setdefault(name, dict(instances=0, minimum=minimum, desc=desc, reports=0, keys=set()))
        r['minimum'] = max(r['minimum'], minimum)
        r['desc'] = desc
        return name

    def instance(self, rule, key=None, sample=None):
        r = self.rules[rule]
        r['instances'] += 1
        if key is not None:
            r['keys'].add(key)
        if sample is not None and len([s for s in self.samples if s.get('rule') == rule]) < 6:
            self.samples.append(dict(rule=rule, **sample) if isinstance(sample, dict) else dict(rule=rule, case=sample))

    def report(self, rule, key, where, msg, detail=None):
        """a rule instance that does NOT hold"""
        self.rules[rule]['reports'] += 1
        self.reports.append(dict(rule=rule, key=key, where=where, msg=msg, detail=detail or ''))

    def assume(self, text):
        if text not in self.assumptions:
            self.assumptions.append(text)

    def broken(self, msg):
        raise facts.AnalysisBroken(msg)

    def guard(self, thunk):
        """run one rule; if it cannot be carried out (AnalysisBroken) remember that and go on with the other rules:
        a violation found by another rule is still a violation, and is reported (exit 1); only when nothing is
        reported does the broken rule make the whole check exit 2"""
        try:
            return thunk()
        except facts.AnalysisBroken as e:
            self.broken_rules.append(str(e))
            return None

    # ---- finish
    def finish(self):
        kf_path = os.path.join(VERIF, 'known_findings.json')
        known = []
        if os.path.exists(kf_path):
            with open(kf_path) as f:
                for e in json.load(f).get('findings', []):
                    if e.get('status') == 'known' and self.prop in e.get('properties', []):
                        known.append(e)
        # non-vacuity
        for name, r in self.rules.items():
            if r['instances'] < r['minimum']:
                self.broken_rules.append('rule %s matched %d instances, fewer than the hand-confirmed minimum %d '
                                         '(anchor vanished or idiom not recognised)' % (name, r['instances'],
                                                                                        r['minimum']))
        viol = []
        knownhits = []
        seen = set()
        for rep in self.reports:
            ident = (rep['rule'], rep['key'])
            if ident in seen:
                continue
            seen.add(ident)
            hit = None
            for e in known:
                if e.get('rule') and e['rule'] != rep['rule']:
                    continue
                if any(fnmatch.fnmatchcase(rep['key'], g) for g in e.get('keys', [])):
                    hit = e
                    break
            (knownhits if hit else viol).append((rep, hit))
        for rep, e in knownhits:
            print('%s: [%s] %s: %s' % (rep['where'], rep['rule'], rep['key'], rep['msg']))
            print('KNOWN-FINDING: property=%s %s %s: %s' % (self.prop, e['id'], rep['key'], e['what']))
        rdir = os.path.join(self.evdir, 'replay')
        os.makedirs(rdir, exist_ok=True)
        # remove stale replay files of this property
        for f in os.listdir(rdir):
            if f.startswith(self.prop + '-'):
                try:
                    os.unlink(os.path.join(rdir, f))
                except OSError:
                    pass
        for n, (rep, _) in enumerate(viol):
            print('%s: [%s] %s: %s' % (rep['where'], rep['rule'], rep['key'], rep['msg']))
            if rep['detail']:
                for ln in str(rep['detail']).splitlines():
                    print('    ' + ln)
            p = os.path.join(rdir, '%s-%d.txt' % (self.prop, n))
            with open(p, 'w') as f:
                f.write('property: %s\nrule: %s\ninstance: %s\nwhere: %s\nwhat: %s\n%s\n\nreproduce: '
                        'cd /verif && python3 check.py %s --tier %s --only %s\n' %
                        (self.prop, rep['rule'], rep['key'], rep['where'], rep['msg'], rep['detail'], self.prop,
                         self.tier, rep['rule']))
            print('VIOLATION property=%s replay=%s' % (self.prop, p))
        if self.broken_rules and not viol:
            # nothing to report and part of the analysis could not be carried out: never a pass
            raise facts.AnalysisBroken('; '.join(self.broken_rules[:3]))
        for b in self.broken_rules:
            print('ANALYSIS-BROKEN (this rule only; the violations above stand) property=%s: %s' % (self.prop, b))
        self.write_evidence(len(viol), [r for r, _ in knownhits],
                            broken='; '.join(self.broken_rules[:3]) if self.broken_rules else None)
        return 1 if viol else 0

    def write_evidence(self, nviol, knownhits, broken=None):
        total = sum(r['instances'] for r in self.rules.values())
        distinct = sum(len(r['keys']) if r['keys'] else r['instances'] for r in self.rules.values())
        rules = {k: dict(instances=r['instances'], distinct=len(r['keys']) if r['keys'] else r['instances'],
                         minimum_confirmed_by_hand=r['minimum'], not_holding=r['reports'], rule=r['desc'])
                 for k, r in sorted(self.rules.items())}
        expl = ('Static analysis only: the sources under %s are parsed with clang 14 (type-checked AST + CFG of every '
                'instantiation in the listed units/configurations; nothing is executed). Each rule below is a '
                'structural necessary condition of the property; "instances" are the sites/obligations the rule was '
                'evaluated on in this run, all CFG paths of each. The behaviour over schedules is NOT decided. '
                % self.root) + ' '.join(self.notes)
        ev = dict(
            property_id=self.prop, tier=self.tier, seed=self.seed, level='other',
            coverage=dict(
                explanation=expl, evaluations=max(total, 0), distinct_nontrivial=distinct,
                rule='one evaluation = one rule instance (site / function instantiation / table row) checked on all '
                     'its CFG paths; distinct = distinct instance keys; every instance is non-trivial by '
                     'construction (it is a site the rule applies to, found in the current sources)',
                samples=self.samples[:40] or ['(none)'], exhaustive=True, rules=rules,
                units_analysed=self.units, functions_in_fact_base=self.functions,
                known_findings_matched=[k['key'] for k in knownhits],
                analysis_broken=broken),
            assumptions=self.assumptions or ['clang 14 front end is faithful to the build compilers for this code'],
            wall_s=round(time.time() - self.t0, 2), violations=nviol)
        os.makedirs(self.evdir, exist_ok=True)
        with open(os.path.join(self.evdir, self.prop + '.json'), 'w') as f:
            json.dump(ev, f, indent=1, default=str)
