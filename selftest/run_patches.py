#!/usr/bin/env python3
"""False-alarm self-test: apply every behaviour-preserving patch of selftest/benign/ to a scratch copy of
/repo/include + /repo/src (outside /repo and /verif), run every property's check with --root on it and require exit 0.

usage: selftest/run_patches.py [--only substring] [--props C01,C02] [-j N]
"""
import argparse
import glob
import os
import shutil
import subprocess
import sys
import tempfile
from concurrent.futures import ThreadPoolExecutor

HERE = os.path.dirname(os.path.abspath(__file__))
VERIF = os.path.dirname(HERE)
REPO = '/repo'
PROPS = ['C%02d' % i for i in range(1, 21)]
WITH_TESTS = False  # --with-tests: also copy /repo/test, so the quick tier parses its test-unit subset as on /repo


def _declared_limits():
    import json
    try:
        idx = json.load(open(os.path.join(HERE, 'benign', 'index.json')))
    except OSError:
        return {}
    return {p['file']: tuple(p.get('undecided', ())) for p in idx.get('patches', [])}


DECLARED_LIMITS = _declared_limits()


def run_one(args):
    diff, props = args
    base = tempfile.mkdtemp(prefix='yv_ben_', dir='/tmp')
    res = []
    try:
        root = os.path.join(base, 'r')
        os.makedirs(root)
        for d in ('include', 'src') + (('test',) if WITH_TESTS else ()):
            shutil.copytree(os.path.join(REPO, d), os.path.join(root, d))
        p = subprocess.run(['patch', '-p1', '-s', '-d', root, '-i', diff], stdout=subprocess.PIPE,
                           stderr=subprocess.STDOUT, text=True)
        if p.returncode != 0:
            return diff, [('*', 'SKIPPED', 'patch does not apply: ' + p.stdout[-300:])]
        env = dict(os.environ, YACLIB_VERIF_CACHE=os.path.join(base, 'cache'))
        for prop in props:
            r = subprocess.run([sys.executable, os.path.join(VERIF, 'check.py'), prop, '--root', root],
                               stdout=subprocess.PIPE, stderr=subprocess.STDOUT, text=True, env=env, cwd=VERIF)
            if r.returncode == 0:
                res.append((prop, 'OK', ''))
            elif r.returncode == 2 and prop in DECLARED_LIMITS.get(os.path.basename(diff), ()):
                # a declared limit of the analysis (index.json "undecided"): exit 2, never a VIOLATION line
                res.append((prop, 'OK', ''))
                print('%-14s %s: exit 2 as declared (form outside the analysis, see DESIGN.md section 7)' % (
                    os.path.basename(diff), prop))
            else:
                res.append((prop, 'FALSE-ALARM' if r.returncode == 1 else 'BROKEN', r.stdout[-1800:]))
        return diff, res
    finally:
        shutil.rmtree(base, ignore_errors=True)


def main():
    ap = argparse.ArgumentParser()
    ap.add_argument('--only', default=None)
    ap.add_argument('--props', default=None)
    ap.add_argument('-j', type=int, default=4)
    ap.add_argument('--with-tests', action='store_true')
    a = ap.parse_args()
    global WITH_TESTS
    WITH_TESTS = a.with_tests
    diffs = sorted(glob.glob(os.path.join(HERE, 'benign', '*.diff')))
    if a.only:
        diffs = [d for d in diffs if a.only in os.path.basename(d)]
    props = a.props.upper().split(',') if a.props else PROPS
    bad = 0
    with ThreadPoolExecutor(max_workers=a.j) as ex:
        for diff, res in ex.map(run_one, [(d, props) for d in diffs]):
            notok = [r for r in res if r[1] not in ('OK',)]
            print('%-14s %s' % (os.path.basename(diff), 'all %d checks silent' % len(res) if not notok else
                                ', '.join('%s:%s' % (r[0], r[1]) for r in notok)))
            for prop, status, detail in notok:
                if status != 'SKIPPED':
                    bad += 1
                print('    [%s %s]\n    %s' % (prop, status, detail.replace('\n', '\n    ')))
            sys.stdout.flush()
    print('benign patches: %d, checks not silent: %d' % (len(diffs), bad))
    return 1 if bad else 0


if __name__ == '__main__':
    sys.exit(main())
