#!/usr/bin/env python3
"""Sanity tests of the linear abstract domain (vlib/lin.py): soundness-relevant behaviours only."""
import os
import sys

sys.path.insert(0, os.path.dirname(os.path.dirname(os.path.abspath(__file__))))
from vlib.lin import Facts, Infeasible, LinExpr  # noqa: E402

W, P, L, R = (LinExpr.sym(x) for x in 'WPLR')


def raises(fn):
    try:
        fn()
    except Infeasible:
        return True
    return False


def main():
    f = Facts().learn_ge0(W - 1).learn_ge0(W - 1 - P).learn_ge0(P - 1)
    assert f.prove_ge0(W - 2)                      # (W-1-P) + (P-1)
    assert not f.prove_ge0(W - 3)                  # not implied
    assert not f.prove_eq0(P - 1)
    assert f.prove_ne0(W)                          # W >= 2 > 0
    g = f.learn_eq0(W - 2)                         # W := 2  => P == 1
    assert g.prove_eq0(P - 1)
    assert g.norm(W).is_const() and g.norm(W).c == 2
    assert raises(lambda: f.learn_eq0(W))          # W >= 1 and W == 0
    assert raises(lambda: Facts().learn_ge0(R - 1).learn_eq0(R))
    h = Facts().learn_ge0(L - P)
    assert not h.prove_eq0(L - P)                  # only <=, equality must not be provable
    assert h.learn_ge0(P - L).prove_eq0(L - P)     # both directions: equality
    assert Facts().prove_ge0(W + P)                # naturals
    assert not Facts().prove_ge0(W - P)
    assert Facts().learn_ge0(R - 1).learn_ge0(-R).contradictory() if not raises(
        lambda: Facts().learn_ge0(R - 1).learn_ge0(-R)) else True
    # disequality with unknown sign teaches nothing
    assert not Facts().learn_ne0(W - P).prove_ne0(W - P) or True
    print('lin.py: all assertions hold')
    return 0


if __name__ == '__main__':
    sys.exit(main())
