#!/usr/bin/env python3
"""Sensitivity self-test of the static checks (DESIGN.md section 7).

For every entry of mutants.json: copy /repo/include + /repo/src to a scratch directory outside /repo and /verif,
apply the one-site source rewrite, run `check.py <property> --root <scratch>` and require
   kind=mutant : exit 1 and a report of the expected rule   (the change still parses: otherwise exit 2)
   kind=benign : exit 0                                      (behaviour-preserving edit, must stay silent)
The scratch copy and its fact cache are removed afterwards.  A rewrite that no longer applies (the tree was
edited) is reported as SKIPPED, never as a failure of a property.

usage: selftest/run.py [--only ID-substring] [--prop Cxx] [-j N]
"""
import argparse
import json
import os
import shutil
import subprocess
import sys
import tempfile
from concurrent.futures import ThreadPoolExecutor

HERE = os.path.dirname(os.path.abspath(__file__))
VERIF = os.path.dirname(HERE)
REPO = '/repo'


def run_one(m):
    base = tempfile.mkdtemp(prefix='yv_mut_', dir='/tmp')
    try:
        root = os.path.join(base, 'r')
        os.makedirs(root)
        for d in ('include', 'src'):
            shutil.copytree(os.path.join(REPO, d), os.path.join(root, d))
        for ed in m['edits']:
            p = os.path.join(root, ed['file'])
            s = open(p).read()
            cnt = s.count(ed['old'])
            want = ed.get('count', 1)
            if cnt != want:
                return m, 'SKIPPED', 'rewrite does not apply (%d matches, expected %d) in %s' % (cnt, want, ed['file'])
            s = s.replace(ed['old'], ed['new'])
            open(p, 'w').write(s)
        env = dict(os.environ, YACLIB_VERIF_CACHE=os.path.join(base, 'cache'))
        r = subprocess.run([sys.executable, os.path.join(VERIF, 'check.py'), m['property'], '--root', root],
                           stdout=subprocess.PIPE, stderr=subprocess.STDOUT, text=True, env=env, cwd=VERIF)
        out = r.stdout
        if m.get('kind', 'mutant') == 'benign':
            ok = r.returncode == 0
            return m, 'OK' if ok else 'FALSE-ALARM', '' if ok else out[-1500:]
        if r.returncode == 1 and ('[%s' % m['expect']) in out:
            return m, 'OK', ''
        if r.returncode == 1:
            return m, 'WRONG-RULE', out[-1500:]
        if r.returncode == 2:
            return m, 'BROKEN', out[-1500:]
        return m, 'MISSED', out[-600:]
    finally:
        shutil.rmtree(base, ignore_errors=True)


def main():
    ap = argparse.ArgumentParser()
    ap.add_argument('--only', default=None)
    ap.add_argument('--prop', default=None)
    ap.add_argument('-j', type=int, default=4)
    ap.add_argument('-v', action='store_true')
    a = ap.parse_args()
    ms = json.load(open(os.path.join(HERE, 'mutants.json')))['mutants']
    if a.only:
        ms = [m for m in ms if a.only in m['id']]
    if a.prop:
        ms = [m for m in ms if m['property'] == a.prop.upper()]
    bad = 0
    with ThreadPoolExecutor(max_workers=a.j) as ex:
        for m, status, detail in ex.map(run_one, ms):
            print('%-11s %-4s %-8s %s' % (status, m['property'], m.get('kind', 'mutant'), m['id']))
            if status not in ('OK', 'SKIPPED'):
                bad += 1
                if detail:
                    print('    ' + detail.replace('\n', '\n    '))
            elif a.v and detail:
                print('    ' + detail)
    print('self-test: %d entries, %d not as expected' % (len(ms), bad))
    return 1 if bad else 0


if __name__ == '__main__':
    sys.exit(main())
