#!/usr/bin/env python3
"""Writes MANIFEST.json from the table below (kept as code so the 20 entries stay consistent)."""
import json
import os

HERE = os.path.dirname(os.path.abspath(__file__))

LEVEL_NOTE = ('Trusted base: clang 14 front end (AST, CFG, constant evaluation) agrees with the build compilers on this '
              'code; the frozen rule tables in /verif/tables and the reference rows inside the rule modules were '
              'confirmed by reading. Decides the named structural clauses on every path of every analysed '
              'instantiation; does not decide the behaviour over schedules/histories.')

CLAIMS = {
    'C19': dict(
        text='Repository-specific static rule R-OPTABLE: every method body of the fiber atomic re-implementation is '
             'summarised syntax-directedly into closed terms (returned value, stored value, value written to expected) '
             'and compared with the std::atomic operation table; every wrapper method (both backends) must forward '
             'once to the same-named Impl operation with its own arguments; weak-CAS spurious failure must follow the '
             'std contract and strong CAS must not consult the failure source. Bodies are closed arithmetic '
             'identities, so agreement holds for all operand values and sequences of one thread. This is the whole '
             'single-threaded statement up to the assumption that T has built-in arithmetic.',
        technique='syntax-directed effect summaries of method bodies over the type-checked AST (LibTooling), compared '
                  'with a frozen operation table; probe TU instantiates every member',
        design='4/C19'),
}

CLAIMS.update({
    'C18': dict(
        text='Repository-specific path rules over the CFG of every fiber lock / condition-variable / thread method '
             '(helpers inlined, literal mode arguments partially evaluated, loops unrolled once): R-WAITLOOP (state '
             're-tested after every wake-up before it is written), R-NOTIFY (a freeing release notifies a queue '
             'acquirers wait on), R-MODE (every acquire form leaves the lock state of the blocking form of its mode), '
             'R-TRY (false => no state written, true => acquired), R-CV (unlock->park->lock, predicate loop, notify '
             'reaches the queue, timed status from Erase), R-JOIN, R-FORWARD (wrappers forward to the same Impl '
             'operation). These are necessary conditions of the std contracts; the behaviour over all fiber '
             'schedules is not decided.',
        technique='per-path typestate/effect rules over clang CFGs of the lock classes (LibTooling facts + python), '
                  'with partial evaluation and helper inlining',
        design='4/C18'),
    'C09': dict(
        text='R-ACCESSOR: forward refinement of the set of possible Result states along every CFG path of every '
             'combinator strategy instantiation (WhenAll/Join, all policies and input forms); each terminating '
             'accessor (Value/Error/Exception) must see exactly its state. Decides that no completion order can '
             'reach an accessor on the wrong alternative; does not decide the moment or content of completion.',
        technique='path-sensitive value-set refinement (typestate) over clang CFGs of all strategy instantiations',
        design='4/C09'),
    'C01': dict(
        text='R-READY: every readiness predicate of the unique future API (Ready, Get() const&) is summarised into a '
             'closed term over the completion word and evaluated on its three abstract states; it must be false on '
             'Empty and on Callback. Decides "Ready() only once the Result can be read" structurally; the '
             'exactly-once delivery over interleavings is not decided.',
        technique='syntax-directed summaries of predicate bodies evaluated over the 3-state abstraction of the '
                  'callback word',
        design='4/C01'),
    'C04': dict(
        text='R-WORD/R-ORDER/R-CASKIND over every atomic access of the non-fault library in three configurations: '
             'each site is classified into a role by (word, operation kind, class of the written value) and must be '
             'admitted by the word protocol, carry at least the role minimum in the memory-order lattice (orders '
             'passed through parameters are resolved at call sites), and weak CAS must sit in a retry loop. '
             'Necessary conditions for race freedom (each row names the plain access that loses its only '
             'happens-before edge); sufficiency is not decided.',
        technique='site enumeration with constant-evaluated memory orders over typed AST + role table (lattice check)',
        design='4/C04'),
})

CLAIMS.update({
    'C02': dict(
        text='Over every Core/PromiseCore instantiation of the probe program (callback signature class x return kind '
             'x attachment x source): R-ACCESSOR (each Result accessor in CallResolveState sees its state), '
             'R-DISPATCH (each input state reaches exactly one of invoke / pass-through and the invoking state is a '
             'single one), R-TRY (every functor invocation lies under a try/catch(...) that stores '
             'current_exception()), R-HEAD (a returned Task of every head kind can be started by the step). Decides '
             'the routing/recovery/unwrapping *shape* for all programs of the instantiated product; values and the '
             'set of callbacks run for a concrete chain are not decided.',
        technique='path-sensitive state-set refinement + call-graph try-coverage + partial evaluation of Here() '
                  'overriders over clang CFGs of all template instantiations',
        design='4/C02'),
    'C05': dict(
        text='R-LINEAR on the five IExecutor::Submit overriders and the five dequeue sites (exactly one of '
             'Call/Drop/enqueue per path, Drop only behind the stop condition, node finished once with next read '
             'first); R-ROUTE on every Core instantiation (Call steps reach the functor only through '
             '_executor->Submit after TransferExecutorTo, inline steps never submit, Drop runs CallImpl on StopTag), on '
             'executor-naming awaiters (executor assigned before Submit) and on the set of writers of '
             'BaseCore::_executor; R-HEAD.2 reports the known finding F7. Thread identity at run time is not decided.',
        technique='linear typestate per CFG path + effect rules over template instantiations + who-may-write table',
        design='4/C05'),
    'C07': dict(
        text='Strand::_jobs protocol and memory-order roles, CAS kinds, job published exactly once, batch walks finish '
             'every node once reading next first, self-scheduling iff the idle marker was replaced (with a self '
             'reference), a batch ends by exactly one of go-idle/resubmit, no blocking call. Mutual exclusion and '
             'FIFO over all interleavings are not decided.',
        technique='role table over atomic sites + per-path typestate rules over the clang CFG of Strand',
        design='4/C07'),
    'C08': dict(
        text='R-LOCKSET (queue and counter only under _m, jobs Called/Dropped with _m released, lock pairing on every '
             'path incl. unique_lock moved into Stop), R-LINEAR (Submit: Drop xor enqueue; Loop/HardStop finish each '
             'popped node once), R-DRAIN (a worker returns only after seeing the queue empty under the same lock hold; '
             'only Stop(unique_lock&&) sets the stopped bit), R-COUNT (packed job counter: unit == 1 << NoJobs shift, flag '
             'bits below it, +unit exactly on the accepted path, -unit after every Called job before the count is read '
             'again, no other writer). Quiescence after Wait for all schedules is not decided.',
        technique='lockset dataflow per CFG path with RAII/moved-lock modelling and helper inlining',
        design='4/C08'),
    'C12': dict(
        text='R-HEAD: every Task-head kind (Schedule, LazyContract, MakeTask, coroutine Task), partially evaluated '
             'with its construction-time fields, reaches its own work when started through Here/Next and never '
             'reads the starter as a completed core. Equality with the eager pipeline needs execution: not decided.',
        technique='partial evaluation of virtual overriders over clang CFGs with helper/lambda inlining',
        design='4/C12'),
})

CLAIMS.update({
    'C10': dict(
        text='On every Any<None/FirstFail/LastFail> instantiation: R-ACCESSOR, R-SETONCE (promise set at most once per '
             'path and only after winning an RMW election, destructor under Valid()), R-LASTFAIL (packed counter '
             'constants agree), R-SAVEDERR (saved error written only by the CAS winner), election word '
             'kinds/orders. Which input wins for a schedule is not decided.',
        technique='path-sensitive typestate rules + constant-agreement checks over clang CFGs of strategy instantiations',
        design='4/C10'),
    'C20': dict(
        text='R-ALLOC: maximum number of heap allocations on any CFG path of each API-step entry, computed over the '
             'merged -O0 LLVM IR of a probe unit and all library units (SCC condensation per function, call-graph '
             'closure over direct calls, indirect calls = attribution boundary, frozen allow-list of external '
             'non-allocating callees): pipeline steps <= 1, Wait*/Get/Strand::Submit/awaiter members == 0, combinator '
             'registration and completion finite with no allocation inside a loop. Holds for all inputs because it '
             'is a bound over all paths; allocations behind virtual dispatch are by definition another step\'s.',
        technique='max-allocation effect analysis over LLVM IR (path maximum on SCC-condensed CFGs + call graph)',
        design='4/C20'),
})
CLAIMS['C09']['text'] = ('On every WhenAll/Join strategy and combinator instantiation: R-ACCESSOR, R-SETONCE, R-CALLBACK '
                         '(one Consume then one combinator DecRef per input callback), R-SIBLING (already-complete '
                         'registration branch does what the callback does), R-COUNT (reference count == input count, '
                         'empty range returns early), election word kinds/orders. The moment and content of '
                         'completion over interleavings are not decided.')

CLAIMS.update({
    'C17': dict(
        text='R-DETERMINISM over the whole fault layer in the FIBER configuration (incl. static initialisers): D1 '
             'deny-list of sources of run-to-run variation, D2 single seeded engine whose every draw is counted and '
             'which SetSeed restarts together with the counter, D3 callers of GetRandNumber, D4 no address-dependent '
             'order (pointer->integer, pointer relational compare, pointer-keyed or unordered iteration) in decision '
             'code, D5 virtual time writers/clock/ordered sleepers, D6 injector state round trip. Necessary '
             'conditions for reproducibility; bit-equality of two runs is a dynamic comparison and is not decided.',
        technique='deny-list / who-may-reference / type-shape rules over the resolved call sites and declarations of '
                  'the fault layer',
        design='4/C17'),
})

CLAIMS.update({
    'C06': dict(
        text='R-READY on the shared readiness predicates, protocol/orders/CAS kind of the shared push, R-SHAREDWALK '
             '(each list node run once with next read first, exactly kSharedRefNoFuture DecRefs, one before the last '
             'callback), R-MOVEOUT (the shared value is moved only under GetRef()==1 / below the kSharedRefNoFuture '
             'threshold; factories create the right initial counts), R-CONSTOBS (const observers and shared-attached '
             'continuations read as const), R-CONNECT, R-NODISCARD, R-NODEREUSE (one callback object on at most one '
             'shared core), R-AFTERRELEASE (an observer touches the shared core only while it still owns the '
             'reference it gives back). The interleaving behaviour is not decided.',
        technique='typestate / guard-dominance rules per CFG path over all instantiations + role table',
        design='4/C06'),
    'C13': dict(
        text='Over every awaiter instantiation in three configurations (symmetric transfer on/off, FIBER): R-READY, '
             'R-SUSPEND (bool await_suspend == registration outcome), R-HANDOFF (no awaiter field touched after the '
             'coroutine may run elsewhere), R-COUNTER (multi-await counter arithmetic agrees), R-HERENEXT (symmetric / '
             'asymmetric twins equal), R-DESTROY, executor assigned before Submit, Store before SetResult, R-HEAD for '
             'co_awaited Tasks, R-LOOPCALLER (Here() of a callback object that is not a BaseCore never hands a core '
             'back to the running Loop). "Resumes exactly once after the event" over interleavings is not decided.',
        technique='per-path effect/typestate rules over clang CFGs of awaiter instantiations',
        design='4/C13'),
    'C14': dict(
        text='Protocol, orders and CAS kinds of MutexImpl::_sender for the four option combinations; R-TRYLOCK (TryLock '
             '== strong CAS from not-locked; AwaitLock false iff it won the free lock, true iff it enqueued itself with '
             'next written first), R-RECEIVER (holder-only field; release CAS only when it is null), R-HANDOFF (list '
             'head advanced before the next holder is resumed, nothing touched after), no blocking call, R-FIFO, '
             'R-GUARD. Mutual exclusion / no lost wake-up over all interleavings is not decided.',
        technique='role table over atomic sites + per-path rules over clang CFGs of the four MutexImpl instantiations',
        design='4/C14'),
    'C15': dict(
        text='Protocol/orders/CAS kinds of _state, _readers_wait and the spinlock word; R-LOCKSET (queue fields only '
             'under the spinlock, released exactly once per path, coroutines resumed with it released) over all entry '
             'points with SlowUnlock/RunWriter/RunReaders inlined; R-TRYSHARED; R-CONST (bit-field constants and the '
             'armed reader amount); R-INV: the queue accounting (writers list length vs writer count, _writers_prio vs '
             'writers ahead of the first queued reader, _readers_size, tail pointer, reader credits, every unlinked '
             'writer resumed or armed, no underflow) is proved to be an inductive invariant of every entry over '
             'linear abstract values. Reader/writer exclusion over interleavings of the lock-free entries and liveness '
             'under continuous arrival are not decided.',
        technique='lockset dataflow per CFG path with helper inlining + role table + constant agreement + abstract '
                  'interpretation of the critical sections over linear expressions (inductive-invariant check, '
                  'proofs by enumeration of linear combinations; no solver)',
        design='4/C15'),
    'C16': dict(
        text='Protocol/orders of OneShotEvent::_head and the counter; R-READY (event and attached futures), R-LINEAR (Set '
             'walk), R-TRYADD (fails iff all-done observed), R-SETPATH (Set only from the counter reaching zero), '
             'R-SIBLING (InsertRange releases/subtracts not-registered inputs), R-TIMEDWAITER (two owners, fallback '
             'delete only when not registered), awaiter R-SUSPEND/R-HANDOFF. Release "exactly when the count hits '
             'zero" over all histories is not decided.',
        technique='role table + per-path typestate rules over clang CFGs',
        design='4/C16'),
})

CLAIMS.update({
    'C11': dict(
        text='R-WAITRETURN over every WaitRange instantiation (timed/untimed, unique/shared, variadic/iterator): after '
             'the reset pass a return happens only when every registration was withdrawn / the waiter\'s own '
             'subtraction of a provably positive amount reached zero, '
             'or after the untimed wait returned, so no producer can touch the returned stack frame; R-COUNTER '
             '(inputs+1, count-wait_count+1); R-WITHDRAW (Reset never replaces the result sentinel); R-EVENT '
             '(MutexEvent lock discipline, notify under the mutex, re-test after wake-up, predicate timed waits); '
             'R-NODISCARD; compile-fail witnesses that timed waits reject shared handles. Timing (deadline vs return '
             'value) and the race itself are not decided.',
        technique='per-path rules over clang CFGs of all WaitRange instantiations + compile-fail type witnesses',
        design='4/C11'),
})
CLAIMS['C12']['text'] = ('R-HEAD (every head kind can be started through Here/Next), R-START (both Start overloads '
                         'rewind first and bind/submit the head returned by MoveToCaller), R-REWIND, R-LAZYATTACH (link '
                         '+ plain store, nothing runs), R-NOSTART (factories start nothing), R-CANCEL (~Task cancels '
                         'exactly a valid not-completed task on the stopped inline executor; Detach/ToFuture go through '
                         'Start). Equality with the eager pipeline needs execution: not decided.')

CLAIMS.update({
    'C03': dict(
        text='Over every Core / PromiseCore / UniqueJob / strategy instantiation: R-DONEORDER (caller slot read -> Store '
             '-> predecessor released -> functor destroyed -> SetResult last, no slot read after the Store), R-FUNCTOR '
             '(functor destroyed exactly once per completion on every path), R-REFBAL (predecessor / inner-core '
             'reference balance derived from the CoreType bits), R-DELETE (delete / frame destruction only in the '
             'deleters, deleter only on the zero edge), R-UNIQUEJOB, R-STRATEGY (owning strategies release every input '
             'on every destructor path), R-CANCEL, R-SHAREDWALK, R-AFTERRELEASE (no use of an object after the last '
             'owned reference was given away, at every DecRef site). Absence of leaks / double frees over all '
             'interleavings is not decided (ownership moves through the callback word at run time).',
        technique='linear-resource typestate per CFG path over all template instantiations + who-may-delete table',
        design='4/C03'),
})

SHAPE_NOTE = (' R-SHAPE: a shape analysis over list segments (materialise / fold, fixpoint over the CFG) proves for '
              'every list length that the in-place list manipulation neither loses, duplicates nor cycles nodes and '
              'finishes / returns each one.')
for _p in ('C01', 'C06', 'C07', 'C14', 'C16'):
    CLAIMS[_p]['text'] = CLAIMS[_p]['text'].rstrip() + SHAPE_NOTE
    if 'shape analysis' not in CLAIMS[_p]['technique']:
        CLAIMS[_p]['technique'] += ' + shape analysis (abstract interpretation over list segments)'
CLAIMS['C01']['text'] += (' R-COMMIT: Promise::Set constructs the Result (which may throw) before it gives the handle '
                          'away.')

ADDED_RULES = {
    'C01': 'R-GETWAIT (Future::Get reads the stored Result only after Wait(*this) or on the true edge of Ready()). R-HANDLEMOVE (shared with C03). R-CONNECT also knows the continuation form of Connect (the attached continuation must take the whole Result and Set the promise). R-SETARGS (Promise::Set stores exactly its arguments; Set() stores the value with std::in_place).',
    'C02': 'R-RESULT (the variant alternative order agrees with ResultState; every Result constructor selects the alternative of its tag; accessors read the alternative their state names); R-MOVEOUT.site on core.hpp (a flattened inner result is moved only from a statically unique or provably last-observed core); R-TRY also requires every handler of the protecting try to store current_exception() or rethrow. R-INVOKE (the callback is invoked exactly once per run and the step completes with what it returned); R-DISPATCH also checks what is handed on (the input Result or its matching alternative). R-DISPATCH.class (the state on which a step invokes its callback is the one the callback\'s own signature names, decided independently of the library\'s classification; probe error type Errno that converts to the value type).',
    'C03': 'R-AFTERRELEASE (no use after the last owned DecRef), R-HANDLEASSIGN (IntrusivePtr same-type move assignment swaps: the handles\' defaulted move assignment relies on the moved-from destructor protocol). R-HANDLESPEC (IntrusivePtr members against ownership conservation by abstract interpretation), R-HANDLEMOVE (move assignment of the owning handles never releases the old state by a bare DecRef). R-STOREOVER (typestate of the Result storage of constructed-ready cores), R-APICOVER (every public function template is instantiated by some analysed unit; an uncovered entry is exit 2). R-ADOPT (a reference adopted with NoRefTag was taken by the same function, IncRef first; Reset(NoRefTag) only overwrites the handle of an object created in the same function, helpers followed). R-HANDOFF (shared with C04). R-FACTORYREFS (shared factories build adopting handles on the fresh core; the initial count is kSharedRefNoFuture plus the future handles handed out).',
    'C04': 'R-CASFRESH (every retry of a compare-exchange re-tests the refreshed expected value against what the first attempt tested), R-ORDER role=decision (a relaxed counter read may steer a branch only if an acquiring RMW follows), R-ODR. R-WAITRETURN (shared with C11: a multi-future wait returns only with last-one evidence through the counter\'s acquiring RMW). R-EVENT (shared with C11: the setter\'s last access to a stack event is the unlock). R-HANDOFF (a When* combinator is not touched after its last input has been registered: loop condition / increment / code after the registration loop work on locals).',
    'C05': 'R-START (shared with C12), R-RESUME.executor (a coroutine resumed inline takes the resuming core\'s executor), R-ROUTE.drop for every result-bearing Drop(). The pool rules of C08 (R-LOCKSET accept+enqueue, R-DRAIN, R-WAKE, R-FIFO, R-JOINALL), R-LISTSPEC (detail::List implements its sequence specification: abstract interpretation over an explicit heap, all lengths by a small-model argument) and R-JOBFIELDS (Strand members holding jobs are drained by Drop as well as Call). R-ROUTE.bind (the factory stores the executor argument; the predecessor\'s executor is inherited exactly when the step has none). R-ATTACHFORM (the 17 public attach forms hand the step factory the executor argument, Call / Detach / Lazy bits and On flavour that their name and signature promise). R-STRAND.one-batch (shared with C07). R-ROUTE.writers accepts a helper used only by routing sites. R-RUNFORM (Run / RunShared submit their first step to the executor argument itself, once, on every path).',
    'C06': 'R-AFTERRELEASE, R-MOVEOUT.site (guard dominance GetRef() == 1 at every move-out of a not statically unique core), R-COMMIT, R-CASFRESH on the shared push. R-GETWAIT (Get reads the Result only after Wait / Ready). R-ONENODE (a combinator callback node is registered on at most one shared input; SingleCombinator over a shared core only for one input). R-BRIDGE (Share / Split connect the source to the promise of the contract they make on every path). R-SETARGS on SharedPromise::Set. R-FACTORYREFS (shared with C03).',
    'C07': 'R-JOBFIELDS (every member of Strand that can hold jobs and is used by Call() is drained by Drop() too). R-STRAND.link (the published job links to the observed head iff that head is a job list), R-SHAPE with order (the batch is Called oldest first). R-STRAND.one-batch (one invocation of Strand::Call detaches one batch; later arrivals go through a new submission to the underlying executor).',
    'C08': 'R-WAKE (Submit notifies after enqueue; stop is followed by notify_all; a worker sleeps only after re-testing queue and stop under the lock), R-FIFO, R-JOINALL, R-LISTSPEC (detail::List against its sequence specification by abstract interpretation over an explicit heap). R-STOPFINAL (the stopped state is final whatever its representation).',
    'C09': 'R-LOOPCALLER, R-MOVEOUT.site on the strategies; R-POLICYFWD (every instantiation parameterised by a FailPolicy hands the same policy to each callee parameterised by one: entry point -> when::When -> strategy). R-OUTCOME (every Promise::Set hands on an accessor of the consumed Result or the collected values). R-INDEX (ordered static combinators: input I registers the callback carrying index I). R-MOVEOUT.site also covers SharedCore::Retire / UniqueCore::Retire. R-ONENODE, R-HANDOFF (shared with C06 / C04).',
    'C10': 'R-LOOPCALLER, R-MOVEOUT.site on the strategies; R-POLICYFWD (same rule on the WhenAny family). R-FORWARD (a wrapper hands an input back as the output outside the strategy only for count == 1 or a Ready input that, policy None, completed / otherwise holds a value). R-OUTCOME, R-FIRSTVALUE (Any<FirstFail>: a value wins iff no value won before). R-MOVEOUT.site also covers SharedCore::Retire / UniqueCore::Retire (the move-out the strategies reach through the virtual call). R-ONENODE, R-HANDOFF (shared with C06 / C04).',
    'C11': 'R-EVENTCALLBACK (the registered callback counts exactly one unit per completing future and leaves it alone; the shared-input helper forwards). R-DEADLINE (every WaitUntil form hands the caller\'s time_point, unchanged, down to the blocking primitive: no conversion to a duration and no arithmetic on the way). R-WAITFORMS (every public wait overload hands the wait core exactly the futures it was given and returns its answer as is; the single-future shortcut only under count == 1).',
    'C12': 'R-ROUTE.drop (a cancelled head stores StopTag on every path of Drop()). R-HANDLEMOVE (shared with C03). R-ATTACHFORM on the Task forms (the lazy form agrees with its eager sibling), R-GETWAIT on Task::Get; R-START recognises binding through a helper of the core.',
    'C13': 'R-RESUME.executor (every PromiseType::Impl instantiation takes the resuming core\'s executor on every path). R-MOVEOUT.site on the coroutine awaiters. R-PROMISE (initial_suspend / unhandled_exception / return_value / await_resume forms per PromiseType instantiation). R-AWAITEVENT (multi-future Await resumes exactly once, by the last completion; awaited futures left alone; sticky forms resume through Submit). R-AWAITERFORM (scheduling awaiters: a path of await_suspend that stays suspended has handed the coroutine on, one returning false has not; await_ready constant false for pure executor switches). R-ONEXEC (an executor-naming awaiter resumes the coroutine through that executor on every path: await_suspend never answers do-not-suspend, helpers followed).',
    'C14': 'R-GUARDSTATE (every GuardState member follows its row of the ownership table: summaries evaluated on {null,P,Q} x {owns,not}), R-GUARDCALLS (mode of every call from a guard into its mutex, state transition first, TryLock resets on failure, Release never unlocks), R-CASFRESH. R-SHAPE with order: GetHead<FIFO=true> returns a chain running from the oldest waiter to the newest. R-SHAPE on the grant paths UnlockHereAwait / AwaitUnlockOn (the waiter handed on is the oldest of the detached batch, the rest is parked oldest first under FIFO). R-LOCKAPI (guards built after an acquisition adopt, TryGuard tries; an unlock awaiter that reports ready has released the lock exactly once on that path; lock awaiters call the entry points of their mode).',
    'C15': 'R-GUARDCALLS for UniqueGuard / SharedGuard of the shared mutex; R-INV clauses V (a failing try never modified _state) and R (reader exit / first-writer arming). R-WRAPWIDTH (a counter value and the negated quantity it is compared with have the same width). R-WRAPWIDTH resolves the negation through single-definition locals. R-LOCKAPI (shared with C14) on SharedMutex: TryGuard / TryGuardShared tags, shared / exclusive lock awaiters.',
    'C16': 'R-ADDFIRST, R-CASFRESH on TryAdd. R-EVENTFORMS (Set stores the all-done sentinel, TryAdd links in front of the expected head, Wait blocks iff registered, always-suspending awaiters resume themselves when not registered, sticky / on-executor awaiters resume through Submit). R-EVENTCALLBACK (shared with C11). R-SIBLING: Done is reached only with a provably positive amount. R-WGMODE (Consume takes ownership of the cores and registers the releasing callback, Attach does not; every overload selects its mode), R-WGRESET (Reset re-arms the event and sets the counter). R-WGWAIT (Wait / WaitFor / WaitUntil answer through the event only, never on the counter alone).',
    'C17': 'D2 is type based (the engine is found whatever it is called; SetSeed stores the seed, re-seeds on every path and restarts the draw counter), D4 pointer-in-key. D2 converse (counter and engine advance together on every path of GetRandNumber; ForwardToRandCount iterates exactly the recorded count). D7 (the mutable static state of the fault layer is the reviewed set; a new static that decision code reads is reported). D7 accepts table statics regrouped into one aggregate (as many vanished entries as fields).',
    'C19': 'compare-exchange on floating T decides on the object representation (found F13); a wrapper operation built on the injected weak CAS must not decide with == / != on floating values. R-OPTABLE compares integral operations modulo 2^N (a + (0 - b) is a - b for integral T only); private helpers are judged through their users. R-APIFORM (positive compile witnesses: every std::atomic operation is well-formed on yaclib_std::atomic in both fault backends; found F15 and F16, both fixed).',
    'C20': 'probe entries for fat captures (72 B, 1 KiB), mutable lambda, function pointer / reference and lvalue functor across the step kinds. Probe value type LooseValue (move constructor not noexcept) through WhenAll / WhenAny / Join: a copy per input in Retire is an unbounded allocation; std::string members classified; vector::reserve counted as one block.',
    'C18': 'R-MODE compares every acquisition form with the set of acquire effects of the blocking lock() (each form must offer each of them and nothing else); R-ODR (inline / constexpr functions used by the wrappers are defined in the unit that uses them). R-WAKEALL (a release never wakes only one waiter of a queue on which shared acquirers park; found F12). R-SLEEPSLOT (a sleep-list slot is erased only when empty). R-TLS (thread-local pointers live in the fiber object: the proxy goes through GetTLS / SetTLS of the current fiber and keeps no file-level state besides the defaults); R-FORWARD: try_lock wrappers answer what Impl answered.',
}
for _p, _t in ADDED_RULES.items():
    CLAIMS[_p]['text'] = CLAIMS[_p]['text'].rstrip() + ' Added during the build: ' + _t

NOT_YET = {}


def main():
    props = [json.loads(l) for l in open(os.path.join(HERE, 'properties.jsonl'))]
    checks = []
    na = []
    for p in props:
        pid = p['id']
        if pid in CLAIMS:
            c = CLAIMS[pid]
            checks.append(dict(
                property_id=pid,
                quick_cmd='python3 check.py %s --tier quick' % pid,
                thorough_cmd='python3 check.py %s --tier thorough' % pid,
                evidence_file='/verif/evidence/%s.json' % pid,
                replay_cmd_template='cat {path}',
                engine='yaclint',
                level_claimed=dict(category='other', text=c['text'], design_ref='DESIGN.md section ' + c['design']),
                level_note=LEVEL_NOTE,
                technique=c['technique']))
        else:
            na.append(dict(property_id=pid, reason=NOT_YET.get(
                pid, 'behaviour quantifies over schedules/histories; the structural rules planned in DESIGN.md for '
                     'this property are not built and validated yet, so nothing is claimed (no runtime substitute)')))
    m = dict(
        version=1,
        setup_cmd='make -C /verif',
        hooks=dict(guard='YACLIB_VERIF', enable='none needed: the analysis reads the unmodified sources',
                   baseline_off_cmd='cmake --build /repo/_build && ctest --test-dir /repo/_build -j8 --timeout 900',
                   source_commits=[], add_only=True),
        engines=[dict(name='yaclint', path='/verif/tool/yaclint.cc + /verif/vlib + /verif/rules',
                      serves_properties=sorted(CLAIMS),
                      kind_free_text='LibTooling fact extractor (typed AST + clang CFG of every instantiation in five '
                                     'build configurations) and python rules over the facts; static analysis only')],
        checks=checks,
        notes='Static analysis only (see DESIGN.md). exit 2 = analysis broken (never a pass or a violation).',
        not_applicable=na)
    with open(os.path.join(HERE, 'MANIFEST.json'), 'w') as f:
        json.dump(m, f, indent=1)
    print('claimed:', sorted(CLAIMS), 'not applicable:', [x['property_id'] for x in na])


if __name__ == '__main__':
    main()
