"""C19 — yaclib_std::atomic computes exactly what std::atomic computes.   Rule family R-OPTABLE.

Decided statically (configurations KF = FIBER re-implementation + wrapper, KT = THREAD wrapper over std::atomic):
  R-OPTABLE.fiber    every method body of fiber::AtomicBase / AtomicFloatingBase<T,true> / AtomicIntegralBase<T,true> /
                     Atomic<U*> / AtomicFlag / AtomicWait is translated syntax-directedly into
                     (returned term, new stored value, value written to `expected`) over the symbols v (old value),
                     p0,p1 (arguments) and must equal the reference row of that std::atomic operation.
  R-OPTABLE.wrapper  every method of the injection wrapper (fault/detail/atomic*.hpp) forwards exactly once to the
                     same-named operation of Impl with its own parameters in order, between injection points, and
                     returns that result; compare_exchange_weak may additionally fail spuriously exactly as std allows
                     (expected = load(failure order); return false; nothing stored); compare_exchange_strong never
                     consults ShouldFailAtomicWeak.
  R-OPTABLE.alias    yaclib_std::atomic<T>/atomic_flag/fences resolve to the wrapper over the fiber implementation
                     (KF) or over std::atomic (KT); fences are no-ops only under FIBER.
Because each body is a closed term over (old value, arguments), agreement holds for all operand values and all
single-threaded operation sequences.
"""
import os
import re

from vlib import facts, symexec
from vlib.symexec import Unrecognised, norm, show

V = ('sym', 'v')
P0 = ('sym', 'p0')
P1 = ('sym', 'p1')
TRUE = ('const', 1)
FALSE = ('const', 0)


def op(o, a, b):
    return norm(('op', o, a, b))


ONE = ('const', 1)

# reference rows: name -> (returned, new stored value)   [None = no return value / unchanged]
REF = {
    'store': (None, P0),
    'operator=': (P0, P0),
    'load': (V, None),
    'exchange': (V, P0),
    'fetch_add': (V, op('+', V, P0)),
    'fetch_sub': (V, op('-', V, P0)),
    'fetch_and': (V, op('&', V, P0)),
    'fetch_or': (V, op('|', V, P0)),
    'fetch_xor': (V, op('^', V, P0)),
    'operator++pre': (op('+', V, ONE), op('+', V, ONE)),
    'operator++post': (V, op('+', V, ONE)),
    'operator--pre': (op('-', V, ONE), op('-', V, ONE)),
    'operator--post': (V, op('-', V, ONE)),
    'operator+=': (op('+', V, P0), op('+', V, P0)),
    'operator-=': (op('-', V, P0), op('-', V, P0)),
    'operator&=': (op('&', V, P0), op('&', V, P0)),
    'operator|=': (op('|', V, P0), op('|', V, P0)),
    'operator^=': (op('^', V, P0), op('^', V, P0)),
    'clear': (None, FALSE),
    'test_and_set': (V, TRUE),
    'test': (V, None),
    'is_lock_free': (TRUE, None),
    'conversion': (V, None),
}
CAS = ('compare_exchange_weak', 'compare_exchange_strong', 'CompareExchangeHelper')

FIBER_CLASSES = ('yaclib::detail::fiber::AtomicBase', 'yaclib::detail::fiber::AtomicFloatingBase',
                 'yaclib::detail::fiber::AtomicIntegralBase', 'yaclib::detail::fiber::Atomic',
                 'yaclib::detail::fiber::AtomicFlag', 'yaclib::detail::fiber::AtomicWait')
WRAP_CLASSES = ('yaclib::detail::AtomicBase', 'yaclib::detail::AtomicFloatingBase',
                'yaclib::detail::AtomicIntegralBase', 'yaclib::detail::Atomic', 'yaclib::detail::AtomicFlag',
                'yaclib::detail::AtomicWait')

ORDER_T = 'std::memory_order'
SIZEOF = {'bool': 1, 'char': 1, 'signed char': 1, 'unsigned char': 1, 'short': 2, 'unsigned short': 2, 'int': 4,
          'unsigned int': 4, 'long': 8, 'unsigned long': 8, 'long long': 8, 'unsigned long long': 8, 'float': 4,
          'double': 8, 'long double': 16}
FLOATING = ('float', 'double', 'long double')


def opname(f):
    """row name of a method, from its declaration"""
    n = f.n
    nvalue_params = len([i for i in f.params if f.locals[i]['t'] != ORDER_T])
    if n in ('operator++', 'operator--'):
        return n + ('post' if nvalue_params == 1 else 'pre')
    if n.startswith('operator ') or (n.startswith('operator') and n not in REF and n[8:9].isalpha()):
        return 'conversion'
    return n


def value_params(f):
    """parameter local-ids that are not memory orders, mapped to p0,p1…; orders mapped to o0,o1…"""
    syms = {}
    vi = oi = 0
    for i in f.params:
        if f.locals[i]['t'] == ORDER_T:
            syms[i] = 'o%d' % oi
            oi += 1
        else:
            syms[i] = 'p%d' % vi
            vi += 1
    return syms


def is_value_member(fn, n):
    return n['k'] == 'MemberExpr' and n.get('mn') == '_value'


# --------------------------------------------------------------------------------------- fiber layer

class FiberSum(symexec.Summariser):
    def __init__(self, fb, f, syms=None):
        super().__init__(fb, syms if syms is not None else value_params(f), is_value_member, FiberSum.call)

    def callee(self, n):
        return self.fb.fn.get(n.get('ck'))

    def bind(self, fn, n, p, g):
        syms = {}
        args = n['args']
        if n['k'] == 'CXXOperatorCallExpr' and g.cls and len(args) == len(g.params) + 1:
            args = args[1:]       # `Self() |= arg`: the first argument of a member operator call is the object
        for pid, a in zip(g.params, args):
            syms[pid] = self.expr(fn, a, p)
        return syms

    @staticmethod
    def call(self, fn, n, p):
        cn = n.get('cn', '')
        if cn == 'std::exchange':
            a, b = n['args']
            lv = self.lvalue(fn, a)
            if lv is None:
                raise Unrecognised('std::exchange on %s' % fn.text(a))
            old = self.read(fn, lv, p)
            self.write(fn, lv, self.expr(fn, b, p), p)
            return old
        if cn in ('memcmp', 'std::memcmp') and len(n.get('args', [])) == 3:
            # representation comparison of two whole objects: memcmp(&a, &b, sizeof(T))
            def target(a):
                m = fn.sn(a)
                if m is not None and m['k'] == 'CallExpr' and m.get('cn') in ('std::addressof', 'std::__addressof'):
                    inner = m['args'][0]
                elif m is not None and m['k'] == 'UnaryOperator' and m.get('op') == '&':
                    inner = m['ch'][0]
                else:
                    raise Unrecognised('memcmp operand %s' % fn.text(a))
                lv = self.lvalue(fn, inner)
                if lv is None:
                    raise Unrecognised('memcmp operand %s' % fn.text(a))
                return self.read(fn, lv, p)
            a, b = target(n['args'][0]), target(n['args'][1])
            size = (fn.sn(n['args'][2]) or {}).get('v')
            T = fn.cta[0] if fn.cta else None
            want = SIZEOF.get(T, 8 if T and T.endswith('*') else None)
            if size is None or (want is not None and size != want):
                raise Unrecognised('memcmp over %s bytes of a %s' % (size, T))
            return norm(('op', 'reprcmp', a, b))
        g = self.callee(n)
        if g is not None and g.clsq in FIBER_CLASSES:
            # single-path inlining (e.g. load())
            sub = FiberSum(self.fb, g, self.bind(fn, n, p, g))
            q = p.fork()
            q.returned = False
            q.ret = None
            res = sub.stmt(g, g.raw['body'], [q])
            if len(res) != 1:
                raise Unrecognised('branching callee %s used as a sub-expression' % g.qn)
            r = res[0]
            p.value, p.value_written, p.ref_writes, p.env = r.value, r.value_written, r.ref_writes, p.env
            return r.ret
        raise Unrecognised('call to %s at %s' % (cn or '?', fn.loc(n)))

    def inline_return(self, fn, i, p):
        n = fn.sn(i)
        if n['k'] not in ('CXXMemberCallExpr', 'CallExpr'):
            return None
        g = self.callee(n)
        if g is None or g.clsq not in FIBER_CLASSES:
            return None
        sub = FiberSum(self.fb, g, self.bind(fn, n, p, g))
        res = sub.stmt(g, g.raw['body'], [p.fork()])
        for r in res:
            r.returned = True
        return res


def param_types_ok(f, T):
    """value parameters have exactly the element type T (T& for the expected value of a CAS; std::ptrdiff_t for the
    arithmetic operand of a pointer atomic): any other type converts the operand on the way in"""
    ptr = T.endswith('*')
    bad = []
    for k, pid in enumerate(p for p in f.params if f.locals[p]['t'] != ORDER_T):
        t = f.locals[pid]['t']
        want = [T]
        if f.n in ('compare_exchange_weak', 'compare_exchange_strong', 'CompareExchangeHelper') and k == 0:
            want = [T + ' &', T + '&']
        elif ptr and f.n in ('fetch_add', 'fetch_sub', 'operator+=', 'operator-='):
            want = ['long']
        elif f.n in ('operator++', 'operator--'):
            want = ['int']
        if t not in want:
            bad.append((f.locals[pid]['n'], t, want[0]))
    return bad


def check_fiber_method(ctx, fb, f, rule):
    name = opname(f)
    key = '%s::%s%s' % (f.clsq, name, ' volatile' if 'volatile' in f.flags else '')
    if 'dtor' not in f.flags and f.cta and not (f.clsq.endswith('AtomicFlag')):
        bad = param_types_ok(f, f.cta[0])
        if bad:
            ctx.instance(rule, key, None)
            ctx.report(rule, key, f.where, 'parameter %s of %s has type %s; the operation on atomic<%s> takes %s: the '
                       'operand is converted (truncated / rounded) on the way in' % (bad[0][0], f.n, bad[0][1],
                                                                                      f.cta[0], bad[0][2]),
                       'instantiation: ' + f.full)
            return
    try:
        if 'ctor' in f.flags:
            # AtomicWait(T desired): _value(desired)
            if len(f.params) == 1:
                ctx.instance(rule, key + '(ctor)')
                inits = [x for x in f.raw.get('inits', []) if facts.canon_field(f.S[x['what']]).endswith('::_value')]
                ok = False
                if inits:
                    s = FiberSum(fb, f)
                    ok = s.expr(f, inits[0]['e'], symexec.Path()) == P0
                if not ok:
                    ctx.report(rule, key + '(ctor)', f.where, 'converting constructor does not initialise the stored '
                               'value with its argument')
            return
        if name not in REF and name not in CAS:
            rec = fb.records.get(f.cls)
            acc = [m['acc'] for m in (rec.methods if rec else []) if m['key'] == f.key]
            if acc and acc[0] != 0:
                return  # a private / protected helper: judged through the operations that inline it
            ctx.broken('fiber atomic method %s (%s) has no reference row in the operation table' % (f.full, f.where))
        s = FiberSum(fb, f)
        paths = s.run(f)
    except Unrecognised as e:
        ctx.broken('R-OPTABLE: body of %s (%s) is outside the recognised normal forms: %s' % (f.full, f.where, e))
    ctx.instance(rule, key, dict(method=f.full, where=f.where,
                                 summary=[dict(cond=[show(c) for c in p.cond], ret=show(p.ret),
                                               new=show(p.value) if p.value_written else '-',
                                               expected={k: show(v) for k, v in p.ref_writes.items()})
                                          for p in paths]))
    if name in CAS:
        # rows: if v == p0 then (true, new=p1, expected unchanged) else (false, unchanged, expected := v)
        good = len(paths) == 2
        floating = bool(f.cta) and f.cta[0] in FLOATING
        value_eq_used = False
        if good:
            # std::atomic compares object representations; for integral / pointer / bool the value comparison is the
            # same thing, for floating point it is not (-0.0 == +0.0 but the bits differ; NaN != NaN, same bits)
            eq_repr = op('==', op('reprcmp', V, P0), ('const', 0))
            eq_val = op('==', V, P0)
            t = e = []
            for eq in (eq_repr, eq_val):
                t = [p for p in paths if p.cond == [eq]]
                e = [p for p in paths if p.cond == [('not', eq)]]
                if len(t) == 1 and len(e) == 1:
                    value_eq_used = eq is eq_val
                    break
            good = len(t) == 1 and len(e) == 1
            if good:
                t, e = t[0], e[0]
                good = (t.ret == TRUE and t.value_written and t.value == P1 and not t.ref_writes and
                        e.ret == FALSE and (not e.value_written or e.value == V) and e.ref_writes == {'p0': V})
        if good and floating and value_eq_used:
            ctx.report(rule, key + ' (representation)', f.where, 'compare-exchange on atomic<%s> decides with operator== '
                       'where std::atomic compares object representations: stored +0.0 / expected -0.0 succeeds (std '
                       'fails), stored NaN / expected the same NaN fails (std succeeds)' % f.cta[0],
                       'instantiation: ' + f.full)
            return
        if not good:
            ctx.report(rule, key, f.where, 'compare-exchange does not follow the std row '
                       '[v==e ? (true, store d) : (false, e:=v)]',
                       'summary: ' + '; '.join('if %s: ret=%s new=%s expected=%s' % (
                           [show(c) for c in p.cond], show(p.ret), show(p.value) if p.value_written else '-',
                           {k: show(v) for k, v in p.ref_writes.items()}) for p in paths))
        return
    ret, new = REF[name]
    floating = bool(f.cta) and f.cta[0] in FLOATING

    def ring(t):
        """identities of modular (two's complement) arithmetic, valid for integral and pointer T only:
        a + (0 - b) == a - b.  For floating T they are NOT applied: (-0.0) + (0 - (+0.0)) is +0.0, (-0.0) - (+0.0) is -0.0"""
        if floating or not (isinstance(t, tuple) and t and t[0] == 'op'):
            return t
        _, o, a, b = t
        a, b = ring(a), ring(b)
        if o == '+':
            for x, y in ((a, b), (b, a)):
                if isinstance(y, tuple) and y[0] == 'op' and y[1] == '-' and y[2] == ('const', 0):
                    return norm(('op', '-', x, y[3]))
        return norm(('op', o, a, b))
    if len(paths) != 1:
        ctx.report(rule, key, f.where, 'operation has %d paths, reference row is unconditional' % len(paths))
        return
    p = paths[0]
    got_new = ring(p.value) if p.value_written and p.value != V else None
    if f.ret == 'void':
        ret_ok = True
    else:
        ret_ok = ring(p.ret) == ret
    if not ret_ok or got_new != new or p.ref_writes:
        ctx.report(rule, key, f.where,
                   '%s computes (returns %s, stores %s) but std::atomic::%s is (returns %s, stores %s)' % (
                       f.n, show(p.ret), show(got_new), name, show(ret), show(new)),
                   'instantiation: %s' % f.full)


# --------------------------------------------------------------------------------------- wrapper layer

class WrapSum(symexec.Summariser):
    def __init__(self, fb, f, impl_prefixes):
        super().__init__(fb, value_params(f), lambda fn, n: False, WrapSum.call)
        self.impl_prefixes = impl_prefixes

    @staticmethod
    def call(self, fn, n, p):
        cn = n.get('cn', '')
        if cn == 'yaclib::InjectFault':
            p.effects.append('inject')
            return ('const', 'void')
        if cn == 'yaclib::detail::ShouldFailAtomicWeak':
            p.effects.append('spurious?')
            return ('sym', 'spurious')
        last = cn.split('::')[-1]
        cr = n.get('cr', '')
        own = cr.startswith('yaclib::detail::Atomic') and not cr.startswith('yaclib::detail::fiber')
        if n['k'] == 'CXXOperatorCallExpr':
            args = n['args'][1:]
            if last in ('operator++', 'operator--'):
                last += 'post' if len(args) == 1 else 'pre'
                args = []
            obj = fn.sn(n['args'][0])
        elif n['k'] == 'CXXMemberCallExpr':
            args = n['args']
            obj = fn.sn(n['obj'])
        else:
            raise Unrecognised('call to %s at %s' % (cn or '?', fn.loc(n)))
        # the object must be *this (possibly cast to Impl)
        while obj is not None and obj['k'] in ('UnaryOperator', 'CXXStaticCastExpr', 'ImplicitCastExpr',
                                                'ParenExpr', 'CXXConstCastExpr'):
            obj = fn.sn(obj['ch'][0])
        if obj is None or obj['k'] != 'CXXThisExpr':
            raise Unrecognised('forwarded call on an object other than *this at %s' % fn.loc(n))
        if not own and not any(cr.startswith(x) for x in self.impl_prefixes):
            raise Unrecognised('call to %s (record %s) is neither Impl nor the wrapper at %s' % (cn, cr, fn.loc(n)))
        terms = tuple(self.expr(fn, a, p) for a in args)
        t = ('fwd', last, terms)
        p.effects.append(('own' if own else 'impl', last, terms))
        return t


def check_wrapper_method(ctx, fb, f, rule, impl_prefixes):
    name = opname(f)
    key = '%s::%s%s' % (f.clsq, name, ' volatile' if 'volatile' in f.flags else '')
    if 'ctor' in f.flags or 'dtor' in f.flags:
        return
    known = name in REF or name in CAS or name in ('wait', 'notify_one', 'notify_all', 'is_always_lock_free')
    # only compare_exchange_weak may consult the spurious-failure source — directly or through any other member of
    # the wrapper (a strong CAS built from the wrapper's own weak CAS fails spuriously under injection)
    if name != 'compare_exchange_weak':
        def reaches(g, depth, seen):
            for c in g.calls():
                if c['cn'] == 'yaclib::detail::ShouldFailAtomicWeak':
                    return [g.n]
                h = fb.fn.get(c.get('ck'))
                if h is not None and h.cfg is not None and h.clsq in WRAP_CLASSES and depth < 3 and h.key not in seen:
                    seen.add(h.key)
                    r = reaches(h, depth + 1, seen)
                    if r:
                        return [g.n] + r
            return None
        chain = reaches(f, 0, {f.key})
        T = f.cta[1] if len(f.cta) >= 2 else None
        if chain and known and T in FLOATING:
            # an emulation of this operation on top of the weak CAS decides "did the value change" somewhere: with
            # operator== / != on floating operands that is not what std::atomic does (object representation)
            def float_compares(g, depth, seen):
                out = []
                for n in g.own_nodes():
                    if n['k'] == 'BinaryOperator' and n.get('op') in ('==', '!='):
                        ts = [(g.sn(c) or {}).get('t', '').replace('const ', '').replace('volatile ', '').strip()
                              for c in n['ch']]
                        if all(t == T for t in ts):
                            out.append(g.loc(n))
                for c in g.calls():
                    h = fb.fn.get(c.get('ck'))
                    if h is not None and h.cfg is not None and h.clsq in WRAP_CLASSES and depth < 3 and \
                            h.key not in seen:
                        seen.add(h.key)
                        out += float_compares(h, depth + 1, seen)
                return out
            cmp_sites = float_compares(f, 0, {f.key})
            if cmp_sites:
                ctx.instance(rule, key, None)
                ctx.report(rule, key + ' (representation)', cmp_sites[0], '%s on atomic<%s> is built on the injected weak '
                           'CAS (%s) and decides with operator== / != on %s values whether the stored value changed: '
                           'std::atomic compares object representations (+0.0 / -0.0: a real failure is retried and '
                           'succeeds; NaN: an injected failure is reported as a real one — the strong CAS fails '
                           'spuriously)' % (f.n, T, ' -> '.join(chain), T), 'instantiation: ' + f.full)
                return
    if not known:
        return  # a private helper: judged through the operations that use it
    if len(f.cta) >= 2 and not f.clsq.endswith('AtomicFlag'):
        bad = param_types_ok(f, f.cta[1])
        if bad:
            ctx.instance(rule, key, None)
            ctx.report(rule, key, f.where, 'parameter %s of wrapper %s has type %s instead of %s' % (
                bad[0][0], f.n, bad[0][1], bad[0][2]), 'instantiation: ' + f.full)
            return
    try:
        s = WrapSum(fb, f, impl_prefixes)
        paths = s.run(f)
    except Unrecognised as e:
        ctx.broken('R-OPTABLE: wrapper body of %s (%s) is outside the recognised forms: %s' % (f.full, f.where, e))
    ctx.instance(rule, key, dict(method=f.full, where=f.where,
                                 paths=[dict(cond=[show(c) for c in p.cond], effects=[str(e) for e in p.effects],
                                             ret=show(p.ret)) for p in paths]))
    syms = value_params(f)
    allparams = tuple(('sym', syms[i]) for i in f.params)
    orders = [('sym', syms[i]) for i in f.params if syms[i].startswith('o')]

    def forwards(p, nm):
        """path p = inject; Impl::nm(own params in order); inject; return that"""
        fw = [e for e in p.effects if e != 'inject' and e != 'spurious?']
        if len(fw) != 1 or fw[0][0] != 'impl':
            return 'expected exactly one forwarded Impl call, found %s' % (fw,)
        _, last, terms = fw[0]
        if last != nm:
            return 'forwards to Impl::%s instead of Impl::%s' % (last, nm)
        want = () if nm.endswith('pre') or nm.endswith('post') else allparams
        if terms != want:
            return 'forwards arguments (%s), its own parameters are (%s)' % (
                ', '.join(show(t) for t in terms), ', '.join(show(t) for t in want))
        idx = p.effects.index(fw[0])
        if 'inject' not in p.effects[:idx] or 'inject' not in p.effects[idx + 1:]:
            return 'the forwarded call is not bracketed by InjectFault() calls'
        if f.ret != 'void' and p.ret != ('fwd', last, terms):
            return 'returns %s instead of the forwarded result' % show(p.ret)
        if p.ref_writes:
            return 'writes through a reference parameter besides forwarding'
        return None

    if name == 'conversion':
        ok = len(paths) == 1 and paths[0].ret is not None and paths[0].ret[0] == 'fwd' and paths[0].ret[1] == 'load'
        if not ok:
            ctx.report(rule, key, f.where, 'conversion operator does not return load()')
        return
    if name == 'compare_exchange_weak':
        sp = ('sym', 'spurious')
        t = [p for p in paths if p.cond == [sp]]
        e = [p for p in paths if p.cond == [('not', sp)]]
        if len(paths) == 1 and not paths[0].cond:
            e = paths  # no spurious failure at all: allowed (weak may be strong)
            t = []
        elif len(paths) != 2 or len(t) != 1 or len(e) != 1:
            ctx.report(rule, key, f.where, 'unexpected control flow in compare_exchange_weak wrapper')
            return
        for p in t:
            fail_order = orders[-1] if orders else None
            loads = [x for x in p.effects if x not in ('inject', 'spurious?')]
            good = (p.ret == FALSE and len(loads) == 1 and loads[0][1] == 'load' and
                    list(p.ref_writes.keys()) == ['p0'] and p.ref_writes['p0'] == ('fwd', 'load', loads[0][2]) and
                    (loads[0][2] == () or loads[0][2] == (fail_order,) or
                     (len(loads[0][2]) == 1 and loads[0][2][0][0] == 'const')))
            if not good:
                ctx.report(rule, key, f.where,
                           'injected spurious failure is not {expected = load(failure order); return false}',
                           'path: effects=%s ret=%s writes=%s' % (p.effects, show(p.ret),
                                                                   {k: show(v) for k, v in p.ref_writes.items()}))
        msg = forwards(e[0], name)
        if msg:
            ctx.report(rule, key, f.where, msg)
        return
    if len(paths) != 1:
        ctx.report(rule, key, f.where, 'wrapper has %d paths; expected straight-line forwarding' % len(paths))
        return
    p = paths[0]
    if 'spurious?' in p.effects:
        ctx.report(rule, key, f.where, '%s consults ShouldFailAtomicWeak (only compare_exchange_weak may fail '
                   'spuriously)' % f.n)
        return
    msg = forwards(p, name)
    if msg:
        ctx.report(rule, key, f.where, msg)


WITNESSES = {
    1: 'assignment from T (a = x)',
    2: 'assignment from T on a volatile object',
    3: 'pre/post increment and decrement on a volatile integral atomic',
    4: 'pre/post increment and decrement on a volatile pointer atomic',
    5: 'compare_exchange_weak / strong on a volatile object',
    6: 'fetch_add / fetch_sub / += / -= on a volatile object',
    7: 'fetch_and / or / xor and &= |= ^= on a volatile object',
    8: 'load / store / exchange / conversion on a volatile object',
    9: 'pre/post increment and decrement (integral and pointer)',
    10: 'conversion to T',
}


def check_api_witnesses(ctx):
    """R-APIFORM: positive compile witnesses (witness/atomic_api.cpp, one operation per WITNESS value, -fsyntax-only
    with each backend's own flags).  An operation whose body is ill-formed cannot behave like std::atomic's — and is
    invisible to R-OPTABLE, which only sees bodies that were instantiated."""
    import subprocess
    from concurrent.futures import ThreadPoolExecutor
    rule = ctx.rule('R-APIFORM', 'every operation std::atomic<T> offers is well-formed on yaclib_std::atomic<T> in both '
                    'fault backends (positive compile witnesses, one per operation)', minimum=20)
    wit = os.path.join(facts.VERIF, 'witness', 'atomic_api.cpp')
    jobs = [(cfg, k) for cfg in ('KT', 'KF') for k in [0] + sorted(WITNESSES)]

    def compile_one(job):
        cfg, k = job
        cmd = ['clang++', '-fsyntax-only', '-Wno-everything', wit, '-DWITNESS=%d' % k] + facts.flags(cfg, ctx.root)
        p = subprocess.run(cmd, stdout=subprocess.PIPE, stderr=subprocess.PIPE, text=True)
        return cfg, k, p.returncode, p.stderr
    with ThreadPoolExecutor(max_workers=8) as ex:
        results = list(ex.map(compile_one, jobs))
    for cfg, k, rc, err in results:
        backend = 'THREAD' if cfg == 'KT' else 'FIBER'
        if k == 0:
            if rc != 0:
                ctx.broken('R-APIFORM: the control witness does not compile under %s: %s' % (backend, err[-600:]))
            continue
        key = 'R-APIFORM %s: %s' % (backend, WITNESSES[k])
        ctx.instance(rule, key, dict(compiles=rc == 0))
        if rc != 0:
            first = next((l for l in err.splitlines() if 'error:' in l), err[-200:])
            ctx.report(rule, key, 'witness/atomic_api.cpp (WITNESS=%d)' % k, 'yaclib_std::atomic<T> under the %s backend: '
                       '%s is ill-formed (std::atomic<T> supports it): %s' % (backend, WITNESSES[k], first.strip()[:300]))


def run(ctx):
    # the witnesses first: an ill-formed operation also stops the probe from parsing, and must still be reported
    ctx.guard(lambda: check_api_witnesses(ctx))
    fbs = ctx.guard(lambda: ctx.facts(['KF', 'KT'], kinds=('probe',), only=r'p_atomic\.cpp$', tests=r'/test/'))
    if fbs is None:
        return
    rf = ctx.rule('R-OPTABLE.fiber', 'summary (returned, stored, expected) of each fiber atomic method body == '
                  'reference row of the std::atomic operation table', minimum=60)
    rw = ctx.rule('R-OPTABLE.wrapper', 'each wrapper method forwards once to the same-named Impl operation with its '
                  'own arguments, between injection points; weak CAS may only fail as std allows; strong CAS never '
                  'consults the spurious-failure source', minimum=100)
    ra = ctx.rule('R-OPTABLE.alias', 'yaclib_std::atomic/atomic_flag/fences resolve to wrapper<fiber impl> (FIBER), '
                  'wrapper<std::atomic> (THREAD); fences empty only under FIBER', minimum=8)
    ctx.assume('T is a scalar type as listed in the property (built-in arithmetic, value-preserving conversions)')
    ctx.assume('std::atomic itself is the reference and is not analysed')

    kf, kt = fbs['KF'], fbs['KT']
    rodr = ctx.rule('R-ODR', 'every inline / constexpr library function the atomic wrappers use is defined in the unit '
                    'that uses it', minimum=2)
    from rules import lib_core
    for _fb in (kf, kt):
        ctx.guard(lambda: lib_core.check_undefined_inline(ctx, _fb, rodr))
    # ---------------- fiber bodies
    fiber_fns = [f for f in kf.fn.values() if f.clsq in FIBER_CLASSES]
    if not fiber_fns:
        ctx.broken('no fiber atomic method instantiated by the probe')
    for f in sorted(fiber_fns, key=lambda f: (f.file, f.line, f.full)):
        ctx.guard(lambda: check_fiber_method(ctx, kf, f, rf))
    # ---------------- wrappers, both backends
    for cfg, fb, impl in (('KF', kf, ('yaclib::detail::fiber::',)), ('KT', kt, ('std::',))):
        ws = [f for f in fb.fn.values() if f.clsq in WRAP_CLASSES]
        if not ws:
            ctx.broken('no wrapper method instantiated in %s' % cfg)
        for f in sorted(ws, key=lambda f: (f.file, f.line, f.full)):
            ctx.guard(lambda: check_wrapper_method(ctx, fb, f, rw, impl))
    # ---------------- aliases and fences
    for cfg, fb, want, fence_std in (('KF', kf, 'yaclib::detail::Atomic<yaclib::detail::fiber::Atomic<%s>, %s>', False),
                                     ('KT', kt, 'yaclib::detail::Atomic<std::atomic<%s>, %s>', True)):
        for f in fb.find(r'^probe::(Integral|Floating|Bool|Pointer|Flag)$'):
            for l in f.locals:
                if l['n'] == 'a' or l['n'] == 'f':
                    key = '%s:%s %s' % (cfg, f.full, l['n'])
                    ctx.instance(ra, key, dict(cfg=cfg, var=f.full + '::' + l['n'], type=l['t']))
                    if f.n == 'Flag':
                        exp = ('yaclib::detail::AtomicFlag<yaclib::detail::fiber::AtomicFlag>' if cfg == 'KF'
                               else 'yaclib::detail::AtomicFlag<std::atomic_flag>')
                        ok = l['t'] == exp
                    else:
                        m = re.match(r'yaclib::detail::Atomic<(.*)>$', l['t'])
                        ok = bool(m)
                        if ok:
                            T = l['t'].rsplit(', ', 1)[1][:-1]
                            ok = l['t'] == want % (T, T)
                    if not ok:
                        ctx.report(ra, key, f.where, 'yaclib_std type resolves to %s' % l['t'])
        for f in fb.find(r'^probe::Fences$'):
            for c in f.calls(r'atomic_(thread|signal)_fence$'):
                key = '%s:%s' % (cfg, c['cn'])
                ctx.instance(ra, key, dict(cfg=cfg, fence=c['cn']))
                if fence_std:
                    if not c['cn'].startswith('std::'):
                        ctx.report(ra, key, f.loc(c), 'THREAD backend must use the real std fence, resolves to %s' %
                                   c['cn'])
                else:
                    g = fb.fn.get(c['ck'])
                    if g is None or not g.qn.startswith('yaclib_std::'):
                        ctx.report(ra, key, f.loc(c), 'FIBER fence resolves to %s' % c['cn'])
                    elif [n for n in g.nodes if n['k'] not in ('CompoundStmt',)]:
                        ctx.report(ra, key, g.where, 'FIBER fence is expected to be a no-op (single carrier thread)')
