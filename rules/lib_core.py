"""Rules over the Future/Promise core (C01, C06, C03 share them).

  R-PUBLISH     a Store of the result precedes every SetResult on every path of the publishing functions
  R-NODISCARD   results of SetCallback*/SetInline*/SetResult*/Reset*/TryAdd/SubEqual/TryLock*/AwaitLock* are used
                (a Transfer reaches Loop / return / resume; a bool reaches a branch); accepted discards are listed
  R-DISPATCH.inline  SetInlineImpl / CallInline / SetResultImpl<unique>: the continuation is run inline exactly on
                the not-registered (resp. callback-present) edge, once
  R-DTOR        ~Promise / ~SharedPromise set StopTag on the Valid() edge; ~FutureBase detaches on the Valid() edge;
                Detach attaches the Drop continuation through the CAS path
  R-CONNECT     Connect(...): registered => both handles released (no second completion); not registered =>
                the promise is Set from the future's result
  R-SHAREDWALK  SetResultImpl<Shared>: every list node is run exactly once with its next link read first; exactly
                kSharedRefNoFuture DecRefs on every path; the promise reference is dropped before the last callback
"""
from vlib import pathwalk

NODISCARD = ('SetCallback', 'SetCallbackImpl', 'SetInline', 'SetInlineImpl', 'SetResult', 'SetResultImpl', 'Reset',
             'ResetImpl', 'TryAdd', 'SubEqual', 'TryLock', 'TryLockAwait', 'TryLockShared', 'TryLockSharedAwait',
             'TryUnlockAwait', 'AwaitLock', 'AwaitLockShared')
ACCEPTED_DISCARDS = {
    'yaclib::SharedPromise::Set': 'SetResult on a shared core always returns Noop (all callbacks were run in the walk)',
    'yaclib::Connect': 'Connect(SharedPromise&, …): the holder of the unfulfilled primary promise cannot observe '
                       'kResult, so registration cannot fail',
}
SKIP_WRAPPERS = ('ExprWithCleanups', 'ImplicitCastExpr', 'ParenExpr', 'MaterializeTemporaryExpr',
                 'CXXBindTemporaryExpr', 'ConstantExpr')


class CoreWalker(pathwalk.Walker):
    loop_bound = 1
    max_paths = 20000

    def __init__(self, fb, inline_names=()):
        super().__init__(fb)
        self.inline_names = inline_names

    def inline(self, fn, n, st):
        g = self.fb.fn.get(n.get('ck'))
        if g is not None and g.cfg is not None and st.depth < 3 and g.qn in self.inline_names:
            return g
        return super().inline(fn, n, st)  # opt-in: extracted same-class helpers (inline_helpers = True)

    def on_inline(self, fn, n, g, st):
        st.events.append(('call', g.qn, n['i'], fn.loc(n)))

    def on_node(self, fn, n, st):
        k = n['k']
        if k in ('CXXMemberCallExpr', 'CallExpr', 'CXXOperatorCallExpr', 'CXXConstructExpr',
                 'CXXTemporaryObjectExpr') and 'cn' in n:
            st.events.append(('call', n['cn'], n['i'], fn.loc(n)))

    def on_dtor(self, fn, e, st):
        cn = fn.S[e['cn']] if isinstance(e.get('cn'), int) else e.get('cn')
        if cn:
            from vlib.facts import strip_targs
            st.events.append(('dtor', strip_targs(cn), e.get('var')))

    def on_edge(self, fn, ci, taken, st):
        c = fn.sn(ci)
        neg = False
        while c['k'] == 'UnaryOperator' and c['op'] == '!':
            neg = not neg
            c = fn.sn(c['ch'][0])
        truth = taken != neg
        cn = c.get('cn', '')
        last = cn.split('::')[-1]
        if last in ('SetCallback', 'SetCallbackImpl'):
            st.events.append(('registered', truth))
        elif last == 'Valid' or (c['k'] == 'CXXMemberCallExpr' and last == 'operator bool'):
            st.events.append(('valid', truth))
        elif c['k'] == 'BinaryOperator' and c['op'] in ('!=', '=='):
            a, b = fn.sn(c['ch'][0]), fn.sn(c['ch'][1])
            if b.get('v') == 0 or a.get('v') == 0:
                st.events.append(('nonzero', truth == (c['op'] == '!='), fn.text(c['i'])))
            elif b.get('v') is not None:
                # normalised to an equality: ('cmp', '==', value, does-it-equal, text)
                st.events.append(('cmp', '==', b['v'], truth == (c['op'] == '=='), fn.text(c['ch'][0])))
        elif c['k'] == 'BinaryOperator' and c['op'] in ('<', '>', '<=', '>='):
            b = fn.sn(c['ch'][1])
            if b.get('v') is not None:
                st.events.append(('rel', c['op'], b['v'], truth, fn.text(c['ch'][0])))
        elif c['k'] == 'DeclRefExpr' or c['k'] == 'ImplicitCastExpr':
            st.events.append(('nonzero', truth, fn.text(c['i'])))


def with_helpers(fb, f, depth=2):
    """f and the non-virtual member functions of its own class (and file-local free functions of the same file) it
    calls, transitively up to `depth`: an extracted helper is part of the function for the structural rules"""
    out = [f]
    seen = {f.key}
    work = [(f, depth)]
    while work:
        g, d = work.pop()
        if d <= 0:
            continue
        for n in g.own_nodes():
            h = fb.fn.get(n.get('ck'))
            if h is None or h.key in seen or h.cfg is None:
                continue
            same_cls = h.cls and h.cls == f.cls and 'virtual' not in h.flags
            file_local = not h.cls and h.file == f.file and '(anonymous namespace)' in h.qn
            if same_cls or file_local:
                seen.add(h.key)
                out.append(h)
                work.append((h, d - 1))
    return out


def calls_of(ev, *names):
    return [e for e in ev if e[0] == 'call' and e[1].split('::')[-1] in names]


# ------------------------------------------------------------------------------------------------ R-PUBLISH
PUBLISH_EXEMPT_CLASS = {
    'yaclib::detail::ReadyCore': 'the result is stored by the ReadyCore constructor (any member, also extracted helpers)',
}
PUBLISH_EXEMPT = {
    'yaclib::detail::ReadyCore::Call': 'the result is stored by the ReadyCore constructor',
    'yaclib::detail::ReadyCore::Here': 'the result is stored by the ReadyCore constructor',
    'yaclib::detail::ReadyCore::Next': 'the result is stored by the ReadyCore constructor',
    'yaclib::detail::Destroy::await_suspend': 'final_suspend: return_value / unhandled_exception stored the result',
    'yaclib::detail::UniqueCore::SetResult': 'forwarder', 'yaclib::detail::SharedCore::SetResult': 'forwarder',
    'yaclib::detail::NoResultCore::SetResult': 'forwarder', 'yaclib::detail::UniqueHandle::SetResult': 'forwarder',
}


def check_publish(ctx, fb, rule):
    n = 0
    for f in fb.fn.values():
        if f.cfg is None or not f.qn.startswith('yaclib::'):
            continue
        pubs = [c for c in f.calls() if c['cn'].split('::')[-1] in ('SetResult', 'SetResultImpl')]
        if not pubs or f.qn in PUBLISH_EXEMPT or f.clsq in PUBLISH_EXEMPT_CLASS:
            continue
        if f.n in ('SetResult', 'SetResultImpl'):
            continue
        n += 1
        key = 'R-PUBLISH ' + f.qn
        res = CoreWalker(fb).run(f)
        ctx.instance(rule, key + ' :: ' + f.full[:120], dict(function=f.full[:200], paths=len(res)))
        for st, _ in res:
            ev = st.events
            for i, e in enumerate(ev):
                if e[0] == 'call' and e[1].split('::')[-1] in ('SetResult', 'SetResultImpl'):
                    stores = [x for x in ev[:i] if x[0] == 'call' and x[1].split('::')[-1] == 'Store']
                    if not stores:
                        ctx.report(rule, key, e[3], 'the core is published (SetResult) on a path on which no result '
                                   'was stored first: an observer reads unset or torn storage',
                                   'function: ' + f.full[:300])
                        break
            else:
                continue
            break
    # the exempt sites rely on a Store elsewhere: check it is there
    for qn, fld in (('yaclib::detail::ReadyCore::ReadyCore', 'ctor'), ('yaclib::detail::PromiseType::return_value', ''),
                    ('yaclib::detail::PromiseType::unhandled_exception', '')):
        fs = [f for f in fb.by_qn(qn)]
        for f in fs:
            key = 'R-PUBLISH (store site) ' + qn
            ctx.instance(rule, key + ' :: ' + f.full[:120], None)
            if not any(c['cn'].split('::')[-1] == 'Store' for c in f.calls()):
                ctx.report(rule, key, f.where, '%s no longer stores the result that a later SetResult publishes' % qn)
    return n


# ------------------------------------------------------------------------------------------------ R-NODISCARD
def check_nodiscard(ctx, fb, rule, scope):
    n = 0
    for f in fb.fn.values():
        if not f.qn.startswith('yaclib::') or not scope(f):
            continue
        fg = None
        for c in f.own_nodes():
            if c['k'] not in ('CXXMemberCallExpr', 'CallExpr') or 'cn' not in c:
                continue
            last = c['cn'].split('::')[-1]
            if last not in NODISCARD or not c['cn'].startswith('yaclib::'):
                continue
            if c.get('t') == 'void':
                continue
            n += 1
            key = 'R-NODISCARD %s in %s' % (last, f.qn)
            ctx.instance(rule, key, None)
            par = f.parents.get(c['i'])
            while par is not None and f.nodes[par]['k'] in SKIP_WRAPPERS:
                par = f.parents.get(par)
            pk = f.nodes[par] if par is not None else None
            discarded = False
            if pk is None or pk['k'] in ('CompoundStmt',):
                discarded = True
            elif pk['k'] in ('CStyleCastExpr', 'CXXFunctionalCastExpr', 'CXXStaticCastExpr') and pk.get('t') == 'void':
                discarded = True
            elif pk['k'] == 'CXXOperatorCallExpr' and pk.get('op') == '=' and 'ignore' in f.text(pk['args'][0]):
                discarded = True
            elif pk['k'] in ('IfStmt', 'WhileStmt', 'ForStmt', 'DoStmt') and pk.get('cond') != c['i'] and \
                    f.strip(pk.get('cond', -1)) != c['i']:
                # the call is the *body* of a control statement, not its condition
                discarded = c['i'] in (pk.get('then'), pk.get('else'), pk.get('body'))
            if discarded and f.qn not in ACCEPTED_DISCARDS:
                ctx.report(rule, key, f.loc(c), 'the result of %s is dropped: it carries the continuation to run / the '
                           'outcome of the race (a lost completion or an unnoticed failed registration)' % last,
                           'function: ' + f.full[:300])
            elif discarded:
                ctx.assume('R-NODISCARD accepted discard in %s — %s' % (f.qn, ACCEPTED_DISCARDS[f.qn]))
    return n


# ------------------------------------------------------------------------------------------------ dispatch shape
def check_inline_dispatch(ctx, fb, rule):
    # SetInlineImpl
    fs = fb.by_qn('yaclib::detail::BaseCore::SetInlineImpl')
    if not fs:
        ctx.broken('BaseCore::SetInlineImpl not found')
    for f in fs:
        key = 'R-DISPATCH.inline BaseCore::SetInlineImpl'
        res = CoreWalker(fb).run(f)
        ctx.instance(rule, key + ' <%s>' % ','.join(f.fta), dict(function=f.full, paths=len(res)))
        for st, rv in res:
            reg = [e for e in st.events if e[0] == 'registered']
            steps = calls_of(st.events, 'Step')
            if not reg:
                ctx.report(rule, key, f.where, 'the registration outcome is not tested')
                break
            if reg[-1][1] is False and len(steps) != 1:
                ctx.report(rule, key, f.where, 'the result was already present but the continuation is not run inline '
                           '(lost completion)')
                break
            if reg[-1][1] is True and steps:
                ctx.report(rule, key, f.where, 'the continuation was registered AND is run inline (delivered twice)')
                break
    # CallInline
    fs = fb.by_qn('yaclib::detail::UniqueCore::CallInline')
    if not fs:
        ctx.broken('UniqueCore::CallInline not instantiated')
    for f in fs:
        key = 'R-DISPATCH.inline UniqueCore::CallInline'
        res = CoreWalker(fb).run(f)
        ctx.instance(rule, key + ' :: ' + f.cls[:100], None)
        for st, rv in res:
            reg = [e for e in st.events if e[0] == 'registered']
            here = calls_of(st.events, 'Here')
            if not reg or (reg[-1][1] is False) != (len(here) == 1) or len(here) > 1:
                ctx.report(rule, key, f.where, 'CallInline must call Here exactly on the not-registered edge')
                break
    # SetResultImpl unique
    fs = [f for f in fb.by_qn('yaclib::detail::BaseCore::SetResultImpl') if f.fta and f.fta[-1] in ('false', '0')]
    if not fs:
        ctx.broken('BaseCore::SetResultImpl<·,false> not found')
    for f in fs:
        key = 'R-DISPATCH.inline BaseCore::SetResultImpl<unique>'
        res = CoreWalker(fb).run(f)
        ctx.instance(rule, key + ' <%s>' % ','.join(f.fta), None)
        for st, rv in res:
            nz = [e for e in st.events if e[0] == 'nonzero']
            steps = calls_of(st.events, 'Step')
            if not nz:
                ctx.report(rule, key, f.where, 'the replaced word is not tested for a registered continuation')
                break
            if nz[-1][1] != (len(steps) == 1) or len(steps) > 1:
                ctx.report(rule, key, f.where, 'the registered continuation must be dispatched exactly when the '
                           'replaced word was not empty')
                break


# ------------------------------------------------------------------------------------------------ destructors
def check_dtors(ctx, fb, rule):
    for qn, want, what in (('yaclib::Promise::~Promise', 'Set', 'StopTag'),
                           ('yaclib::SharedPromise::~SharedPromise', 'Set', 'StopTag'),
                           ('yaclib::FutureBase::~FutureBase', 'Detach', None),
                           ('yaclib::Task::~Task', 'Cancel', None)):
        fs = fb.by_qn(qn)
        if not fs:
            if 'Shared' in qn or 'Task' in qn:
                continue
            ctx.broken('%s not instantiated' % qn)
        for f in fs:
            key = 'R-DTOR ' + qn
            res = CoreWalker(fb).run(f)
            ctx.instance(rule, key + ' :: ' + f.cls[:100], None)
            for st, _ in res:
                valid = [e for e in st.events if e[0] == 'valid']
                acts = calls_of(st.events, want)
                is_valid = bool(valid) and all(v[1] for v in valid if True) and valid[0][1]
                if not valid:
                    ctx.report(rule, key, f.where, 'the destructor does not test Valid()')
                    break
                if valid[0][1] is True and qn != 'yaclib::Task::~Task' and len(acts) != 1:
                    ctx.report(rule, key, f.where, 'a valid handle is destroyed without %s (%s): the other side never '
                               'completes / the core leaks' % (want, what or 'release'))
                    break
                if valid[0][1] is False and acts:
                    ctx.report(rule, key, f.where, 'an invalid (moved-from) handle must not %s' % want)
                    break
            if what:
                sets = [c for c in f.calls() if c['cn'].endswith('::' + want)]
                if sets and not any(what in f.nodes[d].get('t', '') for d in f.descendants(sets[0]['i'])):
                    ctx.report(rule, key, f.loc(sets[0]), 'an unfulfilled promise must be completed with %s' % what)
    # Detach goes through the CAS path
    for f in fb.by_qn('yaclib::FutureBase::Detach'):
        if f.params:
            continue
        key = 'R-DTOR FutureBase::Detach'
        ctx.instance(rule, key + ' :: ' + f.cls[:100], None)
        names = [c['cn'].split('::')[-1] for c in f.calls()]
        if 'CallInline' not in names and 'SetInline' not in names and 'SetCallback' not in names:
            ctx.report(rule, key, f.where, 'Detach must attach the Drop continuation with a CAS (the producer may be '
                       'fulfilling concurrently); a plain store loses the race')
        if 'StoreCallback' in names:
            ctx.report(rule, key, f.where, 'Detach uses the pre-publication plain store on a published core')


# ------------------------------------------------------------------------------------------------ Connect
def check_connect(ctx, fb, rule):
    fs = [f for f in fb.by_qn('yaclib::Connect') if f.cfg is not None]
    if len(fs) < 4:
        ctx.broken('Connect overloads not instantiated (%d)' % len(fs))
    for f in fs:
        ptypes = [f.locals[p]['t'] for p in f.params]
        if 'SharedPromise' in ptypes[0] and not ptypes[0].startswith('const'):
            continue  # Connect(SharedPromise& primary, …): registration cannot fail (see R-NODISCARD table)
        key = 'R-CONNECT Connect(%s, %s)' % tuple(t.split('<')[0].replace('yaclib::', '').replace('const ', '')
                                                  for t in ptypes[:2])
        res = CoreWalker(fb).run(f)
        ctx.instance(rule, key + ' :: ' + f.full[:120], dict(function=f.full[:200], paths=len(res)))
        # the other legitimate form: a continuation attached to the source that completes the promise.  It must take
        # the whole Result — a value-only callback is skipped on failure and the promise, destroyed with the skipped
        # callback, completes with StopError instead of the failure that was set
        attach = [c for c in f.calls() if c['cn'].split('::')[-1] in ('DetachInline', 'Detach', 'SubscribeInline',
                                                                       'Subscribe')]
        if attach and not any(e[0] == 'registered' for st, _ in res for e in st.events):
            ops = []
            for c in attach:
                for d in f.descendants(c['i']):
                    m = f.nodes[d]
                    if m['k'] == 'LambdaExpr':
                        ops += [fb.fn[k] for k in [m.get('lam')] + list(m.get('lams', [])) if k in fb.fn]
            if not ops:
                ctx.broken('R-CONNECT: %s attaches a continuation that is not a lambda' % f.full[:120])
            whole = all(len(g.params) == 1 and 'yaclib::Result<' in g.locals[g.params[0]]['t'] for g in ops)
            sets = all(any(c['cn'].split('::')[-1] == 'Set' for c in g.calls()) for g in ops)
            if not whole:
                ctx.report(rule, key, f.loc(attach[0]), 'Connect completes the promise from a continuation that does not '
                           'take the whole Result: on a failure the callback is skipped and the promise it owns is '
                           'destroyed unset — the consumer sees StopError instead of the exception / error that was Set')
            elif not sets:
                ctx.report(rule, key, f.loc(attach[0]), 'the continuation Connect attaches never Sets the promise')
            continue
        for st, _ in res:
            ev = st.events
            reg = [e for e in ev if e[0] == 'registered']
            if not reg:
                ctx.report(rule, key, f.where, 'the outcome of SetCallback is not tested')
                break
            sets = calls_of(ev, 'Set')
            rel = calls_of(ev, 'Release')
            if reg[-1][1]:
                need = 2 if ptypes[0].startswith('yaclib::FutureBase') else 1
                if sets or len(rel) < need:
                    ctx.report(rule, key, f.where, 'after a successful registration the promise core was handed over: '
                               'both handles must be released (%d Release seen, %d needed) and the promise must not '
                               'be set here' % (len(rel), need))
                    break
            else:
                touch = calls_of(ev, 'Touch')
                if len(sets) != 1 or not touch:
                    ctx.report(rule, key, f.where, 'the future was already complete: the promise must be Set from the '
                               'future\'s result exactly once')
                    break


# ------------------------------------------------------------------------------------------------ shared walk
def check_shared_walk(ctx, fb, rule):
    fs = [f for f in fb.by_qn('yaclib::detail::BaseCore::SetResultImpl') if f.fta and f.fta[-1] in ('true', '1')]
    if not fs:
        ctx.broken('BaseCore::SetResultImpl<·,true> not found')
    want = fb.vars.get('yaclib::detail::kSharedRefNoFuture', {}).get('v')
    if want is None:
        ctx.broken('kSharedRefNoFuture not found')
    for f in fs:
        key = 'R-SHAREDWALK BaseCore::SetResultImpl<shared>'
        w = CoreWalker(fb)
        w.loop_bound = 2
        res = w.run(f)
        ctx.instance(rule, key + ' <%s>' % ','.join(f.fta), dict(function=f.full, paths=len(res),
                                                                 kSharedRefNoFuture=want))
        for st, _ in res:
            ev = st.events
            dec = calls_of(ev, 'DecRef')
            loops = calls_of(ev, 'Loop')
            if len(dec) != want:
                ctx.report(rule, key, f.where, 'a path releases %d references of the shared core; the promise side owns '
                           'kSharedRefNoFuture = %d' % (len(dec), want))
                break
            if loops:
                # the promise reference is dropped before the last callback only
                last_loop = ev.index(loops[-1])
                before_last = [e for e in ev[:last_loop] if e in dec]
                if len(before_last) != 1:
                    ctx.report(rule, key, f.where, 'exactly one reference must be dropped before the LAST callback runs '
                               '(so that a count of 2 means "last observer, may move"); saw %d' % len(before_last))
                    break
                first_loop = ev.index(loops[0])
                if len(loops) > 1 and any(e in dec for e in ev[:ev.index(loops[-2]) + 1]):
                    ctx.report(rule, key, f.where, 'a reference is dropped before a callback that is not the last one')
                    break
        # next link read before each Loop(this, head): a read of ->next dominates every Loop call
        cfg = f.cfg
        reads = [n for n in f.own_nodes() if n['k'] == 'MemberExpr' and n.get('mn') == 'next' and cfg.pos_of(n['i'])]
        loops_calls = [n for n in f.own_nodes() if n.get('cn') == 'yaclib::detail::Loop' and cfg.pos_of(n['i'])]
        if not loops_calls:
            ctx.broken('SetResultImpl<shared>: no Loop call found')
        for lc in loops_calls:
            if not any(cfg.dominates(cfg.pos_of(r['i']), cfg.pos_of(lc['i'])) for r in reads):
                ctx.report(rule, key, f.loc(lc), 'a callback of the shared list is run before the node\'s next link '
                           'was read (the callback may free its node)')
                break

# ------------------------------------------------------------------------------------------------ shared move-out
def _moves_of_result(fn, ev):
    """std::move(...) call events whose argument is a core's Get() (the stored Result)"""
    out = []
    for e in ev:
        if e[0] == 'call' and e[1] == 'std::move':
            n = fn.nodes[e[2]]
            a = fn.sn(n['args'][0]) if n.get('args') else None
            if a is not None and a.get('cn', '').endswith('::Get') and 'Core' in a.get('cn', ''):
                out.append(e)
    return out


def check_moveout(ctx, fb, rule):
    no_future = fb.vars.get('yaclib::detail::kSharedRefNoFuture', {}).get('v')
    with_future = fb.vars.get('yaclib::detail::kSharedRefWithFuture', {}).get('v')
    if no_future is None or with_future is None:
        ctx.broken('kSharedRef* constants not found')
    key = 'R-MOVEOUT constants'
    ctx.instance(rule, key, dict(kSharedRefNoFuture=no_future, kSharedRefWithFuture=with_future))
    if with_future != no_future + 1:
        ctx.report(rule, key, 'include/yaclib/algo/detail/shared_core.hpp:1', 'kSharedRefWithFuture must be '
                   'kSharedRefNoFuture + 1 (one reference for the SharedFuture handle)')
    n = 0
    for f in fb.fn.values():
        if f.cfg is None:
            continue
        handle = f.qn in ('yaclib::SharedFutureBase::Get', 'yaclib::SharedFutureBase::Touch') and \
            'const' not in f.flags and not f.ret.startswith('const')
        retire = f.qn == 'yaclib::detail::SharedCore::Retire'
        if not (handle or retire):
            continue
        n += 1
        key = 'R-MOVEOUT ' + f.qn
        res = CoreWalker(fb).run(f)
        ctx.instance(rule, key + ' :: ' + f.cls[:100], dict(function=f.full[:160], paths=len(res)))
        for st, _ in res:
            ev = st.events
            for m in _moves_of_result(f, ev):
                i = ev.index(m)
                guard = [e for e in ev[:i] if e[0] == 'cmp' and e[1] == '==' and e[2] == 1 and e[3] is True and
                         'GetRef' in e[4]]
                if not guard:
                    ctx.report(rule, key, m[3], 'the shared value is moved out on a path that did not establish '
                               'GetRef() == 1 (this handle is provably the last observer): another observer reads a '
                               'moved-from value', 'function: ' + f.full[:300])
                    break
            else:
                continue
            break
    # ResultCore::Impl (copyable): copy when ref >= kSharedRefNoFuture, DecRef only when ref == 1
    for f in fb.by_qn('yaclib::detail::ResultCore::Impl'):
        if f.cfg is None:
            continue
        res = CoreWalker(fb).run(f)
        if not any(e[0] == 'rel' for st, _ in res for e in st.events):
            continue  # move-only instantiation: only unique cores reach it
        n += 1
        key = 'R-MOVEOUT ' + f.qn
        ctx.instance(rule, key + ' :: ' + f.cls[:100] + '<%s>' % ','.join(f.fta), None)
        for st, _ in res:
            ev = st.events
            rel = [e for e in ev if e[0] == 'rel']
            if rel and (rel[0][1] != '>=' or rel[0][2] != no_future):
                ctx.report(rule, key, f.where, 'the copy/move threshold is "%s %d"; it must be ">= kSharedRefNoFuture '
                           '(%d)": with fewer references this continuation is the last observer' % (
                               rel[0][1], rel[0][2], no_future))
                break
            moves = _moves_of_result(f, ev)
            if moves and rel and rel[0][3] is True:
                ctx.report(rule, key, moves[0][3], 'the value is moved although other observers may still exist '
                           '(ref >= %d)' % no_future)
                break
            dec = [e for e in ev if e[0] == 'call' and e[1].endswith('::DecRef')]
            if dec and rel:
                i = ev.index(dec[0])
                if not any(e[0] == 'cmp' and e[1] == '==' and e[2] == 1 and e[3] is True for e in ev[:i]):
                    ctx.report(rule, key, dec[0][3], 'the predecessor is released although it is a shared core still '
                               'owned by its promise/futures (ref != 1)')
                    break
    return n


def check_const_observers(ctx, fb, rule):
    n = 0
    for f in fb.fn.values():
        if f.qn in ('yaclib::SharedFutureBase::Get', 'yaclib::SharedFutureBase::Touch') and 'const' in f.flags:
            n += 1
            key = 'R-CONSTOBS %s const&' % f.qn
            ctx.instance(rule, key + ' :: ' + f.cls[:100], None)
            for c in f.calls():
                if c['cn'] in ('std::move',) or c['k'] == 'CXXConstCastExpr':
                    ctx.report(rule, key, f.loc(c), 'a const observer of a SharedFuture moves from the shared value')
            if any(x['k'] == 'CXXConstCastExpr' for x in f.own_nodes()):
                ctx.report(rule, key, f.where, 'a const observer casts constness away')
    # continuations attached to a shared core read it as const
    for f in fb.fn.values():
        if f.clsq != 'yaclib::detail::Core' or f.cfg is None:
            continue
        try:
            bits = int(f.cta[4])
        except (ValueError, IndexError):
            continue
        from_shared = bool(bits & 8)
        async_shared = (f.cta[5] == '2' or f.cta[5].endswith('Shared')) if len(f.cta) > 5 else False
        if f.n in ('Call', 'Impl') and 'lambda' not in f.flags and from_shared:
            for c in f.own_nodes():
                if c.get('cn') == 'yaclib::detail::ResultCore::MoveOrConst':
                    n += 1
                    key = 'R-CONSTOBS Core<FromShared>::%s' % f.n
                    ctx.instance(rule, key + ' :: ' + f.cls[:100], None)
                    if (c.get('cta') or ['?'])[0] not in ('false', '0'):
                        ctx.report(rule, key, f.loc(c), 'a continuation attached to a SharedFuture moves the shared '
                                   'value out of the core (other observers then read a moved-from value)',
                                   'instantiation: ' + f.full[:300])
        if 'lambda' in f.flags and async_shared:
            pass
    for f in fb.fn.values():
        if 'lambda' in f.flags and f.qn.startswith('yaclib::detail::Core::Impl') and f.cfg is not None:
            # async_done: the inner result of a step that returned a SharedFuture is read as const
            parent = fb.fn.get(f.parent)
            if parent is None or len(parent.cta) < 6 or not (parent.cta[5] == '2' or parent.cta[5].endswith('Shared')):
                continue
            for c in f.own_nodes():
                if c.get('cn') == 'yaclib::detail::ResultCore::MoveOrConst':
                    n += 1
                    key = 'R-CONSTOBS Core<AsyncShared>::async_done'
                    ctx.instance(rule, key + ' :: ' + parent.cls[:100], None)
                    if (c.get('cta') or ['?'])[0] not in ('false', '0'):
                        ctx.report(rule, key, f.loc(c), 'the result of an inner SharedFuture is moved out although '
                                   'other observers of that SharedFuture may exist')
    return n


def check_shared_factories(ctx, fb, rule):
    """initial reference counts of shared cores"""
    want = {'yaclib::MakeSharedContract': 'kSharedRefWithFuture', 'yaclib::MakeSharedPromise': 'kSharedRefNoFuture',
            'yaclib::detail::RunShared': 'kSharedRefWithFuture', 'yaclib::detail::MakeCore': 'kSharedRefWithFuture'}
    n = 0
    for f in fb.fn.values():
        if f.qn not in want:
            continue
        for c in f.calls(r'^yaclib::MakeShared$'):
            n += 1
            key = 'R-MOVEOUT initial count in ' + f.qn
            ctx.instance(rule, key + ' :: ' + f.full[:100], None)
            a = f.sn(c['args'][0])
            if not a.get('dn', '').endswith(want[f.qn]):
                ctx.report(rule, key, f.loc(c), 'a shared core is created with %s references; %s expects %s' % (
                    f.text(c['args'][0]), f.qn, want[f.qn]))
    return n


# ------------------------------------------------------------------------------------------------ R-NODEREUSE
SHARED_REG = ('yaclib::detail::SharedCore::SetCallback', 'yaclib::detail::SharedHandle::SetCallback',
              'yaclib::detail::SharedCore::SetInline')


_nw_cache = {}


def _next_writers(fb, tname):
    """methods of record `tname` (or of its bases / derived classes) that assign this->next"""
    key = (id(fb), tname)
    if key in _nw_cache:
        return _nw_cache[key]
    related = {tname} | set(fb.all_bases(tname)) | set(fb.derived(tname))
    related.discard('yaclib::detail::InlineCore')
    related.discard('yaclib::Job')
    related.discard('yaclib::detail::Node')
    out = []
    for g in fb.fn.values():
        if g.cls not in related:
            continue
        for n in g.own_nodes():
            if n['k'] == 'BinaryOperator' and n['op'] == '=':
                l = g.sn(n['ch'][0])
                if l is not None and l['k'] == 'MemberExpr' and l.get('mn') == 'next' and l.get('ch'):
                    b = g.sn(l['ch'][0])
                    while b is not None and b['k'] in ('ImplicitCastExpr', 'CXXStaticCastExpr'):
                        b = g.sn(b['ch'][0])
                    if b is not None and b['k'] == 'CXXThisExpr':
                        out.append(g)
                        break
    _nw_cache[key] = out
    return out


def check_node_reuse(ctx, fb, rule, scope=None):
    """A continuation registered on a SHARED core is linked into that core's intrusive list through its own `next`
    field, so one callback object can be registered on at most one shared core at a time.  Every registration site
    on a shared core that can execute more than once in a function (it lies on a CFG cycle, or the function has
    several such sites) must pass a per-registration object (an element selected by a varying index), never a
    loop-invariant one (*this, a parameter, one fixed member)."""
    n = 0
    for f in fb.fn.values():
        if f.cfg is None or not f.qn.startswith('yaclib::') or (scope is not None and not scope(f)):
            continue
        sites = []
        for c in f.own_nodes():
            cn = c.get('cn')
            if cn in SHARED_REG or (cn == 'yaclib::detail::BaseCore::SetCallbackImpl' and
                                    (c.get('cta') or ['?'])[0] in ('true', '1')):
                if f.qn in SHARED_REG or f.qn.startswith('yaclib::detail::BaseCore::Set'):
                    continue  # forwarders
                sites.append(c)
        if not sites:
            continue
        loops = f.cfg.loops()
        for c in sites:
            n += 1
            arg = c['args'][0]
            varying = False
            for d in f.deep_descendants(arg):  # through reference aliases: auto& cb = callbacks[i]
                x = f.nodes[d]
                if x['k'] == 'ArraySubscriptExpr' or (x['k'] == 'CXXOperatorCallExpr' and x.get('op') == '[]') or \
                        (x['k'] == 'UnaryOperator' and x.get('op') in ('++', '--')) or \
                        (x['k'] == 'CallExpr' and x.get('cn') == 'std::get'):
                    varying = True
            pos = f.cfg.pos_of(c['i'])
            in_loop = bool(pos and pos[0] in loops)
            key = 'R-NODEREUSE %s' % f.qn
            ctx.instance(rule, key + ' :: ' + f.full[:120], dict(site=f.loc(c), arg=f.text(arg), in_loop=in_loop,
                                                                per_registration_object=varying))
            # the registered object's own next field belongs to the shared core's list until the callback runs
            t = ((f.sn(arg) or {}).get('t') or '').replace('const ', '').rstrip('& ').strip()
            users = _next_writers(fb, t)
            if users:
                ctx.report(rule, key + ' next-owner', f.loc(c),
                           'an object of type %s is linked into a shared core\'s subscriber list through its next field, '
                           'but %s also stores something else in that field: the list is corrupted (subscribers cut off, '
                           'the counter bypassed)' % (t[:100], users[0].qn), 'function: ' + f.full[:300])
            same = [o for o in sites if o is not c and f.xtext(o['args'][0]) == f.xtext(arg)]
            if not varying and (in_loop or same):
                ctx.report(rule, key, f.loc(c),
                           'the same callback object (%s) is registered on several shared cores: a shared core links '
                           'its subscribers through the callback\'s own next field, so the second registration '
                           'overwrites the first list\'s link (subscribers cut off or spliced into another list)' %
                           f.text(arg), 'function: ' + f.full[:300])
    return n


# ------------------------------------------------------------------------------------------------ R-AFTERRELEASE

_WRAP = ('ImplicitCastExpr', 'CXXStaticCastExpr', 'ParenExpr', 'CStyleCastExpr', 'CXXReinterpretCastExpr')


def _released_object(f, i):
    """which object an expression denotes: 'this' | ('v', local id) | ('m', member chain text) | None"""
    n = f.sn(i)
    while n is not None and n['k'] in _WRAP and n.get('ch'):
        n = f.sn(n['ch'][0])
    if n is None:
        return None
    if n['k'] == 'UnaryOperator' and n['op'] == '*':
        return _released_object(f, n['ch'][0])
    if n['k'] == 'CXXThisExpr':
        return 'this'
    if n['k'] == 'DeclRefExpr' and 'id' in n:
        return ('v', n['id'])
    if n['k'] == 'MemberExpr':
        return ('m', f.text(n['i']))
    if n['k'] in ('CallExpr', 'CXXMemberCallExpr') and n.get('cn', '').endswith('DownCast') and n.get('args'):
        return _released_object(f, n['args'][0])
    if n['k'] == 'CXXOperatorCallExpr' and n.get('op') in ('*', '->') and n.get('args'):
        a = f.sn(n['args'][0])  # (*it)->DecRef(): the element the iterator currently points to
        if a is not None and a['k'] == 'DeclRefExpr' and 'id' in a:
            return ('it', a['id'])
        return _released_object(f, n['args'][0])
    if n['k'] in ('ArraySubscriptExpr', 'CXXOperatorCallExpr', 'CallExpr', 'CXXMemberCallExpr'):
        return ('x', n['k'], f.text(n['i']))  # _cores[i], Get(): identified by its spelling
    return None


def _is_decref(f, m, obj):
    return m['k'] == 'CXXMemberCallExpr' and m.get('cn', '').endswith('::DecRef') and m.get('obj') is not None and \
        _released_object(f, m['obj']) == obj


def check_after_release(ctx, fb, rule, scope=None):
    """R-AFTERRELEASE: a DecRef() gives the caller's reference away; the object may be freed (or, for a shared core,
    moved from by whoever is now the last holder) at once.  So on every CFG path, a use of the same object after a
    DecRef must be followed by another DecRef of it (the function still owned a further reference: SetResultImpl's
    `DecRef(); Loop(this, head); DecRef(); DecRef();`).  Uses reached only through a loop back edge belong to the
    next iteration, which owns its own reference (the combinators start with one reference per input): accepted and
    listed as instances of kind loop-carried.  Objects: `this`, locals / parameters, member chains."""
    nsites = 0
    for f in sorted(fb.fn.values(), key=lambda f: f.full):
        if f.cfg is None or (scope is not None and not scope(f)):
            continue
        decs = [n for n in f.own_nodes() if n['k'] == 'CXXMemberCallExpr' and n.get('cn', '').endswith('::DecRef') and
                n.get('obj') is not None]
        if not decs:
            continue
        cf = f.cfg
        dom = None
        for d in decs:
            obj = _released_object(f, d['obj'])
            pos = cf.pos_of(d['i'])
            if pos is None:
                continue  # in a discarded (constant-false) branch of this instantiation
            key = 'R-AFTERRELEASE %s' % f.qn
            nsites += 1
            if obj is None:
                ctx.broken('R-AFTERRELEASE: the object released at %s is not recognised' % f.loc(d))

            def in_decref(e):
                par = f.parents.get(e)
                while par is not None and f.nodes[par]['k'] in _WRAP + ('MemberExpr', 'UnaryOperator'):
                    par = f.parents.get(par)
                return par is not None and _is_decref(f, f.nodes[par], obj)

            def is_dec(b, i, e):
                return isinstance(e, int) and _is_decref(f, f.nodes[e], obj)

            def is_use(b, i, e):
                if not isinstance(e, int):
                    return False
                m = f.nodes[e]
                if obj == 'this':
                    hit = m['k'] == 'CXXThisExpr'
                elif obj[0] == 'v':
                    hit = m['k'] == 'DeclRefExpr' and m.get('id') == obj[1]
                elif obj[0] == 'it':
                    a = f.sn(m['args'][0]) if m['k'] == 'CXXOperatorCallExpr' and m.get('op') in ('*', '->') and \
                        m.get('args') else None
                    hit = a is not None and a['k'] == 'DeclRefExpr' and a.get('id') == obj[1]
                elif obj[0] == 'x':
                    hit = m['k'] == obj[1] and f.text(e) == obj[2]
                else:
                    hit = m['k'] == 'MemberExpr' and f.text(e) == obj[1]
                return hit and not in_decref(e)

            def is_kill(e):
                """the pointer variable / member is overwritten: what follows denotes another object"""
                if not isinstance(e, int) or obj == 'this':
                    return False
                m = f.nodes[e]
                if obj[0] in ('v', 'it'):
                    # the pointer / iterator moves on: ++it, it++, p = next
                    t = None
                    if m['k'] == 'UnaryOperator' and m.get('op') in ('++', '--'):
                        t = f.sn(m['ch'][0])
                    elif m['k'] == 'CXXOperatorCallExpr' and m.get('op') in ('++', '--', '=', '+=') and m.get('args'):
                        t = f.sn(m['args'][0])
                    elif m['k'] in ('BinaryOperator', 'CompoundAssignOperator') and m.get('op') in ('=', '+=', '-='):
                        t = f.sn(m['ch'][0])
                    return t is not None and t['k'] == 'DeclRefExpr' and t.get('id') == obj[1]
                if m['k'] == 'BinaryOperator' and m.get('op') == '=':
                    l = f.sn(m['ch'][0])
                    if l is None or obj[0] == 'x':
                        return False
                    return l['k'] == 'MemberExpr' and f.text(l['i']) == obj[1]
                return False

            def lhs_of_kill(e):
                par = f.parents.get(e)
                while par is not None and f.nodes[par]['k'] in _WRAP:
                    par = f.parents.get(par)
                if par is None or not is_kill(par):
                    return False
                first = f.nodes[par].get('args', f.nodes[par].get('ch', [None]))
                first = (f.nodes[par].get('args') or f.nodes[par].get('ch') or [None])[0]
                return f.strip(first) == e

            def bad_use(b, i, e):
                return is_use(b, i, e) and not lhs_of_kill(e) and \
                    cf.reaches_exit_without((b, i), is_dec) is not None

            # forward search without back edges (u -> v where v dominates u)
            if dom is None:
                dom = cf.dom()
            b0, i0 = pos
            found = None
            loop_carried = None
            el = cf.blocks[b0].el
            killed = False
            for i in range(i0 + 1, len(el)):
                if bad_use(b0, i, el[i]):
                    found = (b0, i)
                    break
                if is_kill(el[i]):
                    killed = True
                    break
            if found is None and not killed:
                seen = set()
                st = [(s, False) for s in cf.succs(b0) if s is not None]
                st = [(s, s in dom.get(b0, ())) for s, _ in st]
                while st and found is None:
                    b, via_back = st.pop()
                    if (b, via_back) in seen:
                        continue
                    seen.add((b, via_back))
                    stop = False
                    for i, e in enumerate(cf.blocks[b].el):
                        if bad_use(b, i, e):
                            if via_back:
                                loop_carried = loop_carried or (b, i)
                            else:
                                found = (b, i)
                            stop = True
                            break
                        if is_kill(e):
                            stop = True
                            break
                    if stop:
                        continue
                    for s in cf.succs(b):
                        if s is None:
                            continue
                        st.append((s, via_back or s in dom.get(b, ())))
            kind = 'loop-carried' if (found is None and loop_carried is not None) else 'plain'
            ctx.instance(rule, '%s @%s [%s]' % (key, f.loc(d).split(':')[-1], kind),
                         dict(function=f.full[:160], released=str(obj), kind=kind, at=f.loc(d)))
            if found is not None:
                b, i = found
                ctx.report(rule, key, f.loc(f.nodes[cf.blocks[b].el[i]]),
                           'the object whose reference was given away by DecRef() at %s is used afterwards, and no '
                           'further reference is released on the way out (so none was owned): another holder may '
                           'already have freed it or moved its value out' % f.loc(d),
                           'function: %s\nreleased object: %s' % (f.full[:300], obj))
    return nsites


# ------------------------------------------------------------------------------------------------ R-LOOPCALLER

class _HereWalker(pathwalk.Walker):
    loop_bound = 1
    max_paths = 4000

    def inline(self, fn, n, st):
        g = self.fb.fn.get(n.get('ck'))
        if g is None or g.cfg is None or st.depth >= 5:
            return None
        if g.n in ('Impl', 'Step', 'Noop'):
            return g
        # a forwarder: other.Here(caller) of another callback object that is not a core
        if g.n == 'Here' and 'yaclib::detail::BaseCore' not in self.fb.all_bases(g.cls) and \
                g.cls != 'yaclib::detail::InlineCore':
            return g
        return None


def check_loop_caller(ctx, fb, rule, scope=None):
    """R-LOOPCALLER: detail::Loop calls whatever core a Here() returned with the *returning object* as `caller`, and
    every core's Here(caller) reads `caller` as a BaseCore / ResultCore (its result, its executor).  So the Here() of
    a callback object that is NOT derived from BaseCore (events, awaiters, combinator callbacks, drop callbacks) must
    return nullptr on every path: it resumes its target itself (target.Here(caller) with the real caller) or submits
    it.  Helpers Impl/Step/Noop and forwarders to another such object's Here are inlined."""
    n = 0
    for f in sorted(fb.fn.values(), key=lambda f: f.full):
        if f.n != 'Here' or 'virtual' not in f.flags or f.cfg is None:
            continue
        if scope is not None and not scope(f):
            continue
        if 'yaclib::detail::BaseCore' in fb.all_bases(f.cls):
            continue
        key = 'R-LOOPCALLER %s::Here' % f.clsq
        try:
            res = _HereWalker(fb).run(f)
        except pathwalk.TooManyPaths as e:
            ctx.broken('R-LOOPCALLER %s: %s' % (f.full, e))
        n += 1
        ctx.instance(rule, key + ' :: ' + f.cls[:120], dict(function=f.full[:160], paths=len(res)))
        for st, rv in res:
            if not (rv is not None and rv[0] == 'c' and rv[1] == 0):
                ctx.report(rule, key, f.where, 'Here() of a callback object that is not a BaseCore can return a core to '
                           'the running Loop: the Loop will call it with this object as `caller`, and the callee reads '
                           '`caller` as a BaseCore (executor / result) — type confusion; resume the target directly '
                           'with the real caller instead', 'instantiation: ' + f.full[:300])
                break
    return n


# ------------------------------------------------------------------------------------------------ R-MOVEOUT.sites

# The two places that move by construction (their own rules decide them); every other move-out of a core that is not
# statically unique must itself be dominated by the test GetRef() == 1 (this observer is provably the last one)
MOVE_SITES = {
    'yaclib::detail::ResultCore::MoveOrConst': 'the caller selects move by IsFromUnique(Type) (R-CONSTOBS)',
    'yaclib::detail::ResultCore::Impl': 'moves below the kSharedRefNoFuture threshold only (R-MOVEOUT)',
}


def _static_object_type(f, i):
    """most derived static type of an object expression (implicit derived-to-base conversions removed)"""
    n = f.sn(i)
    while n is not None and n['k'] in ('ImplicitCastExpr', 'ParenExpr') and n.get('ch'):
        n = f.sn(n['ch'][0])
    return (n or {}).get('t', '')


def check_move_sites(ctx, fb, rule, scope=None):
    """std::move / std::forward applied to ResultCore::Get() of a core that is not statically a UniqueCore must be
    dominated, on every path, by the true edge of GetRef() == 1 (in whatever function it sits: Retire, the rvalue
    Get()/Touch() of SharedFuture, a helper extracted from them); the two by-construction movers above have their
    own rules.  The combinator strategies in particular must not move: their InputCore is the common base
    ResultCore<V,E> as soon as unique and shared inputs are mixed, so they take values through the virtual Retire()."""
    n = 0
    for f in sorted(fb.fn.values(), key=lambda f: f.full):
        if f.cfg is None or (scope is not None and not scope(f)):
            continue
        for m in f.own_nodes():
            if m['k'] != 'CallExpr' or m.get('cn') not in ('std::move', 'std::forward') or not m.get('args'):
                continue
            a = f.sn(m['args'][0])
            if a is None or a['k'] != 'CXXMemberCallExpr' or a.get('cn') != 'yaclib::detail::ResultCore::Get' or \
                    a.get('obj') is None:
                continue
            if f.cfg.pos_of(m['i']) is None:
                continue  # discarded branch of this instantiation
            ot = _static_object_type(f, a['obj'])
            unique = 'yaclib::detail::UniqueCore<' in ot or 'yaclib::detail::ReadyCore<' in ot or \
                'yaclib::detail::PromiseType<' in ot and 'Shared' not in ot
            n += 1
            key = 'R-MOVEOUT.site %s' % f.qn
            ctx.instance(rule, key + (' [unique by type]' if unique else ' [guarded site]'),
                         dict(function=f.full[:160], object_type=ot[:100], at=f.loc(m)))
            if unique or f.qn in MOVE_SITES:
                continue
            # guarded in place? every path that reaches this move established GetRef() == 1 before it
            guarded = True
            try:
                for st, _ in CoreWalker(fb).run(f):
                    ev = st.events
                    for i, e in enumerate(ev):
                        if e[0] == 'call' and e[1] == 'std::move' and e[2] == m['i']:
                            if not any(x[0] == 'cmp' and x[1] == '==' and x[2] == 1 and x[3] is True and
                                       'GetRef' in x[4] for x in ev[:i]):
                                guarded = False
            except pathwalk.TooManyPaths:
                guarded = False
            if guarded:
                continue
            ctx.report(rule, key, f.loc(m), 'the stored Result of a core whose static type is %s (it may be a shared '
                       'core with other observers) is moved out on a path that did not establish GetRef() == 1: other '
                       'observers read a moved-from value; take it through Retire() or test the count first' % (
                           ot[:120] or '?'), 'function: %s' % f.full[:300])
    return n


# ------------------------------------------------------------------------------------------------ R-COMMIT

def check_commit(ctx, fb, rule):
    """R-COMMIT: Promise::Set / SharedPromise::Set construct the Result in place from the caller's arguments
    (ResultCore::Store is noexcept only if that construction is) and give the promise's handle away
    (_core.Release()).  The Store must come first on every path: if it throws, the promise must still be Valid(), so
    that it can be set again or deliver the broken-promise StopError from its destructor; a handle released before a
    throwing Store leaves a future that never becomes ready and a leaked state."""
    n = 0
    for f in sorted(fb.fn.values(), key=lambda f: f.full):
        if f.cfg is None or f.qn not in ('yaclib::Promise::Set', 'yaclib::SharedPromise::Set'):
            continue
        w = CoreWalker(fb)
        w.inline_helpers = True
        try:
            res = w.run(f)
        except pathwalk.TooManyPaths as e:
            ctx.broken('R-COMMIT %s: %s' % (f.full, e))
        n += 1
        key = 'R-COMMIT %s' % f.qn
        ctx.instance(rule, key + ' :: ' + f.full[:140], dict(function=f.full[:160], paths=len(res)))
        for st, _ in res:
            names = [(e[1], e[3]) for e in st.events if e[0] == 'call']
            rel = [i for i, (c, _) in enumerate(names) if c == 'yaclib::IntrusivePtr::Release']
            sto = [i for i, (c, _) in enumerate(names) if c == 'yaclib::detail::ResultCore::Store']
            if not sto:
                ctx.report(rule, key, f.where, 'Set does not store a result on some path')
                break
            if rel and rel[0] < sto[0]:
                ctx.report(rule, key, names[rel[0]][1], 'the promise gives its handle away (Release) before the Result is '
                           'constructed (Store): if that construction throws, the promise is no longer Valid(), cannot '
                           'be set again and its destructor delivers nothing — the future never becomes ready',
                           'function: ' + f.full[:300])
                break
    return n


# ------------------------------------------------------------------------------------------------ R-ODR

def check_undefined_inline(ctx, fb, rule, scope=None):
    """R-ODR: an inline / constexpr function of the library that is called from an instantiated library function has
    a definition in that translation unit (the extractor flags calls whose callee is inlined, not deleted / defaulted
    / builtin, and has no body anywhere in the unit).  Otherwise the program is ill-formed, no diagnostic required:
    the call compiles with a warning at best and every use of the calling API fails to link."""
    ncalls = 0
    bad = {}
    for f in fb.fn.values():
        if scope is not None and not scope(f):
            continue
        for n in f.own_nodes():
            if 'ck' not in n or not n.get('cn', '').startswith('yaclib'):
                continue
            ncalls += 1
            if n.get('ui'):
                bad.setdefault((n['cn'], f.qn), (f, n))
    ctx.instance(rule, 'R-ODR calls to library functions', dict(calls_checked=ncalls, undefined_inline=len(bad)))
    for (cn, qn), (f, n) in sorted(bad.items()):
        ctx.report(rule, 'R-ODR %s used by %s' % (cn, qn), f.loc(n),
                   '%s is declared inline/constexpr in a header but has no definition in the translation unit that '
                   'uses it through %s: the use is ill-formed (no diagnostic required) and does not link — this part '
                   'of the API cannot be used at all' % (cn, qn), 'caller: ' + f.full[:300])
    return ncalls


# ------------------------------------------------------------------------------------------------ R-HANDLEASSIGN

def check_handle_assign(ctx, fb, rule):
    """Future / Promise / SharedPromise / Task hold their state in an IntrusivePtr and declare no move assignment of
    their own, while their destructors run a release protocol (Detach, Set(StopTag), Cancel).  The defaulted move
    assignment is therefore correct only if IntrusivePtr's same-type move assignment hands the OVERWRITTEN pointee to
    the moved-from object (a swap), whose destructor then runs that protocol.  Rule: on every path of
    IntrusivePtr<T>::operator=(IntrusivePtr<T>&&) the previous pointee is not released (no DecRef, no IntrusivePtr
    temporary destroyed); plus: the handle classes still have a protocol destructor and no hand-written move
    assignment (otherwise the argument changes and this rule must be re-read)."""
    n = 0
    for f in sorted(fb.fn.values(), key=lambda f: f.full):
        if f.qn != 'yaclib::IntrusivePtr::operator=' or f.cfg is None or f.fta or len(f.params) != 1:
            continue
        pt = f.locals[f.params[0]]['t']
        if 'IntrusivePtr<' not in pt or not pt.rstrip().endswith('&&'):
            continue
        n += 1
        key = 'R-HANDLEASSIGN IntrusivePtr::operator=(IntrusivePtr&&)'
        res = CoreWalker(fb).run(f)
        ctx.instance(rule, key + ' :: ' + f.cls[:100], dict(function=f.full[:160], paths=len(res)))
        for st, _ in res:
            rel = [e for e in st.events if (e[0] == 'call' and e[1].endswith('::DecRef')) or
                   (e[0] == 'dtor' and 'IntrusivePtr' in e[1])]
            if rel:
                ctx.report(rule, key, f.where, 'the same-type move assignment releases the overwritten pointee itself '
                           '(a bare DecRef) instead of handing it to the moved-from pointer: Future / Promise / Task / '
                           'SharedPromise rely on their moved-from handle\'s destructor (Detach / Set(StopTag) / Cancel) '
                           'to release an overwritten live state — assigning over a pending future now deletes a state '
                           'its promise still writes to', 'instantiation: ' + f.full[:300])
                break
    return n


# ---------------------------------------------------------------------------------------------------------------------
# R-GETWAIT: a blocking / checking accessor reads the stored Result only after it established that it exists
class _GetWalker(pathwalk.Walker):
    max_paths = 2000

    def on_node(self, fn, n, st):
        if n['k'] in ('CallExpr', 'CXXMemberCallExpr'):
            cn = n.get('cn', '')
            if cn == 'yaclib::Wait' or cn.startswith('yaclib::Wait<') or cn == 'yaclib::detail::WaitCore':
                st.events.append(('wait', fn.loc(n)))
            elif cn.endswith('ResultCore::Get') or cn.endswith('::Retire') or cn in (
                    'yaclib::FutureBase::Touch', 'yaclib::SharedFutureBase::Touch', 'yaclib::Task::Touch'):
                # Touch() states Ready() as its precondition: inside a Get() it is a read like any other
                st.events.append(('read-result', fn.loc(n)))

    def on_edge(self, fn, ci, taken, st):
        c = fn.sn(ci)
        neg = False
        while c is not None and c['k'] == 'UnaryOperator' and c['op'] == '!':
            neg = not neg
            c = fn.sn(c['ch'][0])
        if c is None:
            return
        names = [fn.nodes[j].get('cn', '') for j in fn.deep_descendants(c['i'])] + [c.get('cn', '')]
        if any(x.split('::')[-1] == 'Ready' for x in names):
            st.events.append(('ready', taken != neg))


def check_get_wait(ctx, fb, rule, classes):
    """Get() of the handle classes in `classes`: every read of the stored Result is preceded on its path by Wait(*this)
    or by the true edge of Ready() (Touch() states Ready() as a precondition and is not covered)."""
    n = 0
    for f in fb.fn.values():
        if f.cfg is None or f.n != 'Get' or f.clsq not in classes:
            continue
        key = 'R-GETWAIT %s::Get%s' % (f.clsq, ' const' if 'const' in f.flags else '')
        res = _GetWalker(fb).run(f)
        ctx.instance(rule, key + ' :: ' + f.cls[:100], dict(paths=len(res)))
        n += 1
        for st, _ in res:
            ev = st.events
            for i, e in enumerate(ev):
                if e[0] != 'read-result':
                    continue
                if not any(x[0] == 'wait' or x == ('ready', True) for x in ev[:i]):
                    ctx.report(rule, key, e[1], 'Get() reads the stored Result on a path that neither waited for it '
                               '(Wait(*this)) nor saw Ready() == true: the value is read before it exists',
                               'instantiation: ' + f.full[:300])
                    break
            else:
                continue
            break
    return n


# ---------------------------------------------------------------------------------------------------------------------
# R-STOREOVER: typestate of the Result storage of a core (ResultCore keeps the Result in a union: Store placement-news)
class _StoreWalker(pathwalk.Walker):
    max_paths = 4000

    def __init__(self, fb, cls_chain):
        super().__init__(fb)
        self.cls_chain = cls_chain

    def inline(self, fn, n, st):
        g = self.fb.fn.get(n.get('ck'))
        if g is None or g.cfg is None or st.depth >= 2 or 'virtual' in g.flags or 'ctor' in g.flags:
            return None
        if g.n in ('Store',) or g.clsq == 'yaclib::Result':
            return None
        if g.cls in self.cls_chain and g.clsq not in ('yaclib::detail::BaseCore',):
            return g
        return None

    def on_node(self, fn, n, st):
        if n['k'] == 'CXXMemberCallExpr':
            cn = n.get('cn', '')
            if cn.endswith('ResultCore::Store'):
                st.events.append(('store', fn.loc(n)))
            elif cn == 'yaclib::Result::~Result':
                o = fn.sn(n['obj']) if n.get('obj') is not None else None
                if o is not None and o['k'] == 'MemberExpr' and o.get('mn') == '_result':
                    st.events.append(('destroy', fn.loc(n)))


def check_store_over(ctx, fb, rule):
    """The Result of a core lives in a union inside ResultCore: Store() constructs it in place, the destructor of
    ResultCore destroys it once.  A core class whose constructor already stores a Result (ReadyCore, the head of
    MakeTask) is 'live' from then on: any later Store on it must be preceded, on its path, by the explicit destruction
    of the old Result — otherwise the old value's destructor never runs (leak of whatever it owns).  Conversely a
    destroy without a following Store leaves ~ResultCore to destroy a dead object."""
    n = 0
    ctors_of = {}
    for g in fb.fn.values():
        if 'ctor' in g.flags and g.cfg is not None and g.cls:
            ctors_of.setdefault(g.cls, []).append(g)
    for f in sorted(fb.fn.values(), key=lambda f: f.full):
        if f.cfg is None or 'ctor' in f.flags or 'dtor' in f.flags or not f.cls:
            continue
        if f.n not in ('Drop', 'Call', 'Here', 'Next', 'Stop', 'Cancel'):
            continue
        bases = fb.all_bases(f.cls)
        if not any(b.startswith('yaclib::detail::ResultCore<') or b == 'yaclib::detail::ResultCore' for b in bases):
            continue
        # is the storage live when a method of this class starts?  (some constructor of the class stores)
        ctors = ctors_of.get(f.cls, [])
        live = bool(ctors) and all(any(c['cn'].endswith('ResultCore::Store') for c in g.calls()) for g in ctors)
        if not live:
            continue
        if f.n not in ('Drop', 'Call', 'Here', 'Next', 'Stop', 'Cancel'):
            continue
        key = 'R-STOREOVER %s::%s' % (f.clsq.split('::')[-1], f.n)
        try:
            res = _StoreWalker(fb, [f.cls] + list(bases)).run(f)
        except pathwalk.TooManyPaths as e:
            ctx.broken('%s: %s' % (f.full[:100], e))
        ctx.instance(rule, key + ' :: ' + f.cls[:100], dict(paths=len(res)))
        n += 1
        for st, _ in res:
            state = 'live'
            bad = None
            for e in st.events:
                if e[0] == 'store':
                    if state == 'live':
                        bad = (e[1], 'a Result is constructed over the one this core already holds (it was stored by '
                               'the constructor): the old value is never destroyed — whatever it owns leaks')
                        break
                    state = 'live'
                elif e[0] == 'destroy':
                    if state == 'dead':
                        bad = (e[1], 'the stored Result is destroyed twice')
                        break
                    state = 'dead'
            if bad is None and state == 'dead':
                bad = (f.where, 'the stored Result is destroyed and nothing is stored again: ~ResultCore destroys a dead '
                       'object')
            if bad:
                ctx.report(rule, key, bad[0], bad[1], 'instantiation: ' + f.full[:300])
                break
    return n


# ---------------------------------------------------------------------------------------------------------------------
# R-APICOVER: every public function template is instantiated by some analysed unit
API_EXEMPT = {
    # qualified name -> reason it needs no instantiation
}


def check_api_cover(ctx, fbs, rule):
    from vlib import facts
    """Rules are evaluated on instantiations.  A public namespace-scope function template of the library (a factory, an
    algorithm, an operator) that no probe and no library unit instantiates is seen by no rule at all — and, as finding
    F14 showed (MakeSharedContractOn), may not even compile.  The extractor lists every such template with the number
    of specialisations the unit instantiated; the union over the analysed configurations must be positive for each.
    An uncovered entry is an analysis gap (exit 2), not a violation: add it to a probe."""
    tot = {}
    for cfg, fb in fbs.items():
        for k, v in fb.templates.items():
            tot[k] = tot.get(k, 0) + v
    pub = {k: v for k, v in tot.items() if k[0].startswith('yaclib::') and not k[0].startswith('yaclib::detail') and
           '::when::' not in k[0] and '/include/yaclib/' in k[1] and '/fault/' not in k[1] and
           not k[1].endswith('fwd.hpp')}
    if len(pub) < 60:
        ctx.broken('R-APICOVER: only %d public function templates listed by the extractor' % len(pub))
    miss = []
    for k, v in sorted(pub.items()):
        ctx.instance(rule, 'R-APICOVER %s @%s:%d' % (k[0], facts.rel(k[1]), k[2]), None)
        if v == 0 and k[0] not in API_EXEMPT:
            miss.append('%s (%s:%d)' % (k[0], facts.rel(k[1]), k[2]))
    # the user-declared (non-template) members of the public classes: defined in some specialisation somewhere
    mem = {}
    for cfg, fb in fbs.items():
        for k, v in fb.member_def.items():
            mem[k] = max(mem.get(k, 0), v)
    pubm = {k: v for k, v in mem.items() if k[0].startswith('yaclib::') and not k[0].startswith('yaclib::detail') and
            '::when::' not in k[0] and '/include/yaclib/' in k[3] and '/fault/' not in k[3]}
    for k, v in sorted(pubm.items()):
        ctx.instance(rule, 'R-APICOVER %s::%s @%s:%d' % (k[0], k[1], facts.rel(k[3]), k[2]), None)
        if not v and (k[0] + '::' + k[1]) not in API_EXEMPT:
            miss.append('%s::%s (%s:%d)' % (k[0], k[1], facts.rel(k[3]), k[2]))
    if miss:
        ctx.broken('R-APICOVER: public API entries that no analysed unit instantiates (add them to a probe): ' +
                   '; '.join(miss[:8]))
    return len(pub) + len(pubm)
