"""C13 — coroutines resume once, after the awaited event, with its outcome, where asked (structural clauses)."""
from rules import c05, lib_coro, lib_core, lib_head, lib_ready
from vlib import pathwalk


def check_promise_forms(ctx, fb, rule, cfg):
    """R-PROMISE: what the coroutine machinery stores / returns, per PromiseType<V, E, Lazy, Shared> instantiation:
       initial_suspend   suspends (suspend_always) exactly for the lazy (Task) kind
       unhandled_exception   stores std::current_exception()
       return_value(x)   stores its argument; return_value(Unit) stores a value (std::in_place)
       await_resume of the value-carrying awaiters returns Result::Ok() of the awaited result (which rethrows)"""
    P = 'yaclib::detail::PromiseType'
    n = 0
    for f in fb.fn.values():
        if f.clsq != P or f.cfg is None:
            continue
        lazy = len(f.cta) >= 4 and f.cta[2] in ('true', '1')
        tag = ' :: ' + f.cls[:90]
        if f.n == 'initial_suspend':
            key = 'R-PROMISE initial_suspend'
            ctx.instance(rule, key + tag, dict(lazy=lazy, returns=f.ret))
            n += 1
            always = f.ret.endswith('suspend_always')
            never = f.ret.endswith('suspend_never')
            if not (always or never):
                ctx.broken('R-PROMISE: initial_suspend of %s returns %s' % (f.cls[:80], f.ret))
            if always != lazy:
                ctx.report(rule, key, f.where, 'a %s coroutine %s at its initial suspend point' % (
                    'Task (lazy)' if lazy else 'Future / SharedFuture (eager)',
                    'does not suspend: it runs before the Task is started' if lazy else
                    'suspends: nothing ever starts it'), 'instantiation: ' + f.full[:300])
        elif f.n == 'unhandled_exception':
            key = 'R-PROMISE unhandled_exception'
            ctx.instance(rule, key + tag, None)
            n += 1
            stores = [c for c in f.calls() if c['cn'].split('::')[-1] == 'Store']
            ok = len(stores) == 1 and any(f.nodes[d].get('cn') == 'std::current_exception'
                                          for a in stores[0].get('args', []) for d in [f.strip(a)] + list(f.descendants(a)))
            if not ok:
                ctx.report(rule, key, f.where, 'an exception escaping the coroutine body must become its Exception '
                           'state (Store(std::current_exception()))', 'instantiation: ' + f.full[:300])
        elif f.n == 'return_value':
            key = 'R-PROMISE return_value'
            ctx.instance(rule, key + tag, None)
            n += 1
            stores = [c for c in f.calls() if c['cn'].split('::')[-1] == 'Store']
            ok = len(stores) == 1 and len(stores[0].get('args', [])) == 1
            if ok:
                a = stores[0]['args'][0]
                refs = [f.nodes[d] for d in [f.strip(a)] + list(f.descendants(a))]
                unit = f.params and f.locals[f.params[0]]['t'].endswith('Unit')
                if unit:
                    ok = any(x.get('dn') == 'std::in_place' for x in refs)
                else:
                    ok = any(x['k'] == 'DeclRefExpr' and x.get('id') in f.params for x in refs)
            if not ok:
                ctx.report(rule, key, f.where, 'co_return must store its operand as the coroutine\'s Result (one '
                           'Store of the argument; std::in_place for Unit)', 'instantiation: ' + f.full[:300])
    for f in fb.fn.values():
        if f.n != 'await_resume' or f.cfg is None or f.ret == 'void' or '/coro/detail/await_awaiter.hpp' not in f.file:
            continue
        key = 'R-PROMISE %s::await_resume' % f.clsq.split('::')[-1]
        ctx.instance(rule, key + ' :: ' + f.cls[:90], None)
        n += 1
        rets = [x for x in f.own_nodes() if x['k'] == 'ReturnStmt' and x.get('ch')]
        def is_ok_call(i):
            j = f.resolve(i)
            m = f.nodes[j] if j is not None and j >= 0 else None
            while m is not None and m['k'] in ('ExprWithCleanups', 'MaterializeTemporaryExpr', 'CXXBindTemporaryExpr',
                                               'CXXConstructExpr', 'ImplicitCastExpr') and (m.get('ch') or m.get('args')):
                m = f.sn((m.get('args') or m.get('ch'))[0])
            return m is not None and m.get('cn') == 'yaclib::Result::Ok'
        # the returned expression IS the Ok() call on every return (a default value on some branch swallows the failure)
        ok = bool(rets) and all(is_ok_call(r['ch'][0]) for r in rets)
        if not ok:
            ctx.report(rule, key, f.where, 'the value of a co_await is Result::Ok() of the awaited result (returns the '
                       'value, rethrows the failure)', 'instantiation: ' + f.full[:300])
    return n


class _AwaitEvWalker(lib_core.CoreWalker):
    def on_edge(self, fn, ci, taken, st):
        super().on_edge(fn, ci, taken, st)
        neg = False
        c = fn.sn(ci)
        while c is not None and c['k'] == 'UnaryOperator' and c['op'] == '!':
            neg = not neg
            c = fn.sn(c['ch'][0])
        if c is None:
            return
        names = [fn.nodes[j].get('cn', '') for j in fn.deep_descendants(c['i'])] + [c.get('cn', '')]
        if any(x.split('::')[-1] == 'SubEqual' for x in names) and c['k'] != 'BinaryOperator':
            st.events.append(('last', taken != neg))
        elif any(x.split('::')[-1] == 'SubEqual' for x in names):
            st.events.append(('last', None))


def check_await_event(ctx, fb, rule):
    """R-AWAITEVENT: the callback a multi-future Await registers (AwaitEvent<Sticky>::Impl) and the sticky single
    awaiter: the coroutine is resumed exactly once, by the completion that brings the counter to zero and by no other;
    the awaited futures are left alone (Await leaves them valid); the sticky forms resume by submitting the coroutine to
    its executor."""
    n = 0
    for f in fb.fn.values():
        if f.cfg is None:
            continue
        if f.clsq == 'yaclib::detail::AwaitEvent' and f.n == 'Impl':
            sticky = f.cta and f.cta[0] in ('true', '1')
            key = 'R-AWAITEVENT AwaitEvent<%s>::Impl' % ('sticky' if sticky else 'inline')
            res = _AwaitEvWalker(fb).run(f)
            ctx.instance(rule, key + ' :: ' + f.full[:100], dict(paths=len(res)))
            n += 1
            for st, _ in res:
                ev = st.events
                last = [e for e in ev if e[0] == 'last']
                resumes = [e for e in ev if e[0] == 'call' and (
                    e[1] == 'yaclib::IExecutor::Submit' or e[1].split('::')[-1] in ('Here', 'Step', 'Next', 'Call'))]
                dec = [e for e in ev if e[0] == 'decref' or (e[0] == 'call' and e[1].split('::')[-1] == 'DecRef')]
                if dec:
                    ctx.report(rule, key, f.where, 'the event callback releases the awaited future: Await(fs...) must '
                               'leave the futures valid for their owner', 'instantiation: ' + f.full[:300])
                    break
                if not last or last[-1][1] is None:
                    ctx.report(rule, key, f.where, 'the resumption is not decided by the counter alone (SubEqual(1) '
                               'combined with something else)', 'instantiation: ' + f.full[:300])
                    break
                if bool(resumes) != bool(last[-1][1]) or len(resumes) > 1:
                    ctx.report(rule, key, f.where, 'the coroutine is resumed %d time(s) on a path on which this '
                               'completion %s the last one: it must be resumed exactly once, by the completion that '
                               'brings the counter to zero' % (len(resumes), 'is' if last[-1][1] else 'is not'),
                               'instantiation: ' + f.full[:300])
                    break
                if sticky and resumes and resumes[0][1] != 'yaclib::IExecutor::Submit':
                    ctx.report(rule, key, f.where, 'the sticky form resumes the coroutine through %s instead of '
                               'submitting it to its executor' % resumes[0][1], 'instantiation: ' + f.full[:300])
                    break
        elif f.clsq == 'yaclib::detail::AwaitAwaiter' and f.n == 'Call' and len(f.cta) >= 2 and \
                f.cta[1] in ('true', '1'):
            key = 'R-AWAITEVENT AwaitAwaiter<sticky>::Call'
            ctx.instance(rule, key + ' :: ' + f.full[:100], None)
            n += 1
            names = [c['cn'] for c in f.calls()]
            if 'yaclib::IExecutor::Submit' not in names or any(
                    x.split('::')[-1] in ('Call', 'resume', 'Here') and x != f.qn for x in names):
                ctx.report(rule, key, f.where, 'AwaitSticky resumes the coroutine through %s instead of submitting it '
                           'to its own executor' % [x.split('::')[-1] for x in names],
                           'instantiation: ' + f.full[:300])
    return n


class _FormWalker(pathwalk.Walker):
    """await_suspend of a scheduling awaiter: ('handoff', loc) for every call that is given the coroutine (its promise
    or handle); the Walker returns the value of each path's return statement"""
    loop_bound = 1

    def __init__(self, fb, coro_ids):
        super().__init__(fb)
        self.coro_ids = coro_ids

    def on_node(self, fn, n, st):
        if n['k'] == 'BinaryOperator' and n.get('op') == '=' and len(n.get('ch', [])) == 2:
            # parking the coroutine in a field somebody else will read (`this->job = &core`) hands it on as well
            l = fn.sn(n['ch'][0])
            if l is not None and l['k'] == 'MemberExpr' and not (l.get('dn') or '').endswith('::_executor'):
                for d in [n['ch'][1]] + list(fn.descendants(n['ch'][1])):
                    m = fn.nodes[d]
                    if m['k'] == 'DeclRefExpr' and m.get('id') in self.coro_ids:
                        st.events.append(('handoff', fn.loc(n)))
                        return
        if n['k'] in ('CXXMemberCallExpr', 'CallExpr') and n.get('args'):
            last = n.get('cn', '').split('::')[-1]
            if last in ('promise', 'address', 'from_promise', 'from_address'):
                return
            for a in n['args']:
                for d in [a] + list(fn.descendants(a)):
                    m = fn.nodes[d]
                    if m['k'] == 'DeclRefExpr' and m.get('id') in self.coro_ids:
                        st.events.append(('handoff', fn.loc(n)))
                        return


class _OnWalker(_FormWalker):
    """follows file-local / same-class helpers so that `return SubmitReady(e, core)` yields the helper's constants"""

    def inline(self, fn, n, st):
        g = self.fb.fn.get(n.get('ck'))
        if g is None or g.cfg is None or st.depth >= 2 or 'virtual' in g.flags:
            return None
        if g.file == fn.file and (not g.cls or g.cls == fn.cls) and g.ret == 'bool':
            return g
        return None


def check_on_executor(ctx, fb, rule):
    """R-ONEXEC — an awaiter that names an executor (On, AwaitOn of one or many, the event's AwaitOn) resumes the
    coroutine THROUGH that executor on every path: await_suspend never answers "do not suspend" (false) — continuing
    inline on the awaiting thread is not "on e", and for a stopped executor it skips the Drop that completes the
    coroutine with StopError — and await_ready is constant false."""
    n = 0
    for f in sorted(fb.fn.values(), key=lambda f: f.full):
        if f.cfg is None or not f.clsq.startswith('yaclib::') or f.n not in ('await_suspend', 'await_ready'):
            continue
        short = f.clsq.split('::')[-1]
        if 'Unlock' in short or not ('OnAwaiter' in short or short == 'OnAwaiter'):
            continue
        rec = fb.records.get(f.cls) or fb.records.get(f.clsq)
        key = 'R-ONEXEC %s::%s' % (short, f.n)
        n += 1
        if f.n == 'await_ready':
            ctx.instance(rule, key + ' :: ' + f.full[:120], None)
            rets = [x for x in f.own_nodes() if x['k'] == 'ReturnStmt' and x.get('ch')]
            if not rets or not all((f.sn(x['ch'][0]) or {}).get('k') == 'CXXBoolLiteralExpr' and
                                   not f.sn(x['ch'][0]).get('v') for x in rets):
                ctx.report(rule, key, f.where, 'an executor-naming awaiter can be ready at once: the coroutine then '
                           'continues inline on the awaiting thread instead of on the named executor',
                           'instantiation: ' + f.full[:300])
            continue
        if f.ret == 'void':
            ctx.instance(rule, key + ' :: ' + f.full[:120], dict(returns='void'))
            continue
        coro = {f.params[0]} if f.params else set()
        res = _OnWalker(fb, coro).run(f)
        ctx.instance(rule, key + ' :: ' + f.full[:120], dict(returns=f.ret, paths=len(res)))
        for st, rv in res:
            if rv is None or rv[0] != 'c':
                ctx.broken('R-ONEXEC: %s returns a value that is not decided on the path (%s)' % (f.full[:120], rv))
            if not rv[1]:
                ctx.report(rule, key, f.where, 'a path of await_suspend answers "do not suspend": the coroutine continues '
                           'inline on the awaiting thread instead of being resumed through the named executor (and a '
                           'stopped executor no longer completes it with StopError)', 'instantiation: ' + f.full[:300])
                break
    return n


def check_awaiter_forms(ctx, fb, rule):
    """R-AWAITERFORM — the suspend contract of the awaiters that schedule the coroutine themselves (On, Yield,
    CurrentExecutor ...): await_suspend that ends with `true` / without a value leaves the coroutine suspended, so the
    path must have handed it to somebody (a call that receives the promise or the handle); a path that returns
    `false` resumes it at once and must NOT have handed it on (it would run twice); and when every path of
    await_suspend hands the coroutine to an executor, await_ready is constant false (otherwise the coroutine just
    continues inline on the awaiting thread and never reaches that executor).  Paths that return a computed value
    (the outcome of a registration) are R-SUSPEND's business."""
    n = 0
    ready = {}
    for f in fb.fn.values():
        if f.n == 'await_ready' and f.cfg is not None and f.clsq.startswith('yaclib::'):
            ready.setdefault(f.cls, []).append(f)
    for f in sorted(fb.fn.values(), key=lambda f: f.full):
        if f.n != 'await_suspend' or f.cfg is None or not f.clsq.startswith('yaclib::') or not f.params:
            continue
        coro = {f.params[0]}
        for d in f.own_nodes():
            if d['k'] == 'DeclStmt':
                for v in d['vars']:
                    if 'init' in v and any(f.nodes[x].get('cn', '').split('::')[-1] == 'promise'
                                           for x in [v['init']] + list(f.descendants(v['init']))):
                        coro.add(v['id'])
        res = _FormWalker(fb, coro).run(f)
        rets = [x for x in f.own_nodes() if x['k'] == 'ReturnStmt' and x.get('ch') and x['ch'][0] is not None and x['ch'][0] >= 0]
        const_only = all(f.sn(x['ch'][0]) is not None and f.sn(x['ch'][0])['k'] == 'CXXBoolLiteralExpr' for x in rets)
        if not const_only:
            continue           # computed outcome: R-SUSPEND
        # a registration whose outcome is branched on (`if (_mutex.AwaitLock(promise)) return true;`) is a computed
        # outcome as well
        conds = set()
        for x in f.own_nodes():
            if x['k'] in ('IfStmt', 'ConditionalOperator', 'WhileStmt') and x.get('cond') is not None:
                conds |= {x['cond']} | set(f.descendants(x['cond']))
        if any(c['i'] in conds and any(f.nodes[d]['k'] == 'DeclRefExpr' and f.nodes[d].get('id') in coro
                                       for a in c.get('args', []) for d in [a] + list(f.descendants(a)))
               for c in f.calls()):
            continue
        key = 'R-AWAITERFORM %s::await_suspend' % f.clsq
        n += 1
        ctx.instance(rule, key + ' :: ' + f.full[:120], dict(paths=len(res)))
        always = bool(res)
        bad = None
        for st, rv in res:
            hand = [e for e in st.events if e[0] == 'handoff']
            val = None
            if rv is not None and rv[0] == 'c':
                val = bool(rv[1])
            stays = val is None or val is True
            if stays and not hand:
                bad = (f.where, 'a path leaves the coroutine suspended (returns %s) without having handed it to anybody: '
                       'it is never resumed' % ('true' if val else 'nothing'))
            elif not stays and hand:
                bad = (hand[0][1], 'a path hands the coroutine on and then returns false: it is resumed twice')
            if not hand:
                always = False
            if bad:
                break
        if bad:
            ctx.report(rule, key, bad[0], bad[1], 'instantiation: ' + f.full[:300])
            continue
        pure = all(c['cn'].split('::')[-1] in ('promise', 'Submit', 'Get', 'operator->', 'operator=', 'operator*',
                                                'operator bool', 'IntrusivePtr') for c in f.calls())
        if always and pure:
            for g in ready.get(f.cls, []):
                grets = [x for x in g.own_nodes() if x['k'] == 'ReturnStmt' and x.get('ch')]
                ok = grets and all((g.sn(x['ch'][0]) or {}).get('k') == 'CXXBoolLiteralExpr' and
                                   not g.sn(x['ch'][0]).get('v') for x in grets)
                if not ok:
                    ctx.report(rule, 'R-AWAITERFORM %s::await_ready' % f.clsq, g.where, 'this awaiter schedules the '
                               'coroutine onto an executor in await_suspend, so await_ready must be constant false: '
                               'otherwise the coroutine continues inline on the awaiting thread and never reaches the '
                               'executor it asked for', 'instantiation: ' + g.full[:300])
                    break
    return n


def run(ctx):
    fbs = ctx.facts(['K20', 'K20n', 'KF'], kinds=('probe', 'lib'), only=r'p_coro\.cpp$|src/algo|src/exe|src/lazy', tests=r'/test/',
                    quick_tests=r'unit/coro/(await|on|future_coro_traits)\.cpp')
    rr = ctx.rule('R-READY', 'await_ready is false unless the awaited result can be read', minimum=6)
    rs = ctx.rule('R-SUSPEND', 'bool await_suspend == registration outcome', minimum=10)
    rh = ctx.rule('R-HANDOFF', 'no awaiter field is touched after the coroutine may have been handed off', minimum=30)
    rc = ctx.rule('R-COUNTER', 'multi-await counter arithmetic agrees across ctor / registration / ready / suspend / '
                  'callbacks', minimum=15)
    rn = ctx.rule('R-HERENEXT', 'Here and Next twins have equal effects', minimum=10)
    rd = ctx.rule('R-DESTROY', 'frames destroyed only by PromiseTypeDeleter', minimum=1)
    ra = ctx.rule('R-ROUTE.awaiter', 'executor-naming awaiters assign the executor before Submit', minimum=6)
    rp = ctx.rule('R-PUBLISH', 'Store precedes SetResult (PromiseType::Drop, final_suspend)', minimum=10)
    rhd = ctx.rule('R-HEAD', 'a co_awaited Task of any head kind can be started', minimum=10)
    rnr = ctx.rule('R-NODEREUSE', 'an object registered on a shared core is registered once and its next field is not '
                   'used for anything else', minimum=4)
    rre = ctx.rule('R-RESUME.executor', 'a coroutine resumed inline takes the resuming core\'s executor (every kind, every '
                   'path)', minimum=4)
    rmv = ctx.rule('R-MOVEOUT.site', '(shared with C06) an awaiter moves the awaited Result out of a core that is not '
                   'statically unique only behind GetRef() == 1: every later co_await / Get of the same SharedFuture '
                   'still receives the value', minimum=0)
    rpr = ctx.rule('R-PROMISE', 'initial_suspend suspends exactly the lazy kind; unhandled_exception stores '
                   'current_exception(); return_value stores its operand; value awaiters return Result::Ok()', minimum=12)
    rae = ctx.rule('R-AWAITEVENT', 'multi-future Await: the coroutine is resumed exactly once, by the completion that '
                   'brings the counter to zero; awaited futures are left alone; sticky forms resume through Submit',
                   minimum=6)
    rl = ctx.rule('R-LOOPCALLER', 'Here() of a callback object that is not a BaseCore returns nullptr on every path (the '
                  'Loop would call the returned core with that object as its caller)', minimum=15)
    rox = ctx.rule('R-ONEXEC', 'an executor-naming awaiter (On, AwaitOn of one or many, the event\'s AwaitOn) resumes the '
                   'coroutine through that executor on every path: await_suspend never answers "do not suspend", '
                   'await_ready is constant false', minimum=6)
    raf = ctx.rule('R-AWAITERFORM', 'scheduling awaiters (On, Yield, CurrentExecutor, ...): a path of await_suspend that '
                   'leaves the coroutine suspended has handed it to somebody, a path returning false has not; '
                   'await_ready is constant false when await_suspend always hands the coroutine to an executor',
                   minimum=3)
    for cfg, fb in sorted(fbs.items()):
        if (ctx.guard(lambda: check_on_executor(ctx, fb, rox)) or 0) < 4 and cfg == 'K20':
            ctx.guard(lambda: ctx.broken('R-ONEXEC: executor-naming awaiters not instantiated'))
        if (ctx.guard(lambda: check_awaiter_forms(ctx, fb, raf)) or 0) < 2 and cfg == 'K20':
            ctx.guard(lambda: ctx.broken('R-AWAITERFORM: On / Yield / CurrentExecutor awaiters not instantiated'))
        ctx.guard(lambda: lib_core.check_loop_caller(ctx, fb, rl))
        if (ctx.guard(lambda: check_await_event(ctx, fb, rae)) or 0) < 2:
            ctx.guard(lambda: ctx.broken('R-AWAITEVENT: AwaitEvent::Impl not instantiated in %s' % cfg))
        if (ctx.guard(lambda: check_promise_forms(ctx, fb, rpr, cfg)) or 0) < 6:
            ctx.guard(lambda: ctx.broken('R-PROMISE: PromiseType members not instantiated in %s' % cfg))
        ctx.guard(lambda: lib_core.check_move_sites(ctx, fb, rmv, lambda f: '/coro/' in f.file))
        seen = 0
        for f in sorted(fb.fn.values(), key=lambda f: f.full):
            if f.n == 'await_ready' and f.qn.startswith('yaclib::detail::') and f.cfg is not None:
                if f.clsq in ('yaclib::detail::AwaitAwaiterBase', 'yaclib::detail::AwaitSingleAwaiter'):
                    seen += 1
                    ctx.guard(lambda: lib_ready.check(ctx, fb, rr, f, 'R-READY %s [%s] :: %s' % (f.qn, cfg, f.cls[:80])))
        if seen < 2:
            ctx.broken('await_ready of the Await awaiters not instantiated in %s' % cfg)
        ctx.guard(lambda: lib_coro.check_suspend_result(ctx, fb, rs))
        ctx.guard(lambda: lib_coro.check_handoff(ctx, fb, rh))
        ctx.guard(lambda: lib_coro.check_counter(ctx, fb, rc))
        if cfg != 'K20n':
            ctx.guard(lambda: lib_coro.check_here_next(ctx, fb, rn))
        ctx.guard(lambda: lib_coro.check_destroy(ctx, fb, rd))
        ctx.guard(lambda: c05.check_awaiters(ctx, fb, ra))
        if c05.check_resume_executor(ctx, fb, rre) < 2:
            ctx.broken('PromiseType::Impl not instantiated in %s' % cfg)
        ctx.guard(lambda: lib_core.check_publish(ctx, fb, rp))
        ctx.guard(lambda: lib_head.check(ctx, fb, cfg, rhd, None))
        ctx.guard(lambda: lib_core.check_node_reuse(ctx, fb, rnr))
