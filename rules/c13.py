"""C13 — coroutines resume once, after the awaited event, with its outcome, where asked (structural clauses)."""
from rules import c05, lib_coro, lib_core, lib_head, lib_ready


def run(ctx):
    fbs = ctx.facts(['K20', 'K20n', 'KF'], kinds=('probe', 'lib'), only=r'p_coro\.cpp$|src/algo|src/exe|src/lazy', tests=r'/test/',
                    quick_tests=r'unit/coro/(await|on|future_coro_traits)\.cpp')
    rr = ctx.rule('R-READY', 'await_ready is false unless the awaited result can be read', minimum=6)
    rs = ctx.rule('R-SUSPEND', 'bool await_suspend == registration outcome', minimum=10)
    rh = ctx.rule('R-HANDOFF', 'no awaiter field is touched after the coroutine may have been handed off', minimum=30)
    rc = ctx.rule('R-COUNTER', 'multi-await counter arithmetic agrees across ctor / registration / ready / suspend / '
                  'callbacks', minimum=15)
    rn = ctx.rule('R-HERENEXT', 'Here and Next twins have equal effects', minimum=10)
    rd = ctx.rule('R-DESTROY', 'frames destroyed only by PromiseTypeDeleter', minimum=1)
    ra = ctx.rule('R-ROUTE.awaiter', 'executor-naming awaiters assign the executor before Submit', minimum=6)
    rp = ctx.rule('R-PUBLISH', 'Store precedes SetResult (PromiseType::Drop, final_suspend)', minimum=10)
    rhd = ctx.rule('R-HEAD', 'a co_awaited Task of any head kind can be started', minimum=10)
    rnr = ctx.rule('R-NODEREUSE', 'an object registered on a shared core is registered once and its next field is not '
                   'used for anything else', minimum=4)
    rre = ctx.rule('R-RESUME.executor', 'a coroutine resumed inline takes the resuming core\'s executor (every kind, every '
                   'path)', minimum=4)
    rmv = ctx.rule('R-MOVEOUT.site', '(shared with C06) an awaiter moves the awaited Result out of a core that is not '
                   'statically unique only behind GetRef() == 1: every later co_await / Get of the same SharedFuture '
                   'still receives the value', minimum=0)
    rl = ctx.rule('R-LOOPCALLER', 'Here() of a callback object that is not a BaseCore returns nullptr on every path (the '
                  'Loop would call the returned core with that object as its caller)', minimum=15)
    for cfg, fb in sorted(fbs.items()):
        ctx.guard(lambda: lib_core.check_loop_caller(ctx, fb, rl))
        ctx.guard(lambda: lib_core.check_move_sites(ctx, fb, rmv, lambda f: '/coro/' in f.file))
        seen = 0
        for f in sorted(fb.fn.values(), key=lambda f: f.full):
            if f.n == 'await_ready' and f.qn.startswith('yaclib::detail::') and f.cfg is not None:
                if f.clsq in ('yaclib::detail::AwaitAwaiterBase', 'yaclib::detail::AwaitSingleAwaiter'):
                    seen += 1
                    ctx.guard(lambda: lib_ready.check(ctx, fb, rr, f, 'R-READY %s [%s] :: %s' % (f.qn, cfg, f.cls[:80])))
        if seen < 2:
            ctx.broken('await_ready of the Await awaiters not instantiated in %s' % cfg)
        ctx.guard(lambda: lib_coro.check_suspend_result(ctx, fb, rs))
        ctx.guard(lambda: lib_coro.check_handoff(ctx, fb, rh))
        ctx.guard(lambda: lib_coro.check_counter(ctx, fb, rc))
        if cfg != 'K20n':
            ctx.guard(lambda: lib_coro.check_here_next(ctx, fb, rn))
        ctx.guard(lambda: lib_coro.check_destroy(ctx, fb, rd))
        ctx.guard(lambda: c05.check_awaiters(ctx, fb, ra))
        if c05.check_resume_executor(ctx, fb, rre) < 2:
            ctx.broken('PromiseType::Impl not instantiated in %s' % cfg)
        ctx.guard(lambda: lib_core.check_publish(ctx, fb, rp))
        ctx.guard(lambda: lib_head.check(ctx, fb, cfg, rhd, None))
        ctx.guard(lambda: lib_core.check_node_reuse(ctx, fb, rnr))
