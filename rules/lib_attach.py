"""R-ATTACHFORM and R-ADOPT: the public attach forms and the adoption of references that were passed in.

R-ATTACHFORM — every public attach method of the handle classes (Future / FutureOn / SharedFuture / SharedFutureOn /
Task: Then, ThenInline, Detach, DetachInline, Subscribe, SubscribeInline) builds its step through
detail::SetCallback<CoreT, On>(core, executor, f).  What the method promises is in its name and signature:
  Then(e, f) / Detach(e, f) / Subscribe(e, f)   executor argument is &e,      CoreT has Call
  Then(f)    / Detach(f)    / Subscribe(f)      executor argument is nullptr, CoreT has Call   (inherited executor)
  *Inline(f)                                    executor argument is nullptr, CoreT has no Call (never submits)
  Then*     -> CoreT has exactly one of ToUnique / ToShared and no Detach;  Detach* / Subscribe* -> Detach, no To*
  Task::*   -> CoreT has Lazy (and nothing else has)
  Then forms outside Task return the On flavour iff an executor is named or the receiver is an *On handle
The rule is a table over (method name, has an IExecutor& parameter, class); it is evaluated per call site of SetCallback.

R-ADOPT — IntrusivePtr{NoRefTag{}, p} / Reset(NoRefTag{}, p) adopts a reference without taking one.  When p is an
object the function did not create (the address of a reference parameter or a pointer parameter: the executor of
Run / Schedule / MakeContractOn ...) the function must have taken that reference itself: on every path the number of
p.IncRef() calls equals the number of adoptions of p and precedes them.
"""
from vlib import pathwalk

HANDLES = ('yaclib::FutureBase', 'yaclib::Future', 'yaclib::FutureOn', 'yaclib::SharedFutureBase',
           'yaclib::SharedFuture', 'yaclib::SharedFutureOn', 'yaclib::Task')
FORMS = ('Then', 'ThenInline', 'Detach', 'DetachInline', 'Subscribe', 'SubscribeInline')


def _strip(fn, i):
    n = fn.sn(i)
    while n is not None and n['k'] in ('ImplicitCastExpr', 'MaterializeTemporaryExpr', 'ExprWithCleanups', 'ParenExpr',
                                       'CXXBindTemporaryExpr', 'CXXStaticCastExpr') and n.get('ch'):
        n = fn.sn(n['ch'][0])
    return n


def _single_def(fn, vid):
    init = None
    for d in fn.own_nodes():
        if d['k'] == 'DeclStmt':
            for v in d['vars']:
                if v['id'] == vid and 'init' in v:
                    init = v['init']
    if init is None:
        return None
    for d in fn.own_nodes():     # any later assignment disqualifies
        if d['k'] == 'BinaryOperator' and d.get('op') == '=':
            l = _strip(fn, d['ch'][0])
            if l is not None and l['k'] == 'DeclRefExpr' and l.get('id') == vid:
                return None
    return init


def _exec_arg(fn, i, depth=0):
    """('param', id) for &e of an IExecutor& parameter e (or a pointer parameter), 'null', or None"""
    n = _strip(fn, i)
    if n is None:
        return None
    if n['k'] in ('CXXNullPtrLiteralExpr', 'GNUNullExpr') or n.get('v') == 0:
        return 'null'
    if n['k'] == 'UnaryOperator' and n.get('op') == '&':
        m = _strip(fn, n['ch'][0])
        if m is not None and m['k'] == 'DeclRefExpr' and m.get('id') in fn.params:
            return ('param', m['id'])
        return None
    if n['k'] == 'DeclRefExpr' and n.get('id') is not None:
        if n['id'] in fn.params:
            return ('param', n['id'])
        if depth < 2:
            init = _single_def(fn, n['id'])
            if init is not None:
                return _exec_arg(fn, init, depth + 1)
    return None


def check_attach_forms(ctx, fb, rule, only_class=None, minimum=6):
    bits = fb.enums.get('yaclib::detail::CoreType')
    if not bits:
        ctx.broken('R-ATTACHFORM: enum detail::CoreType not found')
    n = 0
    for f in sorted(fb.fn.values(), key=lambda f: f.full):
        if f.cfg is None or f.clsq not in HANDLES or (only_class and f.clsq != only_class):
            continue
        for c in f.calls():
            if c['cn'] != 'yaclib::detail::SetCallback' or len(c.get('args', [])) < 3 or not c.get('cta'):
                continue
            key = 'R-ATTACHFORM %s::%s%s' % (f.clsq, f.n, '(e, f)' if any(
                'IExecutor' in f.locals[p]['t'] for p in f.params) else '(f)')
            n += 1
            ctx.instance(rule, key + ' :: ' + f.cls[:80], dict(method=f.qn, core_type=c['cta'][0], on=c['cta'][1]))
            if f.n not in FORMS:
                ctx.broken('R-ATTACHFORM: %s builds a step but is not one of the known attach forms %s' % (f.qn, FORMS))
            try:
                ct = int(c['cta'][0])
            except ValueError:
                ctx.broken('R-ATTACHFORM: CoreT of %s is not a constant (%s)' % (f.qn, c['cta'][0]))
            eparams = [p for p in f.params if 'IExecutor' in f.locals[p]['t']]
            inline = f.n.endswith('Inline')
            got = _exec_arg(f, c['args'][1])
            if got is None:
                ctx.broken('R-ATTACHFORM: the executor argument of %s is not recognised (%s)' %
                           (f.qn, f.text(c['args'][1])[:60]))
            bad = []
            if inline and eparams:
                ctx.broken('R-ATTACHFORM: %s is an Inline form with an executor parameter' % f.qn)
            if eparams:
                if got != ('param', eparams[0]):
                    bad.append('names an executor but hands %s to the step factory: the step does not run on `%s`' % (
                        'nullptr' if got == 'null' else 'something else', f.locals[eparams[0]]['n']))
            elif got != 'null':
                bad.append('names no executor but hands one to the step factory')
            has = lambda b: bool(ct & bits[b])
            if has('Call') == inline:
                bad.append('is an Inline form but its step is submitted (CoreType::Call)' if inline else
                           'must submit its step to an executor (CoreType::Call) but builds an inline step: the '
                           'callback runs in whoever completes the previous step')
            is_then = f.n.startswith('Then')
            if is_then:
                if has('Detach') or (has('ToUnique') == has('ToShared')):
                    bad.append('is a Then form but its CoreType does not produce exactly one new future')
            elif not has('Detach') or has('ToUnique') or has('ToShared'):
                bad.append('is a Detach / Subscribe form but its CoreType is not a pure Detach step')
            if has('Lazy') != (f.clsq == 'yaclib::Task'):
                bad.append('builds a %s step on a %s' % ('lazy' if has('Lazy') else 'eager (self-starting)',
                                                         'Task' if f.clsq == 'yaclib::Task' else 'future'))
            if is_then and f.clsq != 'yaclib::Task':
                want_on = bool(eparams) or f.clsq.endswith('On')
                if (c['cta'][1] in ('1', 'true')) != want_on:
                    bad.append('returns the %s flavour: the executor the next Then(f) inherits is %s' % (
                        'On' if not want_on else 'plain', 'not defined' if not want_on else 'lost for the type system'))
            for b in bad:
                ctx.report(rule, key, f.loc(c), '%s %s' % (f.qn.split('::', 1)[1], b), 'instantiation: ' + f.full[:300])
    if n < minimum:
        ctx.broken('R-ATTACHFORM: only %d attach sites found (%d expected)' % (n, minimum))
    return n


class _AdoptWalker(pathwalk.Walker):
    max_paths = 3000

    def _param_obj(self, fn, i):
        n = _strip(fn, i)
        if n is None:
            return None
        if n['k'] == 'UnaryOperator' and n.get('op') == '&':
            n = _strip(fn, n['ch'][0])
            if n is not None and n['k'] == 'DeclRefExpr' and n.get('id') in fn.params and \
                    fn.locals[n['id']]['t'].rstrip().endswith('&'):
                return n['id']
            return None
        if n['k'] == 'DeclRefExpr' and n.get('id') in fn.params and fn.locals[n['id']]['t'].rstrip().endswith('*'):
            return n['id']
        return None

    def on_node(self, fn, n, st):
        if st.depth:
            return
        k = n['k']
        if k == 'CXXMemberCallExpr' and n.get('cn', '').split('::')[-1] == 'IncRef' and n.get('obj') is not None:
            o = _strip(fn, n['obj'])
            if o is not None and o['k'] == 'DeclRefExpr' and o.get('id') in fn.params:
                st.events.append(('incref', o['id'], fn.loc(n)))
        args = n.get('args') or []
        if k in ('CXXConstructExpr', 'CXXTemporaryObjectExpr', 'CXXMemberCallExpr') and len(args) >= 2:
            a0 = fn.sn(args[0])
            if a0 is not None and 'NoRefTag' in (a0.get('t') or ''):
                p = self._param_obj(fn, args[1])
                if p is not None:
                    st.events.append(('adopt', p, fn.loc(n)))


FRESH_MAKERS = ('MakeCore', 'MakeUnique', 'MakeShared')


def _is_fresh_local(fb, fn, vid, depth=0):
    """is local `vid` initialised with an object this function has just created (new / MakeCore / MakeUnique /
    MakeShared, possibly inside an immediately invoked lambda)?"""
    init = _single_def(fn, vid)
    if init is None:
        return False
    for d in [init] + list(fn.descendants(init)):
        m = fn.nodes[d]
        if m['k'] == 'CXXNewExpr':
            return True
        if m.get('cn', '').split('::')[-1] in FRESH_MAKERS:
            return True
        if m['k'] == 'LambdaExpr' and depth < 2:
            for key in [m.get('lam')] + list(m.get('lams', [])):
                g = fb.fn.get(key)
                if g is not None and any(x['k'] == 'CXXNewExpr' or x.get('cn', '').split('::')[-1] in FRESH_MAKERS
                                         for x in g.own_nodes()):
                    return True
    # a second name for a fresh object: `auto* raw = core.Get();` where `core` is fresh
    if depth < 2:
        for d in [init] + list(fn.descendants(init)):
            m = fn.nodes[d]
            if m['k'] == 'DeclRefExpr' and m.get('id') is not None and m['id'] != vid and m['id'] not in fn.params \
                    and 0 <= m['id'] < len(fn.locals) and _is_fresh_local(fb, fn, m['id'], depth + 1):
                return True
    return False


def _overwrites(fn):
    """Reset(NoRefTag{}, p) calls: (node, base object of the handle that is overwritten or 'this')"""
    out = []
    for n in fn.own_nodes():
        if n['k'] != 'CXXMemberCallExpr' or n.get('cn', '').split('::')[-1] != 'Reset' or len(n.get('args', [])) < 2:
            continue
        a0 = fn.sn(n['args'][0])
        if a0 is None or 'NoRefTag' not in (a0.get('t') or ''):
            continue
        o = _strip(fn, n['obj']) if n.get('obj') is not None else None
        base = None
        if o is not None and o['k'] == 'MemberExpr' and o.get('ch'):
            b = _strip(fn, o['ch'][0])
            while b is not None and b['k'] in ('UnaryOperator', 'CXXOperatorCallExpr') and (b.get('ch') or b.get('args')):
                b = _strip(fn, (b.get('args') or b.get('ch'))[0])    # *p, p.operator->()
            if b is not None and b['k'] == 'CXXThisExpr':
                base = 'this'
            elif b is not None and b['k'] == 'DeclRefExpr' and b.get('id') is not None:
                base = b['id']
        elif o is not None and o['k'] == 'DeclRefExpr' and o.get('id') is not None:
            base = ('handle', o['id'])
        out.append((n, base))
    return out


def check_adopt(ctx, fb, rule, minimum=4):
    n = 0
    binders = {}         # qn of helpers that bind their parameter counted (IncRef + adopt balanced on every path)
    for f in sorted(fb.fn.values(), key=lambda f: f.full):
        if f.cfg is None or not f.qn.startswith('yaclib::') or not f.params:
            continue
        if not any('NoRefTag' in (x.get('t') or '') for x in f.own_nodes()):
            continue
        res = _AdoptWalker(fb).run(f)
        if not any(e[0] == 'adopt' for st, _ in res for e in st.events):
            continue
        key = 'R-ADOPT %s' % f.qn
        n += 1
        ctx.instance(rule, key + ' :: ' + f.full[:120], dict(function=f.full[:200], paths=len(res)))
        bad = None
        for st, _ in res:
            bal = {}
            for e in st.events:
                if e[0] == 'incref':
                    bal[e[1]] = bal.get(e[1], 0) + 1
                elif e[0] == 'adopt':
                    bal[e[1]] = bal.get(e[1], 0) - 1
                    if bal[e[1]] < 0:
                        bad = (e[2], 'adopts a reference to `%s` (NoRefTag) that it never took: the owner releases it '
                               'once too often' % f.locals[e[1]]['n'])
                        break
            if bad is None:
                for p, b in bal.items():
                    if b > 0:
                        bad = (f.where, 'takes %d reference(s) to `%s` that nothing adopts: they are never released' %
                               (b, f.locals[p]['n']))
            if bad:
                ctx.report(rule, key, bad[0], '%s %s' % (f.qn.split('::', 1)[1], bad[1]), 'instantiation: ' + f.full[:300])
                break
        if bad is None and f.cls:
            binders[f.qn] = f
    # ---- what Reset(NoRefTag{}, p) overwrites: the handle must not hold a counted reference, i.e. it belongs to an
    # object this function has just created (or the function is a helper that is only applied to such objects)
    for f in sorted(fb.fn.values(), key=lambda f: f.full):
        if f.cfg is None or not f.qn.startswith('yaclib::') or f.qn.startswith('yaclib::IntrusivePtr'):
            continue
        for node, base in _overwrites(f):
            key = 'R-ADOPT.fresh %s' % f.qn
            sites = []
            if base == 'this':
                # every caller must apply the helper to a fresh object
                for g in fb.fn.values():
                    if g.cfg is None:
                        continue
                    for c in g.calls():
                        if c.get('cn') == f.qn and c.get('obj') is not None:
                            o = _strip(g, c['obj'])
                            while o is not None and o['k'] in ('UnaryOperator', 'CXXOperatorCallExpr') and \
                                    (o.get('ch') or o.get('args')):
                                o = _strip(g, (o.get('args') or o.get('ch'))[0])
                            sites.append((g, c, o['id'] if o is not None and o['k'] == 'DeclRefExpr' else None))
                if f.qn in binders:
                    n += len({g.qn for g, _, _ in sites})   # the callers bind through the helper
            elif isinstance(base, int):
                sites.append((f, node, base))
            else:
                ctx.broken('R-ADOPT.fresh: the handle overwritten at %s is not recognised' % f.loc(node))
            ctx.instance(rule, key + ' :: ' + f.full[:120], dict(function=f.full[:200], sites=len(sites)))
            for g, c, vid in sites:
                if vid is None or vid in g.params or not _is_fresh_local(fb, g, vid):
                    ctx.report(rule, key, g.loc(c), '%s overwrites a handle with Reset(NoRefTag) on an object it did '
                               'not create just before: a counted reference the handle already holds (the executor a lazy '
                               'head was scheduled on) is dropped without being released' % g.qn.split('::', 1)[1],
                               'instantiation: ' + g.full[:300])
                    break
    if n < minimum:
        ctx.broken('R-ADOPT: only %d functions adopting a passed-in object found (%d expected)' % (n, minimum))
    return n
