"""Executor rules (C05, C07, C08): R-LINEAR (jobs), R-LOCKSET (FairThreadPool), drain-before-stop, strand shape.

All rules are per-CFG-path (loops unrolled once, helpers of the executor class inlined).
"""
from vlib import pathwalk
from vlib.pathwalk import UNKNOWN

JOB_FINISH = ('yaclib::IFunc::Call', 'yaclib::Job::Drop')
LOCK_TYPES = ('std::unique_lock', 'std::lock_guard', 'std::scoped_lock')


def base_decl(fn, i):
    """the local variable / parameter an expression designates after casts, derefs and address-of"""
    n = fn.sn(i)
    while n is not None:
        if n['k'] in ('CXXStaticCastExpr', 'ImplicitCastExpr', 'CStyleCastExpr', 'ParenExpr', 'CXXReinterpretCastExpr'):
            n = fn.sn(n['ch'][0])
            continue
        if n['k'] == 'UnaryOperator' and n['op'] in ('*', '&'):
            n = fn.sn(n['ch'][0])
            continue
        if n['k'] == 'CallExpr' and n.get('cn') in ('std::move', 'std::forward') and n.get('args'):
            n = fn.sn(n['args'][0])
            continue
        break
    if n is not None and n['k'] == 'DeclRefExpr' and 'id' in n:
        return n['id']
    return None


class ExecWalker(pathwalk.Walker):
    """events:
       ('finish', 'Call'|'Drop', var id, loc)    job->Call()/Drop() on a local / parameter
       ('enqueue', how, var id, loc)             PushBack(job) or successful CAS that publishes &job
       ('pop', var id, loc)                      auto& x = list.PopFront()
       ('next-read', var id), ('assign', var id), ('touch', var id)
       ('lock'|'unlock', loc), ('access', field, held, loc), ('branch', callee names, taken)
    """
    loop_bound = 1
    max_paths = 20000

    def __init__(self, fb, cls, guarded=(), mutex=None):
        super().__init__(fb)
        self.cls = cls
        self.guarded = set(guarded)
        self.mutex = mutex

    def inline(self, fn, n, st):
        g = self.fb.fn.get(n.get('ck'))
        if g is not None and g.cfg is not None and st.depth < 3 and g.clsq == self.cls and \
                'virtual' not in g.flags and 'ctor' not in g.flags:
            return g
        # a file-local helper extracted from a member function (anonymous namespace, same file)
        if g is not None and g.cfg is not None and st.depth < 3 and not g.cls and g.file == fn.file and \
                '(anonymous namespace)' in g.qn:
            return g
        return None

    def on_inline(self, fn, n, g, st):
        # reference parameters alias the caller's variables (unique_lock&& lock)
        for pid, a in zip(g.params, n.get('args', [])):
            if g.locals[pid]['t'].endswith('&'):
                v = base_decl(fn, a)
                if v is not None:
                    st.data[('alias', st.depth + 1, pid)] = self.resolve(st, st.depth, v)
                else:
                    # a temporary lock object: std::unique_lock{_m}
                    t = fn.sn(a)
                    st.data[('alias', st.depth + 1, pid)] = ('tmp', n['i'])

    def resolve(self, st, depth, vid):
        a = st.data.get(('alias', depth, vid))
        return a if a is not None else (depth, vid)

    def held(self, st):
        return st.data.get('held', 0) > 0

    def set_owned(self, st, var, val):
        st.data = dict(st.data)
        owned = set(st.data.get('owned', ()))
        if val:
            if var not in owned:
                owned.add(var)
                st.data['held'] = st.data.get('held', 0) + 1
        else:
            if var in owned:
                owned.discard(var)
                st.data['held'] = st.data.get('held', 0) - 1
        st.data['owned'] = frozenset(owned)

    def on_dtor(self, fn, e, st):
        if e.get('dtor') == 'auto' and 'var' in e:
            cr = fn.S[e['cr']] if isinstance(e.get('cr'), int) else e.get('cr', '')
            if any(cr.startswith(t) for t in LOCK_TYPES):
                var = self.resolve(st, st.depth, e['var'])
                if var in st.data.get('owned', ()):
                    self.set_owned(st, var, False)
                    st.events.append(('unlock', 'dtor'))

    def call_value(self, fn, n, st):
        return UNKNOWN

    def on_node(self, fn, n, st):
        k = n['k']
        loc = fn.loc(n)
        if k == 'DeclStmt':
            for v in n['vars']:
                if 'init' not in v:
                    continue
                init = fn.sn(v['init'])
                t = fn.locals[v['id']]['t']
                if any(t.startswith(x) for x in LOCK_TYPES):
                    # std::unique_lock lock{_m};  (defer_lock etc. are not used in the library)
                    self.set_owned(st, (st.depth, v['id']), True)
                    st.events.append(('lock', loc))
                st.events.append(('assign', (st.depth, v['id'])))
                core = init
                while core is not None and core['k'] in ('CXXStaticCastExpr', 'ImplicitCastExpr', 'ParenExpr',
                                                          'CStyleCastExpr', 'CXXFunctionalCastExpr') and core.get('ch'):
                    core = fn.sn(core['ch'][0])  # auto& job = static_cast<Job&>(list.PopFront())
                if core is not None and core.get('cn', '').endswith('::PopFront'):
                    st.events.append(('pop', (st.depth, v['id']), loc))
                self.note_next_read(fn, v['init'], st)
            return
        if k in ('CXXConstructExpr', 'CXXTemporaryObjectExpr'):
            cr = n.get('cr', '')
            if any(cr.startswith(x) for x in LOCK_TYPES):
                par = fn.parents.get(n['i'])
                # temporaries (not the initialiser of a declared variable) own the mutex until moved into a callee
                if par is not None and not self.is_var_init(fn, n['i']):
                    self.set_owned(st, ('tmp', None), True)
                    st.events.append(('lock', loc))
            return
        if k in ('BinaryOperator',) and n['op'] == '=':
            v = base_decl(fn, n['ch'][0])
            lhs = fn.sn(n['ch'][0])
            if v is not None and lhs['k'] == 'DeclRefExpr':
                self.note_next_read(fn, n['ch'][1], st)
                st.events.append(('assign', (st.depth, v)))
            return
        if k == 'MemberExpr':
            dn = n['dn']
            if dn in self.guarded:
                st.events.append(('access', dn, self.held(st), loc))
            if n.get('arrow') and n.get('ch'):
                v = base_decl(fn, n['ch'][0])
                if v is not None:
                    st.events.append(('touch', (st.depth, v), n.get('mn'), loc))
            return
        if k == 'CallExpr' and n.get('cn') == 'yaclib::detail::Loop' and len(n.get('args', [])) == 2:
            v = base_decl(fn, n['args'][1])
            st.events.append(('finish', 'Loop', (st.depth, v) if v is not None else None, loc, self.held(st)))
            return
        if k != 'CXXMemberCallExpr':
            return
        cn = n['cn']
        if cn in JOB_FINISH or (cn.split('::')[-1] in ('Call', 'Drop') and n.get('cvm')):
            v = base_decl(fn, n['obj'])
            st.events.append(('finish', cn.split('::')[-1], (st.depth, v) if v is not None else None, loc,
                              self.held(st)))
            return
        last = cn.split('::')[-1]
        if last in ('PushBack', 'PushFront') and n.get('args'):
            v = base_decl(fn, n['args'][0])
            st.events.append(('enqueue', last, (st.depth, v) if v is not None else None, loc))
            return
        cr = n.get('cr', '')
        if any(cr.startswith(x) for x in LOCK_TYPES) or cn in ('std::unique_lock::unlock', 'std::unique_lock::lock'):
            v = base_decl(fn, n['obj'])
            var = self.resolve(st, st.depth, v) if v is not None else ('tmp', None)
            if isinstance(var, tuple) and var and var[0] == 'tmp':
                var = ('tmp', None)
            if last == 'unlock':
                self.set_owned(st, var, False)
                st.events.append(('unlock', loc))
            elif last == 'lock':
                self.set_owned(st, var, True)
                st.events.append(('lock', loc))
            return
        if cn in ('yaclib::detail::Spinlock::lock', 'yaclib::detail::Spinlock::unlock'):
            var = ('spin', self.member_name(fn, n['obj']))
            if last == 'lock':
                self.set_owned(st, var, True)
                st.events.append(('lock', loc))
            else:
                if var not in st.data.get('owned', ()):
                    st.events.append(('unlock-not-held', loc))
                self.set_owned(st, var, False)
                st.events.append(('unlock', loc))
            return
        if cn == 'yaclib::IExecutor::Submit':
            st.events.append(('submit', fn.text(n['args'][0]) if n.get('args') else '?', loc, self.held(st)))
        elif last in ('IncRef', 'DecRef'):
            st.events.append((last, loc))
        elif last in ('wait', 'wait_for', 'wait_until', 'join', 'sleep_for', 'sleep_until') or \
                cn in ('std::mutex::lock', 'yaclib::detail::MutexEvent::Wait'):
            st.events.append(('block', cn, loc))

    def member_name(self, fn, i):
        n = fn.sn(i)
        while n is not None and n['k'] in ('ImplicitCastExpr', 'UnaryOperator', 'CXXStaticCastExpr'):
            n = fn.sn(n['ch'][0])
        return n.get('dn') if n is not None and n['k'] == 'MemberExpr' else None

    def is_var_init(self, fn, i):
        par = fn.parents
        cur = i
        while cur in par:
            p = fn.nodes[par[cur]]
            if p['k'] == 'DeclStmt':
                return True
            if p['k'] not in ('ExprWithCleanups', 'ImplicitCastExpr', 'MaterializeTemporaryExpr',
                              'CXXBindTemporaryExpr', 'CXXFunctionalCastExpr', 'CXXConstructExpr'):
                return False
            cur = par[cur]
        return False

    def note_next_read(self, fn, i, st):
        for d in fn.descendants(i):
            m = fn.nodes[d]
            if m['k'] == 'MemberExpr' and m.get('mn') == 'next' and m.get('ch'):
                v = base_decl(fn, m['ch'][0])
                if v is not None:
                    st.events.append(('next-read', (st.depth, v)))

    def on_edge(self, fn, ci, taken, st):
        names = []
        cas = None
        for j in fn.deep_descendants(ci):  # through named values: auto* const mark = Mark(); if (x == mark)
            m = fn.nodes[j]
            if 'cn' in m:
                names.append(m['cn'])
                if m['cn'].split('::')[-1] in ('compare_exchange_weak', 'compare_exchange_strong'):
                    cas = m
        c = fn.sn(ci)
        neg = False
        while c['k'] == 'UnaryOperator' and c['op'] == '!':
            neg = not neg
            c = fn.sn(c['ch'][0])
        truth = taken != neg
        st.events.append(('branch', tuple(names), truth, fn.text(c['i'])))
        if cas is not None and c['i'] == cas['i'] and truth and len(cas.get('args', [])) >= 2:
            v = base_decl(fn, cas['args'][1])
            des = fn.sn(cas['args'][1])
            if v is not None and des is not None and des['k'] == 'UnaryOperator' and des['op'] == '&':
                st.events.append(('enqueue', 'cas', (st.depth, v), fn.loc(cas)))


def submit_overriders(fb):
    out = []
    for f in fb.fn.values():
        if f.n == 'Submit' and 'virtual' in f.flags and f.cfg is not None and len(f.params) == 1:
            out.append(f)
    return out


def alive_info(fb, cls_name):
    """(constant value or None, callee names used) of Alive() of this executor class"""
    for f in fb.fn.values():
        if f.n == 'Alive' and f.cls == cls_name and f.cfg is not None:
            w = pathwalk.Walker(fb)
            res = w.run(f)
            vals = {rv for _, rv in res}
            const = None
            if len(vals) == 1:
                v = next(iter(vals))
                if v is not None and v[0] == 'c':
                    const = bool(v[1])
            return const, {n['cn'] for n in f.calls()}
    return None, set()


def check_submit_linear(ctx, fb, rule, want=None):
    fs = [f for f in submit_overriders(fb) if want is None or want(f)]
    for f in sorted(fs, key=lambda f: f.full):
        key = 'R-LINEAR Submit %s' % f.cls
        w = ExecWalker(fb, f.clsq)
        try:
            res = w.run(f)
        except pathwalk.TooManyPaths as e:
            ctx.broken('%s: %s' % (f.full, e))
        job = (0, f.params[0])
        const_alive, alive_calls = alive_info(fb, f.cls)
        ctx.instance(rule, key, dict(overrider=f.full, where=f.where, paths=len(res),
                                     alive='constant %s' % const_alive if const_alive is not None else 'dynamic'))
        for st, _ in res:
            ev = st.events
            ends = [e for e in ev if (e[0] == 'finish' and e[2] == job) or (e[0] == 'enqueue' and e[2] == job)]
            if len(ends) != 1:
                ctx.report(rule, key, f.where,
                           'a path ends the submitted job %d times (expected exactly one of Call(), Drop(), or a '
                           'transfer into the executor\'s container): %s' % (
                               len(ends), [(e[0], e[1], e[3]) for e in ends] or 'job is lost'))
                break
            e = ends[0]
            if e[0] == 'finish' and e[1] == 'Drop':
                idx = ev.index(e)
                guards = [b for b in ev[:idx] if b[0] == 'branch']
                own_alive = {f.clsq + '::Alive', 'yaclib::IExecutor::Alive'}
                ok = const_alive is False or any(set(b[1]) & (alive_calls | own_alive) for b in guards)
                if not ok:
                    ctx.report(rule, key, e[3], 'Drop() of a submitted job is not guarded by the stop condition '
                               'that Alive() reports: a job is dropped by an executor that accepts work')
                    break
            if e[0] == 'finish' and e[1] == 'Call' and const_alive is False:
                ctx.report(rule, key, e[3], 'an executor whose Alive() is constant false calls the job')
                break
            # nothing touches the job after it was handed off / finished
            idx = ev.index(e)
            late = [x for x in ev[idx + 1:] if x[0] == 'touch' and x[1] == job]
            if late:
                ctx.report(rule, key, late[0][3], 'the job is touched (%s) after it was finished or handed to another '
                           'thread' % late[0][2])
                break
    return len(fs)


def check_dequeue(ctx, fb, rule, functions):
    """functions: list of Function that take nodes out of a container and finish them"""
    for f in functions:
        key = 'R-LINEAR dequeue %s' % f.qn
        w = ExecWalker(fb, f.clsq)
        w.loop_bound = 2
        try:
            res = w.run(f)
        except pathwalk.TooManyPaths as e:
            ctx.broken('%s: %s' % (f.full, e))
        nfin = 0
        reported = False
        for st, _ in res:
            ev = st.events
            # per finishing call on a pointer variable: next read before, reassigned before any later touch
            for i, e in enumerate(ev):
                if e[0] != 'finish' or e[2] is None:
                    continue
                nfin += 1
                var = e[2]
                # walk back to the last assignment of var
                j = i - 1
                read = False
                popped = False
                while j >= 0:
                    x = ev[j]
                    if x[0] == 'next-read' and x[1] == var:
                        read = True
                    if x[0] == 'touch' and x[1] == var and x[2] == 'next':
                        read = True
                    if x[0] == 'pop' and x[1] == var:
                        popped = True
                    if x[0] == 'assign' and x[1] == var:
                        break
                    j -= 1
                if not read and not popped and not reported:
                    reported = True
                    ctx.report(rule, key, e[3], 'a list node is finished (%s) before its next link was read in this '
                               'iteration: the callee may free the node' % e[1])
                for x in ev[i + 1:]:
                    if x[0] == 'assign' and x[1] == var:
                        break
                    if x[0] in ('touch',) and x[1] == var and not reported:
                        reported = True
                        ctx.report(rule, key, x[3], 'node is touched (%s) after %s(): it may already be freed' % (
                            x[2], e[1]))
                    if x[0] == 'finish' and x[2] == var and not reported:
                        reported = True
                        ctx.report(rule, key, x[3], 'the same node is finished twice on one path')
            # every popped node is finished exactly once
            pidx = [i for i, e in enumerate(ev) if e[0] == 'pop']
            for a, i in enumerate(pidx):
                var = ev[i][1]
                end = len(ev)
                for j in pidx[a + 1:]:
                    if ev[j][1] == var:
                        end = j
                        break
                fin = [e for e in ev[i + 1:end] if e[0] == 'finish' and e[2] == var]
                if len(fin) != 1 and not reported:
                    reported = True
                    ctx.report(rule, key, ev[i][2], 'a node taken out of the queue is finished %d times on a path' %
                               len(fin))
        ctx.instance(rule, key, dict(function=f.full, where=f.where, paths=len(res), finishing_calls_seen=nfin))
        if nfin == 0:
            ctx.broken('R-LINEAR: no finishing call recognised in %s (idiom changed)' % f.full)


def check_pool_lockset(ctx, fb, r_lock, r_drain):
    P = 'yaclib::FairThreadPool'
    guarded = {P + '::_jobs', P + '::_jobs_count'}
    entries = [f for f in fb.fn.values() if f.clsq == P and f.cfg is not None and 'ctor' not in f.flags and
               'dtor' not in f.flags and f.n in ('Submit', 'SoftStop', 'Stop', 'HardStop', 'Loop', 'Alive', 'Wait')
               and not (f.n == 'Stop' and f.params)]
    if len(entries) < 6:
        ctx.broken('FairThreadPool entry points not found (%d)' % len(entries))
    for f in sorted(entries, key=lambda f: f.n):
        key = 'R-LOCKSET FairThreadPool::%s' % f.n
        w = ExecWalker(fb, P, guarded)
        try:
            res = w.run(f)
        except pathwalk.TooManyPaths as e:
            ctx.broken('%s: %s' % (f.full, e))
        nacc = 0
        rep = False
        for st, _ in res:
            for e in st.events:
                if e[0] == 'access':
                    nacc += 1
                    if not e[2] and not rep:
                        rep = True
                        ctx.report(r_lock, key, e[3], '%s is accessed without holding _m' % e[1].split('::')[-1])
                if e[0] == 'finish' and e[4] and not rep:
                    rep = True
                    ctx.report(r_lock, key, e[3], 'a job is %sed while _m is held: the job may submit to this pool '
                               'again (self-deadlock) and blocks every other submitter' % e[1].lower())
            if st.data.get('held', 0) != 0 and not rep:
                rep = True
                ctx.report(r_lock, key, f.where, 'a path leaves the function with _m still held (or released twice)')
        ctx.instance(r_lock, key, dict(function=f.full, paths=len(res), guarded_accesses=nacc))
    # acceptance and enqueue form one critical section: the stop test that admits a job is evaluated under the
    # same lock hold in which the job is pushed (otherwise a Stop between the two leaves an accepted job that is
    # neither Called nor Dropped)
    sub = [f for f in entries if f.n == 'Submit'][0]
    _, alive_calls = alive_info(fb, sub.cls)
    key = 'R-LOCKSET accept+enqueue atomic FairThreadPool::Submit'
    w = ExecWalker(fb, P, guarded)
    res = w.run(sub)
    ctx.instance(r_lock, key, dict(function=sub.full, paths=len(res), acceptance_predicate=sorted(alive_calls)))
    for st, _ in res:
        ev = st.events
        enq = [i for i, e in enumerate(ev) if e[0] == 'enqueue']
        if not enq:
            continue
        i = enq[0]
        locks = [j for j, e in enumerate(ev[:i]) if e[0] == 'lock']
        j = locks[-1] if locks else -1
        tested = any(e[0] == 'branch' and set(e[1]) & alive_calls for e in ev[j + 1:i])
        if not tested:
            ctx.report(r_lock, key, ev[i][3], 'the job is enqueued in a critical section that did not itself test the '
                       'stop condition: a Stop/HardStop between the acceptance test and the push leaves an accepted '
                       'job that is never Called nor Dropped (check-then-act across two lock holds)')
            break
    # drain before stop: in Loop every return is reached with the queue seen empty under the same lock hold
    loop = [f for f in entries if f.n == 'Loop'][0]
    w = ExecWalker(fb, P, guarded)
    w.loop_bound = 2
    key = 'R-DRAIN FairThreadPool::Loop'
    nret = 0
    rep = False
    for st, _ in w.run(loop):
        ev = st.events
        nret += 1
        last_empty = None
        for i, e in enumerate(ev):
            if e[0] == 'branch' and any(c.endswith('List::Empty') for c in e[1]):
                last_empty = (i, e)
        if last_empty is None:
            ok = False
        else:
            i, e = last_empty
            # e[2] is the truth of Empty() itself (negations stripped)
            ok = e[2] is True and not any(x[0] == 'lock' for x in ev[i + 1:])
        if not ok and not rep:
            rep = True
            ctx.report(r_drain, key, loop.where, 'a worker can return while accepted jobs are still queued (the '
                       'emptiness test does not dominate the return under one lock hold)')
    ctx.instance(r_drain, key, dict(function=loop.full, return_paths=nret))
    # the stop bit is written only by Stop(unique_lock&&)
    key = 'R-DRAIN stop-bit writers'
    writers = set()
    for f in fb.fn.values():
        if f.clsq != P:
            continue
        for n in f.own_nodes():
            if n['k'] == 'CompoundAssignOperator' and n['op'] == '|=':
                lhs = f.sn(n['ch'][0])
                rhs = f.sn(n['ch'][1])
                if lhs.get('dn') == P + '::_jobs_count' and rhs.get('v') is not None and rhs['v'] & 1:
                    writers.add(f.qn + ('(lock)' if f.params else ''))
    ctx.instance(r_drain, key, dict(writers=sorted(writers)))
    if not writers:
        ctx.broken('R-DRAIN: no write of the stopped bit recognised (the representation of the pool state changed)')
    if writers != {'yaclib::FairThreadPool::Stop(lock)'}:
        ctx.report(r_drain, key, loop.where, 'the stopped bit is written by %s; only Stop(unique_lock&&), which is '
                   'reached after the drain test, may set it' % sorted(writers))


# ------------------------------------------------------------------------------------------------ R-COUNT (pool)

class _CountWalker(ExecWalker):
    """ExecWalker + ('count-op', op, constant, loc) for compound assignments to FairThreadPool::_jobs_count"""

    def on_node(self, fn, n, st):
        super().on_node(fn, n, st)
        if n['k'] in ('CompoundAssignOperator', 'BinaryOperator') and n.get('op', '').endswith('=') and \
                n['op'] not in ('==', '!=', '<=', '>='):
            lhs = fn.sn(n['ch'][0])
            if lhs is not None and lhs.get('dn') == 'yaclib::FairThreadPool::_jobs_count':
                rhs = fn.sn(n['ch'][1])
                st.events.append(('count-op', n['op'], (rhs or {}).get('v'), fn.loc(n)))
        elif n['k'] == 'UnaryOperator' and n.get('op') in ('++', '--'):
            lhs = fn.sn(n['ch'][0])
            if lhs is not None and lhs.get('dn') == 'yaclib::FairThreadPool::_jobs_count':
                st.events.append(('count-op', n['op'], 1, fn.loc(n)))


def check_pool_count(ctx, fb, rule):
    """R-COUNT: _jobs_count packs (accepted-and-not-finished jobs) << s | want-stop | stopped.  The unit U added per
    accepted job equals 1 << s where s is the shift NoJobs() applies; the two flag masks are distinct bits below U;
    Submit adds U exactly on the enqueue path and nothing on the reject path; in Loop every Called job is counted out
    (-= U) under the lock before the count is read again; nobody else changes the job part."""
    P = 'yaclib::FairThreadPool'
    fns = {}
    for f in fb.fn.values():
        if f.clsq == P and f.cfg is not None:
            fns.setdefault(f.n + ('(lock)' if f.n == 'Stop' and f.params else ''), f)
    for need in ('Submit', 'Loop', 'NoJobs', 'WasStop', 'WantStop', 'SoftStop', 'Stop(lock)'):
        if need not in fns:
            ctx.broken('R-COUNT: FairThreadPool::%s not found' % need)
    key = 'R-COUNT FairThreadPool constants'

    def const_of(f, opname):
        for n in f.own_nodes():
            if n['k'] == 'BinaryOperator' and n.get('op') == opname:
                a, b = f.sn(n['ch'][0]), f.sn(n['ch'][1])
                if 'dn' in a and a['dn'].endswith('::_jobs_count') or f.text(n['ch'][0]).endswith('_jobs_count'):
                    return b.get('v')
        return None
    shift = const_of(fns['NoJobs'], '>>')
    stopped = const_of(fns['WasStop'], '&')
    want = const_of(fns['WantStop'], '&')
    adds = [n for n in fns['Submit'].own_nodes() if n['k'] == 'CompoundAssignOperator' and n['op'] == '+=' and
            (fns['Submit'].sn(n['ch'][0]) or {}).get('dn') == P + '::_jobs_count']
    unit = fns['Submit'].sn(adds[0]['ch'][1]).get('v') if len(adds) == 1 else None
    ctx.instance(rule, key, dict(unit=unit, shift=shift, stopped_mask=stopped, want_stop_mask=want))
    if None in (shift, stopped, want, unit):
        ctx.broken('R-COUNT: packed counter idiom of FairThreadPool not recognised (unit=%s shift=%s stopped=%s '
                   'want=%s)' % (unit, shift, stopped, want))
    pow2 = lambda x: x > 0 and x & (x - 1) == 0  # noqa: E731
    if unit != 1 << shift or not pow2(stopped) or not pow2(want) or stopped == want or stopped >= unit or want >= unit:
        ctx.report(rule, key, fns['NoJobs'].where, 'packed counter constants disagree: a job adds %s, NoJobs() shifts by '
                   '%s, stopped mask %s, want-stop mask %s (need unit == 1 << shift and two distinct flag bits below '
                   'the unit)' % (unit, shift, stopped, want))
    # who changes the job part
    key = 'R-COUNT FairThreadPool job-part writers'
    allowed = {'Submit': ('+=',), 'Loop': ('-=',), 'SoftStop': ('|=',), 'Stop(lock)': ('|=',)}
    nwr = 0
    for name, f in sorted(fns.items()):
        for n in f.own_nodes():
            if n['k'] in ('CompoundAssignOperator', 'BinaryOperator', 'UnaryOperator') and \
                    (n.get('op', '').endswith('=') and n['op'] not in ('==', '!=', '<=', '>=') or
                     n.get('op') in ('++', '--')):
                lhs = f.sn(n['ch'][0])
                if lhs is not None and lhs.get('dn') == P + '::_jobs_count':
                    nwr += 1
                    if 'ctor' in f.flags:
                        continue
                    v = (f.sn(n['ch'][1]) or {}).get('v') if len(n.get('ch', [])) > 1 else 1
                    ok = n['op'] in allowed.get(name, ()) and (
                        (n['op'] in ('+=', '-=') and v == unit) or (n['op'] == '|=' and v in (stopped, want)))
                    if not ok:
                        ctx.report(rule, key, f.loc(n), '%s changes _jobs_count by "%s %s": only Submit (+= unit), Loop '
                                   '(-= unit) and the two flag setters may write it' % (f.qn, n['op'], v))
    ctx.instance(rule, key, dict(writes=nwr))
    # Submit
    key = 'R-COUNT FairThreadPool::Submit'
    res = _CountWalker(fb, P, {P + '::_jobs', P + '::_jobs_count'}).run(fns['Submit'])
    ctx.instance(rule, key, dict(paths=len(res)))
    for st, _ in res:
        ev = st.events
        enq = [e for e in ev if e[0] == 'enqueue']
        ops = [e for e in ev if e[0] == 'count-op']
        held_ok = all(True for e in ops)
        if bool(enq) != (len(ops) == 1 and ops[0][1] == '+=' and ops[0][2] == unit) or (not enq and ops):
            ctx.report(rule, key, fns['Submit'].where, 'an accepted (enqueued) job must be counted exactly once (+= %s) and '
                       'a rejected one not at all; this path enqueues %d job(s) and changes the count by %s' % (
                           unit, len(enq), [(e[1], e[2]) for e in ops] or 'nothing') +
                       ': Wait()/SoftStop() would return early or never')
            break
    # Loop
    key = 'R-COUNT FairThreadPool::Loop'
    w = _CountWalker(fb, P, {P + '::_jobs', P + '::_jobs_count'})
    w.loop_bound = 2
    res = w.run(fns['Loop'])
    ctx.instance(rule, key, dict(paths=len(res)))
    for st, _ in res:
        ev = st.events
        bad = None
        for i, e in enumerate(ev):
            if e[0] == 'finish' and e[1] == 'Call':
                nxt = None
                for x in ev[i + 1:]:
                    if x[0] == 'count-op' or x[0] == 'pop' or (x[0] == 'branch' and any(
                            c.split('::')[-1] in ('NoJobs', 'WantStop', 'WasStop') for c in x[1])):
                        nxt = x
                        break
                if nxt is None:
                    continue  # path cut by the loop bound right after the Call
                if not (nxt[0] == 'count-op' and nxt[1] == '-=' and nxt[2] == unit):
                    bad = e
                    break
        ncall = len([e for e in ev if e[0] == 'finish' and e[1] == 'Call'])
        nsub = len([e for e in ev if e[0] == 'count-op' and e[1] == '-='])
        if bad is None and nsub > ncall:
            bad = ('', '', '', fns['Loop'].where)
        if bad is not None:
            ctx.report(rule, key, bad[3], 'a job that was Called is not counted out (-= %s) before the count is read again '
                       '(or a job is counted out that was not run): NoJobs() never becomes true / becomes true early, so '
                       'SoftStop + Wait hang or return before the work is done' % unit)
            break


# ------------------------------------------------------------------------------------------------ R-WAKE / R-FIFO / R-JOINALL (pool)

class _WakeWalker(_CountWalker):
    """_CountWalker + ('notify', 'notify_one'|'notify_all', loc) and ('cv-wait', nargs, loc)"""

    def on_node(self, fn, n, st):
        super().on_node(fn, n, st)
        if n['k'] == 'CXXMemberCallExpr':
            last = n['cn'].split('::')[-1]
            if last in ('notify_one', 'notify_all'):
                st.events.append(('notify', last, fn.loc(n)))
            elif last in ('wait', 'wait_for', 'wait_until') and 'condition_variable' in (
                    n.get('cr', '') + n.get('ot', '') + n['cn']).lower().replace('conditionvariable',
                                                                              'condition_variable'):
                st.events.append(('cv-wait', len(n.get('args', [])), fn.loc(n)))


def check_pool_wake(ctx, fb, r_wake, r_fifo, r_join):
    """R-WAKE: the condition-variable discipline that makes "accepted job runs" and "Wait returns" true:
         W1 every path of Submit that enqueues a job notifies a worker afterwards;
         W2 every path that sets the stopped bit notifies ALL workers afterwards (each of them has to leave its loop);
         W3 a worker goes to sleep only after it has seen, under the same lock hold, the queue empty and the pool not
            stopped (the two conditions whose change is notified) — otherwise the wake-up it needs may already be past.
       R-FIFO: Submit appends at the back of the queue the workers pop from the front (single worker: submission order).
       R-JOINALL: Wait() joins every worker thread and detaches none."""
    P = 'yaclib::FairThreadPool'
    fns = {}
    for f in fb.fn.values():
        if f.clsq == P and f.cfg is not None and 'lambda' not in f.flags:
            fns.setdefault(f.n + ('(lock)' if f.n == 'Stop' and f.params else ''), f)
    for need in ('Submit', 'Loop', 'Wait', 'WasStop', 'Stop(lock)'):
        if need not in fns:
            ctx.broken('R-WAKE: FairThreadPool::%s not found' % need)
    stopped = None
    for n in fns['WasStop'].own_nodes():
        if n['k'] == 'BinaryOperator' and n.get('op') == '&':
            stopped = fns['WasStop'].sn(n['ch'][1]).get('v')
    if stopped is None:
        ctx.broken('R-WAKE: stopped mask of WasStop() not recognised')
    G = {P + '::_jobs', P + '::_jobs_count'}
    # W1
    key = 'R-WAKE Submit notifies after enqueue'
    res = _WakeWalker(fb, P, G).run(fns['Submit'])
    ctx.instance(r_wake, key, dict(paths=len(res)))
    for st, _ in res:
        ev = st.events
        enq = [i for i, e in enumerate(ev) if e[0] == 'enqueue']
        if enq and not any(e[0] == 'notify' for e in ev[enq[-1] + 1:]):
            ctx.report(r_wake, key, ev[enq[-1]][3], 'a job is put into the queue and no worker is notified afterwards on '
                       'this path: an idle worker keeps sleeping and the accepted job never runs')
            break
    # R-FIFO
    key = 'R-FIFO FairThreadPool queue discipline'
    hows = set()
    for st, _ in res:
        hows |= {e[1] for e in st.events if e[0] == 'enqueue'}
    wl = _WakeWalker(fb, P, G)
    wl.loop_bound = 2
    lres = wl.run(fns['Loop'])
    pops = sum(1 for st, _ in lres for e in st.events if e[0] == 'pop')
    ctx.instance(r_fifo, key, dict(enqueue=sorted(hows), pops_seen=pops))
    if not hows or not pops:
        ctx.broken('R-FIFO: enqueue in Submit / PopFront in Loop not recognised')
    if hows != {'PushBack'}:
        ctx.report(r_fifo, key, fns['Submit'].where, 'Submit enqueues with %s while the workers take jobs with PopFront: '
                   'jobs no longer start in submission order (single worker)' % sorted(hows))
    # W2: every function that can set the stopped bit (helpers of the class are inlined)
    key = 'R-WAKE stop notifies every worker'
    nset = 0
    for name, f in sorted(fns.items()):
        if name in ('WasStop', 'WantStop', 'NoJobs', 'Alive', 'Tag', 'Wait') or 'ctor' in f.flags or 'dtor' in f.flags:
            continue
        w = _WakeWalker(fb, P, G)
        w.loop_bound = 2
        for st, _ in w.run(f):
            ev = st.events
            for i, e in enumerate(ev):
                if e[0] == 'count-op' and e[1] in ('|=', '=') and e[2] is not None and e[2] & stopped:
                    nset += 1
                    if not any(x[0] == 'notify' and x[1] == 'notify_all' for x in ev[i + 1:]):
                        ctx.report(r_wake, key, e[3], 'the stopped bit is set on a path of %s that does not notify_all '
                                   'afterwards: sleeping workers never learn that they have to return and Wait() '
                                   'hangs' % f.qn)
                        break
    ctx.instance(r_wake, key, dict(paths_setting_the_bit=nset))
    if not nset:
        ctx.broken('R-WAKE: no path sets the stopped bit')
    # W3
    key = 'R-WAKE Loop sleeps only after testing queue and stop under the same lock hold'
    nwait = 0
    reported = False
    for st, _ in lres:
        ev = st.events
        for i, e in enumerate(ev):
            if e[0] != 'cv-wait':
                continue
            nwait += 1
            if e[1] != 1:
                ctx.broken('R-WAKE: predicate / timed form of the worker wait is not modelled (%s)' % e[2])
            j = i - 1
            while j >= 0 and ev[j][0] not in ('lock', 'cv-wait', 'unlock'):
                j -= 1
            window = ev[j + 1:i]
            saw_empty = any(b[0] == 'branch' and b[2] and any(c.endswith('List::Empty') for c in b[1])
                            for b in window)
            saw_running = any(b[0] == 'branch' and not b[2] and any(c.endswith('::WasStop') for c in b[1])
                              and len([c for c in b[1] if c.startswith(P)]) == 1 for b in window)
            if not (saw_empty and saw_running) and not reported:
                reported = True
                ctx.report(r_wake, key, e[2], 'a worker can go to sleep without having seen %s since it last acquired '
                           'the lock: the notification for that condition may already have been sent (lost wake-up: '
                           'the job waits / Wait() hangs)' % ' and '.join(
                               ([] if saw_empty else ['the queue empty']) +
                               ([] if saw_running else ['the pool not stopped'])))
    ctx.instance(r_wake, key, dict(waits_on_paths=nwait))
    if not nwait:
        ctx.broken('R-WAKE: the worker loop never waits on the condition variable')
    # R-JOINALL
    key = 'R-JOINALL FairThreadPool::Wait'
    f = fns['Wait']
    joins = [n for n in f.own_nodes() if n['k'] == 'CXXMemberCallExpr' and n['cn'].split('::')[-1] == 'join']
    det = [n for g in fns.values() for n in g.own_nodes()
           if n['k'] == 'CXXMemberCallExpr' and n['cn'].split('::')[-1] == 'detach']
    loops = [n for n in f.own_nodes() if n['k'] in ('CXXForRangeStmt', 'ForStmt', 'WhileStmt')]
    ctx.instance(r_join, key, dict(joins=len(joins), loops=len(loops)))
    if det:
        ctx.report(r_join, key, fns[[k for k, g in fns.items() if any(n in g.own_nodes() for n in det[:1])][0]].where
                   if False else f.where, 'a worker thread is detached (%s): Wait() cannot know when it has finished' %
                   det[0].get('cn'))
    if not joins or not loops:
        ctx.report(r_join, key, f.where, 'Wait() does not join the workers in a loop over _workers')
        return
    ok = False
    for lp in loops:
        body = set(f.descendants(lp['i']))
        if not any(j['i'] in body for j in joins):
            continue
        if lp['k'] == 'CXXForRangeStmt':
            # range-for over the member container itself: every element is visited
            txt = ' '.join(f.nodes[d].get('mn', '') for d in f.descendants(lp['i']) if f.nodes[d]['k'] == 'MemberExpr')
            ok = '_workers' in txt or any(f.nodes[d].get('dn', '').endswith('::_workers') for d in body)
            early = [d for d in body if f.nodes[d]['k'] in ('BreakStmt', 'ReturnStmt')]
            if early:
                ok = False
        else:
            # index / iterator loop: must start at 0 / begin() and have no early exit
            init_ok = False
            for d in f.descendants(lp['i']):
                m = f.nodes[d]
                if m['k'] == 'DeclStmt':
                    for v in m['vars']:
                        if 'init' in v:
                            iv = f.sn(v['init'])
                            if iv is not None and (iv.get('v') == 0 or iv.get('cn', '').endswith('::begin')):
                                init_ok = True
            early = [d for d in body if f.nodes[d]['k'] in ('BreakStmt', 'ReturnStmt')]
            ok = init_ok and not early
    if not ok:
        ctx.report(r_join, key, f.where, 'Wait() does not join every worker (the joining loop skips elements of '
                   '_workers or leaves early): a job may still be running after Wait() returned')


# ------------------------------------------------------------------------------------------------ R-JOBFIELDS
def check_job_fields(ctx, fb, rule, cls):
    """Sibling agreement of the two ways an executor-like Job can be finished by its underlying executor: Call() when
    it runs, Drop() when the executor refuses.  Every member of the class that can hold job nodes (type Node*, or an
    atomic / list of them) and that Call() reads or writes must be taken by Drop() as well — jobs parked in a member
    that only Call knows about are neither Called nor Dropped when the executor stops."""
    rec = fb.records.get(cls)
    if rec is None:
        ctx.broken('R-JOBFIELDS: record %s not found' % cls)
    holders = {cls + '::' + f['n'] for f in rec.fields
               if 'Node *' in f['t'] or 'Node*' in f['t'] or f['t'].endswith('detail::List') or
               f['t'].endswith('detail::Stack')}
    fns = {}
    for f in fb.fn.values():
        if f.clsq == cls and f.cfg is not None and f.n in ('Call', 'Drop') and not f.params:
            fns[f.n] = f
    if len(fns) != 2 or not holders:
        ctx.broken('R-JOBFIELDS: Call/Drop or the job-holding members of %s not found (members: %s)' % (
            cls, sorted(holders)))

    def touched(f, depth=0):
        out = set()
        for n in f.own_nodes():
            if n['k'] == 'MemberExpr' and n.get('dn') in holders:
                out.add(n['dn'])
            if depth < 2 and n['k'] in ('CXXMemberCallExpr', 'CallExpr'):
                g = fb.fn.get(n.get('ck'))
                if g is not None and g.cfg is not None and (g.clsq == cls or (not g.cls and g.file == f.file)) and \
                        g.n not in ('Call', 'Drop', 'Submit'):
                    out |= touched(g, depth + 1)
        return out
    c, d = touched(fns['Call']), touched(fns['Drop'])
    key = 'R-JOBFIELDS %s' % cls
    ctx.instance(rule, key, dict(job_holding_members=sorted(x.split('::')[-1] for x in holders),
                                 call=sorted(x.split('::')[-1] for x in c), drop=sorted(x.split('::')[-1] for x in d)))
    for fld in sorted(c - d):
        ctx.report(rule, key + ' ' + fld.split('::')[-1], fns['Drop'].where,
                   '%s can hold jobs (Call() uses it) but Drop() never takes it: when the underlying executor refuses '
                   'the strand, the jobs parked there are neither Called nor Dropped' % fld.split('::')[-1])


# ------------------------------------------------------------------------------------------------ R-STOPFINAL
def check_stop_final(ctx, fb, rule):
    """"Stopped" is final: whatever member(s) WasStop() reads, no other method may write them in a way that can take
    the pool out of the stopped state.  Bit-sets (|= constant) and additions / subtractions of the job unit keep a set
    bit set by construction; a plain assignment must either store the stopped value itself or lie on a path that
    established !WasStop().  (A pool revived by SoftStop() after Stop() accepts jobs again — they are Called after the
    stop, or parked forever when the workers are gone.)"""
    P = 'yaclib::FairThreadPool'
    ws = [f for f in fb.fn.values() if f.clsq == P and f.n == 'WasStop' and f.cfg is not None]
    if not ws:
        ctx.broken('R-STOPFINAL: FairThreadPool::WasStop not found')
    fields = {n['dn'] for n in ws[0].own_nodes() if n['k'] == 'MemberExpr' and n.get('dn', '').startswith(P + '::')}
    if not fields:
        ctx.broken('R-STOPFINAL: WasStop() reads no member')
    # the value(s) WasStop compares with (enum representation) — a store of such a value is the stop itself
    stop_vals = {(ws[0].sn(c) or {}).get('v') for n in ws[0].own_nodes() if n['k'] == 'BinaryOperator' and
                 n.get('op') in ('==', '!=', '&') for c in n['ch']} - {None}
    key = 'R-STOPFINAL FairThreadPool'
    nw = 0
    for f in sorted(fb.fn.values(), key=lambda f: f.full):
        if f.clsq != P or f.cfg is None or 'ctor' in f.flags or 'dtor' in f.flags:
            continue
        plain = [n for n in f.own_nodes() if n['k'] == 'BinaryOperator' and n.get('op') == '=' and
                 (f.sn(n['ch'][0]) or {}).get('dn') in fields]
        nw += len([n for n in f.own_nodes() if n['k'] in ('BinaryOperator', 'CompoundAssignOperator') and
                   n.get('op', '').endswith('=') and n['op'] not in ('==', '!=', '<=', '>=') and
                   (f.sn(n['ch'][0]) or {}).get('dn') in fields])
        if not plain:
            continue
        w = ExecWalker(fb, P)
        w.loop_bound = 2
        ids = {n['i']: n for n in plain}

        class _W(ExecWalker):
            def on_node(self, fn, n, st):
                super().on_node(fn, n, st)
                if fn is f and n['i'] in ids:
                    st.events.append(('plain-write', n['i'], fn.loc(n)))
        res = _W(fb, P).run(f)
        for st, _ in res:
            ev = st.events
            for i, e in enumerate(ev):
                if e[0] != 'plain-write':
                    continue
                v = (f.sn(ids[e[1]]['ch'][1]) or {}).get('v')
                if v is not None and v in stop_vals and ws[0].sn is not None and len(stop_vals) == 1:
                    continue
                running = any(b[0] == 'branch' and b[2] is False and any(c.endswith('::WasStop') for c in b[1]) and
                              len([c for c in b[1] if c.startswith(P)]) == 1 for b in ev[:i])
                if not running:
                    ctx.report(rule, key, e[2], '%s assigns the member WasStop() reads on a path that did not establish '
                               '!WasStop(): a pool that was already stopped can be taken out of the stopped state '
                               '(revived) — it accepts jobs again after Stop()/HardStop()' % f.qn)
                    return nw
    ctx.instance(rule, key, dict(state_members=sorted(x.split('::')[-1] for x in fields), writes=nw))
    return nw
