"""R-WGMODE / R-WGRESET — WaitGroup: Consume takes ownership, Attach does not; Reset re-arms latch and counter.

Consume(fs) gives the futures' cores to the group: the core pointer is Release()d from the future, the group registers
the *drop* callback (which releases the core when it completes) and releases a core that was already complete itself.
Attach(fs) leaves ownership with the caller: no Release(), the *call* callback (which only counts), no DecRef by the
group.  The mode is the template argument NeedMove of the private Insert* helpers; the rule checks, per instantiation,
that what the body does agrees with the mode, and that each public overload selects the mode its name says.
Lambdas nested in a function are part of it (the per-future work lives in a range lambda).
"""


def _nested(fb, f, depth=0):
    """f and the operator() bodies of the lambdas written inside it (recursively)"""
    out = [f]
    if depth > 3:
        return out
    for n in f.own_nodes():
        if n['k'] == 'LambdaExpr':
            for key in [n.get('lam')] + list(n.get('lams', [])):
                g = fb.fn.get(key)
                if g is not None and g is not f and g not in out:
                    out += _nested(fb, g, depth + 1)
    # private helpers of the group that are not one of the judged functions themselves (an extracted InsertOne<NeedMove>)
    for c in f.calls():
        g = fb.fn.get(c.get('ck'))
        if g is not None and g.cfg is not None and g.clsq == 'yaclib::WaitGroup' and g is not f and g not in out and \
                g.n not in ('Consume', 'Attach', 'InsertCore', 'InsertIt', 'InsertRange', 'Add', 'Done', 'Reset', 'Wait',
                            'WaitFor', 'WaitUntil', 'Count'):
            out += _nested(fb, g, depth + 1)
    return out


def _calls(fb, f):
    names = set()
    for g in _nested(fb, f):
        for c in g.calls():
            names.add(c['cn'].split('::')[-1])
    return names


def _flag(x):
    return x in ('1', 'true')


def check_wait_group(ctx, fb, rmode, rreset, rwait=None):
    n = 0
    WG = 'yaclib::WaitGroup'
    for f in sorted(fb.fn.values(), key=lambda f: f.full):
        if f.clsq != WG or f.cfg is None:
            continue
        names = _calls(fb, f)
        if f.n in ('Consume', 'Attach'):
            want = f.n == 'Consume'
            key = 'R-WGMODE WaitGroup::%s' % f.n
            callee = [c for c in f.calls() if c['cn'].split('::')[-1] in ('InsertCore', 'InsertIt', 'InsertRange')]
            n += 1
            ctx.instance(rmode, key + ' :: ' + f.full[:120], None)
            if len(callee) != 1 or not callee[0].get('cta'):
                ctx.broken('R-WGMODE: %s does not forward to exactly one Insert* helper' % f.full[:120])
            if _flag(callee[0]['cta'][0]) != want:
                ctx.report(rmode, key, f.loc(callee[0]), '%s selects the %s mode of %s: %s' % (
                    f.n, 'consume' if not want else 'attach', callee[0]['cn'].split('::')[-1],
                    'the group releases cores whose futures still own them (use after free for the owner)' if not want
                    else 'the cores taken out of the futures are never released'), 'instantiation: ' + f.full[:300])
                continue
            variadic = callee[0]['cn'].endswith('InsertCore')
            if variadic and ('Release' in names) != want:
                ctx.report(rmode, key, f.where, '%s %s the cores from the futures' % (
                    f.n, 'does not take' if want else 'takes (Release)') + (
                        ': they are released twice (by the group and by the future)' if want else
                        ': an attached future is left invalid for its owner'), 'instantiation: ' + f.full[:300])
        elif f.n == 'InsertIt' and f.fta:
            want = _flag(f.fta[0])
            key = 'R-WGMODE WaitGroup::InsertIt<%s>' % ('consume' if want else 'attach')
            n += 1
            ctx.instance(rmode, key + ' :: ' + f.full[:120], None)
            if ('Release' in names) != want:
                ctx.report(rmode, key, f.where, 'the %s form %s the cores from the futures of the range%s' % (
                    'consume' if want else 'attach', 'does not take' if want else 'takes (Release)',
                    ': they are released twice' if want else ': attached futures are left invalid for their owner'),
                    'instantiation: ' + f.full[:300])
        elif f.n == 'InsertRange' and f.fta:
            want = _flag(f.fta[0])
            key = 'R-WGMODE WaitGroup::InsertRange<%s>' % ('consume' if want else 'attach')
            n += 1
            ctx.instance(rmode, key + ' :: ' + f.full[:120], None)
            bad = None
            if ('GetDrop' in names) != want or ('GetCall' in names) == want:
                bad = 'registers the %s callback' % ('counting (call)' if want else 'releasing (drop)')
            elif ('DecRef' in names) != want:
                bad = 'releases an input that was already complete' if not want else \
                    'does not release an input that was already complete'
            if bad:
                ctx.report(rmode, key, f.where, 'the %s form %s: consumed cores must be released exactly once by the '
                           'group, attached ones never' % ('consume' if want else 'attach', bad),
                           'instantiation: ' + f.full[:300])
        elif f.n in ('Wait', 'WaitFor', 'WaitUntil') and rwait is not None:
            # the blocking forms answer through the event only: the counter reaches zero BEFORE the last Done() runs
            # Set on the event, so a waiter that returns on the counter alone lets its owner destroy / Reset the group
            # while Set is still about to write to it
            key = 'R-WGWAIT WaitGroup::%s' % f.n
            n += 1
            ctx.instance(rwait, key + ' :: ' + f.cls[:80], None)
            ev = [c for c in f.calls() if c['cn'].split('::')[-1] in ('Wait', 'WaitFor', 'WaitUntil', 'TimedWait') and
                  c['cn'] != f.qn]
            if len(ev) != 1:
                ctx.broken('R-WGWAIT: %s does not call exactly one wait of its event' % f.full[:120])
            cid = ev[0]['i']
            if f.n == 'Wait':
                def is_wait(b, i, e):
                    return isinstance(e, int) and (e == cid or cid in set(f.descendants(e)))
                if f.cfg.reaches_exit_without((f.cfg.entry, -1), is_wait) is not None:
                    ctx.report(rwait, key, f.where, 'a path of Wait() returns without having waited on the event (it '
                               'trusts something else, e.g. the counter): the last Done() may still be in front of Set(), '
                               'which then writes to a group its owner already destroyed or Reset', 'instantiation: ' +
                               f.full[:300])
            else:
                rets = [x for x in f.own_nodes() if x['k'] == 'ReturnStmt' and x.get('ch')]
                r0 = f.sn(rets[0]['ch'][0]) if len(rets) == 1 else None
                while r0 is not None and r0['k'] in ('ImplicitCastExpr', 'ExprWithCleanups', 'ParenExpr',
                                                     'MaterializeTemporaryExpr') and r0.get('ch'):
                    r0 = f.sn(r0['ch'][0])
                if r0 is None or r0['i'] != cid:
                    ctx.report(rwait, key, f.where, '%s does not return the answer of the event as is: "true" can be '
                               'reported while the last Done() is still in front of Set()' % f.n,
                               'instantiation: ' + f.full[:300])
        elif f.n == 'Reset':
            key = 'R-WGRESET WaitGroup::Reset'
            n += 1
            ctx.instance(rreset, key + ' :: ' + f.cls[:80], None)
            rearm = any(c['cn'].split('::')[-1] == 'Reset' and c['cn'] != f.qn for c in f.calls())
            counter = any(c['cn'].split('::')[-1] in ('store', 'exchange', 'operator=') and any(
                (f.nodes[d].get('mn') == 'count' or (f.nodes[d].get('dn') or '').endswith('::count'))
                for d in f.descendants(c['i'])) for c in f.calls())
            if not rearm:
                ctx.report(rreset, key, f.where, 'Reset sets the counter but does not re-arm the event: it still carries '
                           'the all-done sentinel, so every waiter of the reused group is released at once')
            elif not counter:
                ctx.report(rreset, key, f.where, 'Reset re-arms the event but does not set the counter')
    return n
