"""C06 — SharedFuture: every observer sees the one value once, never before it exists (structural clauses)."""
from rules import lib_core, lib_exec, lib_order, lib_ready, lib_shape

CB = 'yaclib::detail::BaseCore::_callback'


def run(ctx):
    fbs = ctx.facts(['K17', 'K20'], kinds=('probe', 'lib'), only=r'p_async\.cpp$|p_coro\.cpp$|p_when\.cpp$|src/', tests=r'/test/',
                    quick_tests=r'unit/async/shared_future\.cpp')
    rr = ctx.rule('R-READY', 'shared readiness predicates are false on Empty and Callback', minimum=3)
    rw = ctx.rule('R-WORD', 'protocol of _callback (shared push: CAS in a loop that re-tests kResult)', minimum=10)
    ro = ctx.rule('R-ORDER', 'role minimum orders of _callback', minimum=10)
    rc = ctx.rule('R-CASKIND', 'shared push weak CAS sits in its retry loop', minimum=3)
    rs = ctx.rule('R-SHAREDWALK', 'SetResultImpl<Shared>: each node once, next first, kSharedRefNoFuture DecRefs, one '
                  'before the last callback', minimum=2)
    rm = ctx.rule('R-MOVEOUT', 'the shared value is moved only by the provably last observer; thresholds agree with '
                  'kSharedRef*', minimum=8)
    rk = ctx.rule('R-CONSTOBS', 'const observers and shared-attached continuations never move the value', minimum=20)
    rcn = ctx.rule('R-CONNECT', 'Connect with shared sources/targets', minimum=4)
    rn = ctx.rule('R-NODISCARD', 'registration results used', minimum=20)
    rnr = ctx.rule('R-NODEREUSE', 'one callback object is registered on at most one shared core (intrusive next link)',
                   minimum=4)
    ra = ctx.rule('R-AFTERRELEASE', 'an observer reads the shared value only while it still owns its reference '
                  '(Retire, SetResultImpl<Shared>, the combinators\' Consume)', minimum=10)
    rcm = ctx.rule('R-COMMIT', 'SharedPromise::Set constructs the Result (may throw) before it gives the handle away',
                   minimum=2)
    rsh = ctx.rule('R-SHAPE', 'the shared core runs every subscribed callback exactly once and loses none (shape analysis, all list lengths)', minimum=2)
    rgw = ctx.rule('R-GETWAIT', 'SharedFuture::Get reads the stored Result only after Wait(*this) (or Ready() == true)',
                   minimum=2)
    rcf = ctx.rule('R-CASFRESH', 'every retry of a compare-exchange re-tests the refreshed expected value against the '
                   'sentinels the first attempt tested', minimum=0)
    ron = ctx.rule('R-ONENODE', 'a combinator callback node is registered on at most one shared input (a shared core links its subscribers through the node\'s next pointer)', minimum=4)
    rbr = ctx.rule('R-BRIDGE', 'Share / Split hand the source they were given and the promise of the contract they make to Connect on every path', minimum=4)
    rsa = ctx.rule('R-SETARGS', 'Set(args...) of the promise stores exactly its arguments, forwarded in order; Set() stores the value with std::in_place', minimum=3)
    rfr = ctx.rule('R-FACTORYREFS', 'a factory of a shared state builds every handle on the fresh core as an adopting one, and the initial count is kSharedRefNoFuture plus the future handles it hands out', minimum=4)
    for cfg, fb in sorted(fbs.items()):
        from rules import lib_factory
        if (ctx.guard(lambda: lib_factory.check_factory_refs(ctx, fb, rfr)) or 0) < 4:
            ctx.guard(lambda: ctx.broken('R-FACTORYREFS: the shared factories are not instantiated in %s' % cfg))
        from rules import lib_promise
        if (ctx.guard(lambda: lib_promise.check_set_args(ctx, fb, rsa, ('yaclib::SharedPromise',))) or 0) < 3:
            ctx.guard(lambda: ctx.broken('R-SETARGS: Set of the promise is not instantiated in %s' % cfg))
        from rules import lib_bridge
        if (ctx.guard(lambda: lib_bridge.check_bridges(ctx, fb, rbr)) or 0) < 4:
            ctx.guard(lambda: ctx.broken('R-BRIDGE: Share / Split are not instantiated in %s' % cfg))
        from rules import lib_when as _lw
        if (ctx.guard(lambda: _lw.check_one_node(ctx, fb, ron)) or 0) < 2:
            ctx.guard(lambda: ctx.broken('R-ONENODE: no StaticCombinator / SingleCombinator instantiation found'))
        ctx.guard(lambda: lib_order.check_cas_fresh(ctx, fb, rcf, lambda f: 'SetCallbackImpl' in f.qn))
        ctx.guard(lambda: lib_shape.check(ctx, fb, rsh, lambda qn: 'SetResultImpl' in qn, 2))
        ctx.guard(lambda: lib_core.check_commit(ctx, fb, rcm))
        if (ctx.guard(lambda: lib_core.check_get_wait(ctx, fb, rgw, ('yaclib::SharedFutureBase',))) or 0) < 2:
            ctx.guard(lambda: ctx.broken('R-GETWAIT: SharedFutureBase::Get not instantiated'))
        lib_core.check_after_release(ctx, fb, ra, lambda f: any(x in f.file for x in (
            'shared_core', 'unique_core', 'result_core', 'base_core', 'when/', 'drop_core', 'wait_event')))
        seen = 0
        for f in sorted(fb.fn.values(), key=lambda f: f.full):
            if f.qn == 'yaclib::SharedFutureBase::Ready':
                seen += 1
                ctx.guard(lambda: lib_ready.check(ctx, fb, rr, f, 'R-READY %s [%s] :: %s' % (f.qn, cfg, f.cls[:60])))
            elif f.n == 'await_ready' and f.clsq in ('yaclib::detail::AwaitSingleAwaiter',
                                                     'yaclib::detail::AwaitAwaiterBase') and f.cfg is not None and \
                    ('true' in f.cta[:1] or 'SharedHandle' in ' '.join(f.cta)):
                seen += 1
                ctx.guard(lambda: lib_ready.check(ctx, fb, rr, f, 'R-READY %s [%s] :: %s' % (f.qn, cfg, f.cls[:60])))
        if seen < 1:
            ctx.broken('SharedFutureBase::Ready not instantiated in %s' % cfg)
        ctx.guard(lambda: lib_order.check(ctx, fb, cfg, [CB], rw, ro, rc))
        ctx.guard(lambda: lib_core.check_shared_walk(ctx, fb, rs))
        walk = [f for f in fb.by_qn('yaclib::detail::BaseCore::SetResultImpl') if f.fta and f.fta[-1] in ('true', '1')]
        ctx.guard(lambda: lib_exec.check_dequeue(ctx, fb, rs, walk))
        ctx.guard(lambda: lib_core.check_moveout(ctx, fb, rm))
        if lib_core.check_move_sites(ctx, fb, rm) < 5:
            ctx.broken('R-MOVEOUT.site: fewer than 5 move-out sites found in %s' % cfg)
        ctx.guard(lambda: lib_core.check_shared_factories(ctx, fb, rm))
        ctx.guard(lambda: lib_core.check_const_observers(ctx, fb, rk))
        ctx.guard(lambda: lib_core.check_connect(ctx, fb, rcn))
        ctx.guard(lambda: lib_core.check_node_reuse(ctx, fb, rnr))
        lib_core.check_nodiscard(ctx, fb, rn, lambda f: 'shared' in f.file or 'connect' in f.file or 'share.hpp' in
                                 f.file or 'split.hpp' in f.file or 'base_core' in f.file or 'result_core' in f.file)
