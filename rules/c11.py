"""C11 — Wait returns only when ready; a timed-out wait leaves the futures intact (structural clauses)."""
import os
import subprocess

from rules import lib_core, lib_exec, lib_order, lib_wait
from vlib import facts, pathwalk

KRESULT = lib_order.KRESULT


def lambda_call_names(fb, fn, i, depth=0):
    """names of the functions called by the lambdas (incl. generic-lambda instantiations and nested lambdas) that
    appear under node i"""
    out = set()
    if depth > 4:
        return out
    for d in fn.descendants(i):
        m = fn.nodes[d]
        if m['k'] != 'LambdaExpr':
            continue
        for key in [m.get('lam')] + list(m.get('lams', [])):
            g = fb.fn.get(key)
            if g is None:
                continue
            for c in g.own_nodes():
                if 'cn' in c:
                    out.add(c['cn'].split('::')[-1])
            out |= lambda_call_names(fb, g, g.raw['body'], depth + 1)
    return out


class WaitWalker(pathwalk.Walker):
    loop_bound = 1

    def on_node(self, fn, n, st):
        if n['k'] in ('CXXMemberCallExpr', 'CallExpr', 'CXXOperatorCallExpr') and 'cn' in n:
            cn = n['cn']
            last = cn.split('::')[-1]
            loc = fn.loc(n)
            if last == 'Wait' and 'Event' in cn:
                st.events.append(('wait', 'timed' if len(n.get('args', [])) == 2 else 'untimed', n['i'], loc))
            elif n['k'] == 'CXXOperatorCallExpr' and n.get('op') == '()' and n.get('args'):
                # range(functor): the second pass passes a lambda that calls Reset
                names = lambda_call_names(self.fb, fn, n['i'])
                if 'Reset' in names:
                    st.events.append(('reset-pass', loc))
                elif 'SetCallback' in names:
                    st.events.append(('register-pass', loc))
            elif last == 'SubEqual':
                st.events.append(('subequal-call', fn.text(n['args'][0]), loc, self.arg_kind(fn, n['args'][0])))
            elif last in ('compare_exchange_strong', 'compare_exchange_weak'):
                st.events.append(('cas-call', fn.sn(n['args'][1]).get('v'), loc))

    @staticmethod
    def arg_kind(fn, i):
        """'pos' (provably >= 1), ('var', id) (a local whose sign the path conditions decide) or None"""
        a = fn.sn(i)
        if a.get('v') is not None:
            return 'pos' if isinstance(a['v'], int) and a['v'] >= 1 else None
        if a['k'] == 'DeclRefExpr' and a.get('id') is not None:
            return ('var', a['id'])
        if a['k'] == 'BinaryOperator' and a['op'] == '+':
            for c in a['ch']:
                v = fn.sn(c).get('v')
                if isinstance(v, int) and v >= 1:
                    return 'pos'  # unsigned (already complete) + 1
        return None

    def on_edge(self, fn, ci, taken, st):
        c = fn.sn(ci)
        neg = False
        while c['k'] == 'UnaryOperator' and c['op'] == '!':
            neg = not neg
            c = fn.sn(c['ch'][0])
        truth = taken != neg
        last = c.get('cn', '').split('::')[-1]
        # sign of a local: x != 0, x == 0, x > 0, 0 < x, x >= 1, plain x
        if c['k'] == 'DeclRefExpr' and c.get('id') is not None:
            st.events.append(('nz', c['id'], truth))
        elif c['k'] == 'BinaryOperator' and c['op'] in ('==', '!=', '>', '<', '>=', '<='):
            l, r = fn.sn(c['ch'][0]), fn.sn(c['ch'][1])
            op = c['op']
            if l.get('v') is not None and r['k'] == 'DeclRefExpr':
                l, r = r, l
                op = {'>': '<', '<': '>', '>=': '<=', '<=': '>='}.get(op, op)
            if l['k'] == 'DeclRefExpr' and l.get('id') is not None and r.get('v') is not None:
                v = r['v']
                nz = None
                if v == 0 and op in ('!=', '>'):
                    nz = truth
                elif v == 0 and op in ('==', '<='):
                    nz = not truth
                elif v == 1 and op == '>=':
                    nz = truth
                elif v == 1 and op == '<':
                    nz = not truth
                if nz is not None:
                    st.events.append(('nz', l['id'], nz))
        if last == 'SubEqual':
            st.events.append(('zero', truth))
        elif last == 'Wait':
            st.events.append(('wait-result', truth))
        elif c['k'] == 'BinaryOperator' and c['op'] in ('==', '!='):
            t = fn.text(c['i'])
            eq = truth == (c['op'] == '==')
            if 'reset_count' in t and 'wait_count' in t:
                st.events.append(('reset-all', eq))
            elif 'wait_count' in t and fn.sn(c['ch'][1]).get('v') == 0:
                st.events.append(('none-registered', eq))
            elif 'reset_count' in t and fn.sn(c['ch'][1]).get('v') == 0:
                st.events.append(('reset-none', eq))
            elif fn.sn(c['ch'][1]).get('v') == KRESULT:
                st.events.append(('is-result', eq))


def check_event_callbacks(ctx, fb, rule, which=('CallCallback', 'DropCallback', 'EventHelperCallback')):
    """R-EVENTCALLBACK: the callback objects a wait / wait-group registers on the futures.
       CallCallback<E>::Impl     counts the completion: exactly one Sub(1) on every path, and leaves the caller alone
                                 (an attached future stays valid for its owner)
       DropCallback<E>::Impl     releases the consumed core exactly once (caller.DecRef()) and counts exactly one
       EventHelperCallback::Here/Next  (one per shared input) hands the completion on to the event's CallCallback"""
    n = 0
    for f in fb.fn.values():
        if f.cfg is None or f.n != 'Impl' or f.clsq not in ('yaclib::detail::CallCallback',
                                                              'yaclib::detail::DropCallback'):
            continue
        kind = f.clsq.split('::')[-1]
        if kind not in which:
            continue
        key = 'R-EVENTCALLBACK %s::Impl' % kind
        res = lib_core.CoreWalker(fb).run(f)
        ctx.instance(rule, key + ' :: ' + f.cls[:100], dict(paths=len(res)))
        n += 1
        for st, _ in res:
            calls = [e for e in st.events if e[0] == 'call']
            subs = [c for c in f.calls() if c['cn'].split('::')[-1] == 'Sub']
            nsub = len([e for e in calls if e[1].split('::')[-1] == 'Sub'])
            ndec = len([e for e in st.events if e[0] == 'decref' or (e[0] == 'call' and e[1].split('::')[-1] == 'DecRef')])
            amount = [(f.sn(c['args'][0]) or {}).get('v') for c in subs if c.get('args')]
            if nsub != 1 or amount != [1]:
                ctx.report(rule, key, f.where, 'a completing future must count exactly one unit out of the event (one '
                           'Sub(1) on every path; saw %d call(s), amounts %s): the waiter is released early or never' % (
                               nsub, amount), 'instantiation: ' + f.full[:300])
                break
            if kind == 'DropCallback' and ndec != 1:
                ctx.report(rule, key, f.where, 'a consumed future must be released exactly once by its callback '
                           '(caller.DecRef(); saw %d)' % ndec, 'instantiation: ' + f.full[:300])
                break
            if kind == 'CallCallback' and ndec:
                ctx.report(rule, key, f.where, 'the callback of an attached (not consumed) future releases the caller: '
                           'the future its owner still holds dangles', 'instantiation: ' + f.full[:300])
                break
    if 'EventHelperCallback' in which:
        for f in fb.fn.values():
            if f.cfg is None or f.clsq != 'yaclib::detail::EventHelperCallback' or f.n not in ('Here', 'Next'):
                continue
            key = 'R-EVENTCALLBACK EventHelperCallback::%s' % f.n
            ctx.instance(rule, key + ' :: ' + f.cls[:100], None)
            n += 1
            fw = [c for c in f.calls() if c['cn'].split('::')[-1] == f.n and c['cn'] != f.qn]
            rets = [x for x in f.own_nodes() if x['k'] == 'ReturnStmt' and x.get('ch')]
            ok = len(fw) == 1 and len(rets) == 1 and fw[0]['i'] in ([f.strip(rets[0]['ch'][0])] +
                                                                       list(f.descendants(rets[0]['ch'][0])))
            if not ok:
                ctx.report(rule, key, f.where, 'the per-input helper of a wait on shared futures does not hand the '
                           'completion on to the event (return event->GetCall().%s(caller)): that input is never '
                           'counted' % f.n, 'instantiation: ' + f.full[:300])
    return n


def check_mutex_event(ctx, fb, re_, cfg):
    """R-EVENT (shared with C04): the MutexEvent a blocked waiter owns on its stack — _is_ready only under _m, Set
    notifies while still holding _m (its last access to the event is the unlock), Wait re-tests after every wake-up"""
    # ---- MutexEvent
    ME = 'yaclib::detail::MutexEvent'
    for f in fb.fn.values():
        if f.clsq != ME or f.cfg is None:
            continue
        if f.n == 'Set':
            key = 'R-EVENT MutexEvent::Set'
            w = lib_exec.ExecWalker(fb, ME, {ME + '::_is_ready'})
            res = w.run(f)
            ctx.instance(re_, key + ' [%s]' % cfg, None)
            for st, _ in res:
                acc = [e for e in st.events if e[0] == 'access']
                if not acc or not all(e[2] for e in acc):
                    ctx.report(re_, key, f.where, '_is_ready is written without holding _m (the waiter reads it '
                               'under _m: lost wake-up / data race)')
                    break
            notes = [n for n in f.own_nodes() if n.get('cn', '').endswith('::notify_one') or
                     n.get('cn', '').endswith('::notify_all')]
            if not notes:
                ctx.report(re_, key, f.where, 'Set does not notify the waiter')
            else:
                # the notify precedes the lock_guard destructor: it is in a block before the implicit dtor element
                cfgf = f.cfg
                pos = cfgf.pos_of(notes[0]['i'])
                dt = [(b, i) for b, i, e in cfgf.elements() if isinstance(e, dict) and e.get('dtor') == 'auto']
                if not dt or not cfgf.dominates(pos, dt[0]):
                    ctx.report(re_, key, f.loc(notes[0]), 'the waiter is notified after _m was released: the '
                               'condition variable lives on the waiter\'s stack and may already be destroyed')
        elif f.n == 'Wait' and len(f.params) == 1:
            key = 'R-EVENT MutexEvent::Wait(token)'
            ctx.instance(re_, key + ' [%s]' % cfg, None)
            cfgf = f.cfg
            waits = [n for n in f.own_nodes() if n.get('cn', '').endswith('condition_variable::wait')]
            if not waits:
                ctx.broken('MutexEvent::Wait: cv wait not found')
            for wn in waits:
                pos = cfgf.pos_of(wn['i'])
                if len(wn.get('args', [])) == 2:
                    # predicate form cv.wait(lock, pred): the library loop re-tests pred after every wake-up
                    reads = False
                    for d in f.descendants(wn['args'][1]):
                        m = f.nodes[d]
                        for key2 in [m.get('lam')] + list(m.get('lams', [])) if m['k'] == 'LambdaExpr' else []:
                            g = fb.fn.get(key2)
                            if g is not None and any(x['k'] == 'MemberExpr' and x.get('mn') == '_is_ready'
                                                     for x in g.own_nodes()):
                                reads = True
                    if not reads:
                        ctx.report(re_, key, f.loc(wn), 'the predicate of the wait does not read _is_ready')
                    continue

                def is_test(b, i, e):
                    return False
                # every path from the wait to the exit passes a branch whose condition reads _is_ready
                def blocker(b, i, e):
                    return False
                reached = cfgf.reaches_exit_without(pos, lambda b, i, e: isinstance(e, int) and
                                                    f.nodes[e]['k'] == 'MemberExpr' and
                                                    f.nodes[e].get('mn') == '_is_ready')
                if reached:
                    ctx.report(re_, key, f.loc(wn), 'Wait returns after a wake-up without re-testing _is_ready: a '
                               'spurious wake-up makes Wait() return before the futures are ready')
        elif f.n == 'Wait' and len(f.params) == 2:
            key = 'R-EVENT MutexEvent::Wait(token, timeout)'
            ctx.instance(re_, key + ' :: ' + f.full[:100], None)
            calls = [n for n in f.own_nodes() if n.get('cn', '').split('::')[-1] in ('wait_for', 'wait_until')]
            if not calls or len(calls[0].get('args', [])) != 3:
                ctx.report(re_, key, f.where, 'the timed wait must use the predicate form (re-test _is_ready after '
                           'every wake-up and at the deadline)')


def check_wait_return(ctx, fb, rr):
    """R-WAITRETURN on every WaitRange instantiation (shared with C04: a wait that returns without last-one evidence
    obtained through the counter's acquiring RMW neither synchronises with the producers nor keeps the stack event alive
    for them)"""
    ranges = [f for f in fb.fn.values() if f.qn == 'yaclib::detail::WaitRange' and f.cfg is not None]
    if len(ranges) < 4:
        ctx.broken('WaitRange instantiations missing (%d)' % len(ranges))
    for f in ranges:
        timed = not f.fta[1].endswith('NoTimeoutTag')
        key = 'R-WAITRETURN WaitRange<%s>' % ('timed' if timed else 'untimed')
        res = WaitWalker(fb).run(f)
        ctx.instance(rr, key + ' :: ' + f.full[:140], dict(paths=len(res), timed=timed))
        for st, rv in res:
            ev = st.events
            names = [e[0] for e in ev]
            if 'register-pass' not in names:
                ctx.broken('WaitRange: registration pass not recognised in %s' % f.full[:120])
            early = ('none-registered', True) in ev or ('zero', True) in ev and 'wait' not in names
            if 'reset-pass' in names:
                i = names.index('reset-pass')
                after = ev[i + 1:]
                last_zero = None  # the waiter's own subtraction found zero: it is the last one only if it
                for j, e in enumerate(after):  # subtracted something
                    if e == ('zero', True):
                        sub = [x for x in after[:j] if x[0] == 'subequal-call']
                        kind = sub[-1][3] if sub else None
                        last_zero = kind == 'pos' or (isinstance(kind, tuple) and ('nz', kind[1], True) in ev)
                        if not last_zero:
                            ctx.report(rr, key, sub[-1][2] if sub else f.where,
                                       'the counter is tested for zero by subtracting a number that can be 0 on '
                                       'this path: zero then means a producer brought it there and may still be '
                                       'inside Set() on this (returning) stack frame',
                                       'instantiation: ' + f.full[:300])
                if last_zero is False:
                    break
                safe = ('reset-all', True) in after or last_zero or \
                    any(e[0] == 'wait' and e[1] == 'untimed' for e in after)
                if not safe:
                    ctx.report(rr, key, f.where, 'a timed wait returns after its deadline while a producer that was '
                               'not withdrawn may still complete and touch the event on this (returned) stack frame',
                               'instantiation: ' + f.full[:300])
                    break
                if rv is not None and rv[0] == 'c' and rv[1] and ('reset-none', True) not in ev:
                    ctx.report(rr, key, f.where, 'returns true although the deadline passed and some registrations '
                               'had to be withdrawn (not all futures are ready)')
                    break
            else:
                waited = [e for e in ev if e[0] == 'wait']
                if not early and not waited:
                    ctx.report(rr, key, f.where, 'returns without waiting although registered futures are pending')
                    break
                if timed and waited and waited[-1][1] == 'timed' and ('wait-result', True) not in ev:
                    ctx.report(rr, key, f.where, 'returns after a timed wait that did not report ready, without the '
                               'reset pass')
                    break
    return ranges


def run(ctx):
    fbs = ctx.facts(['K17', 'K20'], kinds=('probe', 'lib'), only=r'p_async\.cpp$|p_coro\.cpp$|src/algo|src/util|src/async', tests=r'/test/',
                    quick_tests=r'unit/algo/wait\.cpp|unit/async/get\.cpp')
    rr = ctx.rule('R-WAITRETURN', 'WaitRange returns only when no producer can still touch the stack event: after the '
                  'reset pass either every registration was withdrawn / the counter reached zero, or the untimed wait '
                  'has returned', minimum=6)
    rc = ctx.rule('R-COUNTER', 'event counter: initial inputs+1, registration subtracts count - wait_count + 1',
                  minimum=6)
    rw = ctx.rule('R-WITHDRAW', 'ResetImpl never replaces the result sentinel and reports the CAS outcome', minimum=1)
    re_ = ctx.rule('R-EVENT', 'MutexEvent: _is_ready only under _m, Set notifies while holding _m, Wait re-tests after '
                   'every wake-up, timed waits pass the readiness predicate', minimum=4)
    rn = ctx.rule('R-NODISCARD', 'Reset / SetCallback results are counted', minimum=4)
    rt = ctx.rule('R-TYPEWITNESS', 'timed waits reject shared handles at compile time (4 compile-fail witnesses + 1 '
                  'positive)', minimum=5)
    ro = ctx.rule('R-ORDER', 'withdraw role orders', minimum=2)
    rwd = ctx.rule('R-WORD', 'withdraw role of _callback', minimum=2)
    rck = ctx.rule('R-CASKIND', 'withdraw CAS strong', minimum=1)
    rec = ctx.rule('R-EVENTCALLBACK', 'the callback a wait registers counts exactly one unit per completing future and '
                   'leaves the future alone; the per-input helper for shared futures forwards to it', minimum=4)
    rwf = ctx.rule('R-WAITFORMS', 'every public Wait / WaitFor / WaitUntil overload hands the wait core exactly the futures '
                   'it was given (all handles; end - begin; the count unchanged) and returns its answer as is; '
                   'WaitIterator takes the single-future shortcut only under count == 1', minimum=12)
    rdl = ctx.rule('R-DEADLINE', 'every WaitUntil form hands the caller\'s time_point, unchanged, to the blocking '
                   'primitive (no conversion to a duration, no arithmetic on the way)', minimum=4)
    for cfg, fb in sorted(fbs.items()):
        ctx.guard(lambda: lib_wait.check_deadline(ctx, fb, rdl, 4))
        from rules import lib_waitforms
        if (ctx.guard(lambda: lib_waitforms.check_wait_forms(ctx, fb, rwf)) or 0) < 12:
            ctx.guard(lambda: ctx.broken('R-WAITFORMS: the public wait overloads are not instantiated in %s' % cfg))
        if (ctx.guard(lambda: check_event_callbacks(ctx, fb, rec, ('CallCallback', 'EventHelperCallback'))) or 0) < 2:
            ctx.guard(lambda: ctx.broken('R-EVENTCALLBACK: CallCallback / EventHelperCallback not instantiated'))
        ctx.guard(lambda: lib_order.check(ctx, fb, cfg, ['yaclib::detail::BaseCore::_callback'], rwd, ro, rck))
        ranges = ctx.guard(lambda: check_wait_return(ctx, fb, rr)) or []
        for f in ranges:
            # counter arithmetic
            key = 'R-COUNTER WaitRange registration'
            ctx.instance(rc, key + ' :: ' + f.full[:140], None)
            subs = [c for c in f.calls() if c['cn'].endswith('::SubEqual')]
            ok = any('count - wait_count + 1' in f.xtext(c['args'][0]).replace('(', '').replace(')', '') or
                     (f.sn(c['args'][0])['k'] == 'BinaryOperator' and f.sn(c['args'][0])['op'] == '+' and
                      f.sn(f.sn(c['args'][0])['ch'][1]).get('v') == 1 and 'wait_count' in f.text(c['args'][0]))
                     for c in subs)
            if not ok:
                ctx.report(rc, key, f.where, 'after registration the counter must be reduced by (count - wait_count + 1): '
                           'the inputs that were already complete plus the waiter\'s own unit')
        for f in fb.fn.values():
            if f.qn in ('yaclib::detail::WaitCore', 'yaclib::detail::WaitIterator') and f.cfg is not None:
                key = 'R-COUNTER %s event size' % f.qn
                ctx.instance(rc, key + ' :: ' + f.full[:140], None)
                ok = False
                for n in f.own_nodes():
                    if n['k'] == 'DeclStmt':
                        for v in n['vars']:
                            if f.locals[v['id']]['n'] == 'event' and 'init' in v:
                                init = f.sn(v['init'])
                                a = f.sn(init['args'][0]) if init.get('args') else None
                                if a is not None:
                                    if a['k'] == 'BinaryOperator' and a['op'] == '+' and f.sn(a['ch'][1]).get('v') == 1:
                                        ok = True
                                    elif a.get('v') is not None:
                                        nh = len([p for p in f.params if 'Handle' in f.locals[p]['t']])
                                        ok = a['v'] == nh + 1
                if not ok and any(f.locals[v['id']]['n'] == 'event' for n in f.own_nodes() if n['k'] == 'DeclStmt'
                                  for v in n['vars']):
                    ctx.report(rc, key, f.where, 'the wait event must start at (number of futures + 1)')
        # ---- ResetImpl
        for f in fb.by_qn('yaclib::detail::BaseCore::ResetImpl'):
            key = 'R-WITHDRAW BaseCore::ResetImpl'
            res = WaitWalker(fb).run(f)
            ctx.instance(rw, key + ' [%s]' % cfg, dict(paths=len(res)))
            for st, rv in res:
                ev = st.events
                for i, e in enumerate(ev):
                    if e[0] == 'cas-call' and not any(x == ('is-result', False) for x in ev[:i]):
                        ctx.report(rw, key, f.where, 'the withdraw CAS can run with expected == kResult: it would replace '
                                   'a delivered result by "empty" (the future never becomes ready again)')
                        break
            rets = [x for x in f.own_nodes() if x['k'] == 'ReturnStmt' and x.get('ch')]
            if not any(f.nodes[d].get('cn', '').endswith('compare_exchange_strong') for r in rets
                       for d in f.descendants(r['ch'][0])):
                ctx.report(rw, key, f.where, 'Reset must report whether its CAS withdrew the registration')
        ctx.guard(lambda: check_mutex_event(ctx, fb, re_, cfg))
        ctx.guard(lambda: lib_core.check_nodiscard(ctx, fb, rn, lambda f: 'wait_impl.hpp' in f.file or 'wait_group.hpp' in f.file))
    # ---- type witnesses
    wit = os.path.join(facts.VERIF, 'witness', 'wait_shared.cpp')
    for nfail in (0, 1, 2, 3, 4):
        cmd = ['clang++', '-fsyntax-only', wit, '-DWITNESS_FAIL=%d' % nfail] + facts.flags('K17', ctx.root)
        p = subprocess.run(cmd, stdout=subprocess.PIPE, stderr=subprocess.PIPE, text=True)
        key = 'R-TYPEWITNESS %s' % ('positive: untimed waits accept shared handles' if nfail == 0 else
                                    'negative #%d: timed wait with a shared handle must not compile' % nfail)
        ctx.instance(rt, key, dict(compiles=p.returncode == 0))
        if nfail == 0 and p.returncode != 0:
            ctx.broken('positive witness does not compile: ' + p.stderr[-800:])
        if nfail != 0 and p.returncode == 0:
            ctx.report(rt, key, 'witness/wait_shared.cpp', 'a timed wait on a SharedFuture compiles: after a timeout the '
                       'shared core cannot withdraw the registered callback, so a completion touches the waiter after '
                       'the call returned')
