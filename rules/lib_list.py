"""R-LISTSPEC — the intrusive singly linked `detail::List` (queue of FairThreadPool and ManualExecutor) implements the
sequence it stands for: PushBack appends, PushFront prepends, PopFront removes and returns the first element, Empty is
"no element", the move constructor transfers the whole sequence and leaves the source a valid empty list; every
operation re-establishes the representation invariant (`_tail` is the last node, or the sentinel when empty; the chain
from the sentinel ends in nullptr; no stale pointer is left behind).

Technique: abstract interpretation of each member function's AST over an explicit heap of named cells (sentinels, list
nodes n1..nk, the incoming node X whose `next` is uninitialised garbage).  The functions are loop-free, so they reach at
most a bounded number of links from either end of the list; they are interpreted on every list length 0..4 and the
analysis checks that on the longest list at least one middle node was neither read nor written — longer lists then
differ only in cells the function never looks at (small-model argument).  A loop, a call the interpreter does not know,
or a longest run that touches every node makes the rule analysis-broken rather than a pass.
Nothing is executed: the interpreter walks the typed AST facts.
"""
from vlib import facts

LIST = 'yaclib::detail::List'
PASS_THROUGH = ('ImplicitCastExpr', 'ParenExpr', 'MaterializeTemporaryExpr', 'ExprWithCleanups', 'CXXBindTemporaryExpr',
                'CXXStaticCastExpr', 'CXXFunctionalCastExpr', 'ConstantExpr', 'CXXDefaultInitExpr')
JUNK = ('junk',)


class SpecViolation(Exception):
    pass


class _Return(Exception):
    def __init__(self, value):
        self.value = value


class Heap:
    def __init__(self):
        self.next = {}   # node object -> ('p', obj) | None | JUNK
        self.tail = {}   # list name -> ('p', obj)
        self.touched = set()

    def make_list(self, name, nodes):
        h = 'H:' + name
        chain = [h] + list(nodes)
        for a, b in zip(chain, chain[1:]):
            self.next[a] = ('p', b)
        self.next[chain[-1]] = None
        self.tail[name] = ('p', chain[-1])

    def read_list(self, name, bound=16):
        """the sequence a list stands for, or raises SpecViolation when the representation is not well formed"""
        h = 'H:' + name
        seq = []
        cur = self.next.get(h, JUNK)
        while cur is not None:
            if cur == JUNK or cur[0] != 'p':
                raise SpecViolation('the chain of %s runs into an uninitialised next pointer after %s' % (name, seq))
            if cur[1] in seq or cur[1].startswith('H:') or len(seq) > bound:
                raise SpecViolation('the chain of %s is cyclic or runs through a sentinel (%s then %s)' % (
                    name, seq, cur[1]))
            seq.append(cur[1])
            cur = self.next.get(cur[1], JUNK)
        last = seq[-1] if seq else h
        if self.tail.get(name) != ('p', last):
            raise SpecViolation('_tail of %s designates %s but the last node is %s' % (
                name, self.tail.get(name), 'the sentinel' if last == h else last))
        return seq


class Interp:
    def __init__(self, fb, heap):
        self.fb = fb
        self.h = heap
        self.depth = 0

    # ---------------------------------------------------------------- expressions
    def lv(self, f, env, i):
        n = f.nodes[i]
        k = n['k']
        if k in PASS_THROUGH and n.get('cast') != 'LValueToRValue':
            return self.lv(f, env, n['ch'][0])
        if k == 'DeclRefExpr':
            b = env['vars'].get(n.get('id'))
            if b is None:
                raise facts.AnalysisBroken('R-LISTSPEC: reference to %s not modelled in %s' % (n.get('dn'), f.full))
            return b if b[0] in ('listobj', 'nodeobj') else ('local', n['id'])
        if k == 'MemberExpr':
            mn = n.get('mn')
            if mn == '_head' or mn == '_tail':
                if n.get('arrow'):
                    base = self.rv(f, env, n['ch'][0])
                    if not base or base[0] != 'L':
                        raise facts.AnalysisBroken('R-LISTSPEC: list member through %s' % (base,))
                    name = base[1]
                else:
                    b = self.lv(f, env, n['ch'][0])
                    if b[0] != 'listobj':
                        raise facts.AnalysisBroken('R-LISTSPEC: list member of %s' % (b,))
                    name = b[1]
                return ('nodeobj', 'H:' + name) if mn == '_head' else ('tailcell', name)
            if mn == 'next':
                if n.get('arrow'):
                    p = self.rv(f, env, n['ch'][0])
                    if p is None:
                        raise SpecViolation('%s dereferences a null node pointer (%s)' % (f.loc(n), f.text(i)))
                    if p == JUNK or p[0] != 'p':
                        raise SpecViolation('%s dereferences an uninitialised / foreign pointer (%s)' % (
                            f.loc(n), f.text(i)))
                    return ('nextcell', p[1])
                b = self.lv(f, env, n['ch'][0])
                if b[0] != 'nodeobj':
                    raise facts.AnalysisBroken('R-LISTSPEC: .next of %s' % (b,))
                return ('nextcell', b[1])
            raise facts.AnalysisBroken('R-LISTSPEC: member %s not modelled (%s)' % (mn, f.loc(n)))
        if k == 'UnaryOperator' and n['op'] == '*':
            p = self.rv(f, env, n['ch'][0])
            if p is None or p == JUNK:
                raise SpecViolation('%s dereferences %s' % (f.loc(n), 'nullptr' if p is None else 'an uninitialised pointer'))
            if p[0] == 'p':
                return ('nodeobj', p[1])
            if p[0] == 'L':
                return ('listobj', p[1])
        if k == 'BinaryOperator' and n['op'] == '=':
            dst = self.lv(f, env, n['ch'][0])
            self.store(env, dst, self.rv(f, env, n['ch'][1]))
            return dst
        raise facts.AnalysisBroken('R-LISTSPEC: lvalue %s not modelled (%s in %s)' % (k, f.loc(n), f.full))

    def load(self, env, cell):
        if cell[0] == 'nextcell':
            self.h.touched.add(cell[1])
            return self.h.next.get(cell[1], JUNK)
        if cell[0] == 'tailcell':
            return self.h.tail.get(cell[1], JUNK)
        if cell[0] == 'local':
            return env['locals'].get(cell[1], JUNK)
        raise facts.AnalysisBroken('R-LISTSPEC: load of %s' % (cell,))

    def store(self, env, cell, v):
        if cell[0] == 'nextcell':
            self.h.touched.add(cell[1])
            self.h.next[cell[1]] = v
        elif cell[0] == 'tailcell':
            self.h.tail[cell[1]] = v
        elif cell[0] == 'local':
            env['locals'][cell[1]] = v
        else:
            raise facts.AnalysisBroken('R-LISTSPEC: store to %s' % (cell,))

    def rv(self, f, env, i):
        n = f.nodes[i]
        k = n['k']
        if k == 'ImplicitCastExpr' and n.get('cast') == 'LValueToRValue':
            return self.load(env, self.lv(f, env, n['ch'][0]))
        if k in PASS_THROUGH:
            return self.rv(f, env, n['ch'][0])
        if k == 'CXXNullPtrLiteralExpr' or (k == 'GNUNullExpr'):
            return None
        if k == 'CXXThisExpr':
            return ('L', env['this'])
        if k in ('CXXBoolLiteralExpr', 'IntegerLiteral'):
            return ('c', n.get('v'))
        if k == 'UnaryOperator':
            op = n['op']
            if op == '&':
                b = self.lv(f, env, n['ch'][0])
                if b[0] == 'nodeobj':
                    return ('p', b[1])
                if b[0] == 'listobj':
                    return ('L', b[1])
                raise facts.AnalysisBroken('R-LISTSPEC: address of %s' % (b,))
            if op == '!':
                return ('c', not self.truth(self.rv(f, env, n['ch'][0])))
            if op == '*':
                return self.lv(f, env, i)
        if k == 'BinaryOperator':
            op = n['op']
            if op in ('==', '!='):
                a, b = self.rv(f, env, n['ch'][0]), self.rv(f, env, n['ch'][1])
                if a == JUNK or b == JUNK:
                    raise SpecViolation('%s compares an uninitialised pointer (%s)' % (f.loc(n), f.text(i)))
                return ('c', (a == b) == (op == '=='))
            if op == '||':
                return ('c', self.truth(self.rv(f, env, n['ch'][0])) or self.truth(self.rv(f, env, n['ch'][1])))
            if op == '&&':
                return ('c', self.truth(self.rv(f, env, n['ch'][0])) and self.truth(self.rv(f, env, n['ch'][1])))
            if op == '=':
                return self.load(env, self.lv(f, env, i))
            if op == ',':
                self.rv(f, env, n['ch'][0])
                return self.rv(f, env, n['ch'][1])
        if k == 'ConditionalOperator':
            c = self.truth(self.rv(f, env, n['ch'][0]))
            return self.rv(f, env, n['ch'][1 if c else 2])
        if k == 'CStyleCastExpr' and n.get('cast') == 'ToVoid':
            self.rv(f, env, n['ch'][0])
            return ('c', 0)
        if k == 'CallExpr' and n.get('cn') in ('std::exchange', 'std::__exchange'):
            cell = self.lv(f, env, n['args'][0])
            new = self.rv(f, env, n['args'][1])
            old = self.load(env, cell)
            self.store(env, cell, new)
            return old
        if k == 'CallExpr' and n.get('cn') == 'std::swap':
            a, b = self.lv(f, env, n['args'][0]), self.lv(f, env, n['args'][1])
            va, vb = self.load(env, a), self.load(env, b)
            self.store(env, a, vb)
            self.store(env, b, va)
            return ('c', 0)
        if k == 'CallExpr' and n.get('cn') in ('std::move', 'std::forward', 'std::addressof'):
            if n['cn'] == 'std::addressof':
                b = self.lv(f, env, n['args'][0])
                return ('p', b[1]) if b[0] == 'nodeobj' else ('L', b[1])
            return self.rv(f, env, n['args'][0])
        if k == 'CXXMemberCallExpr' and n.get('cr') == LIST:
            g = self.fb.fn.get(n.get('ck'))
            if g is None or 'body' not in g.raw:
                raise facts.AnalysisBroken('R-LISTSPEC: %s has no body in this unit' % n.get('cn'))
            on = f.nodes[n['obj']]
            if on.get('t', '').rstrip().endswith('*'):
                obj = self.rv(f, env, n['obj'])
            else:
                b = self.lv(f, env, n['obj'])
                obj = ('L', b[1]) if b[0] == 'listobj' else None
            if not obj or obj[0] != 'L':
                raise facts.AnalysisBroken('R-LISTSPEC: member call on %s' % (obj,))
            args = []
            for pid, a in zip(g.params, n.get('args', [])):
                t = g.locals[pid]['t']
                args.append(self.lv(f, env, a) if t.endswith('&') else self.rv(f, env, a))
            return self.call(g, obj[1], args)
        raise facts.AnalysisBroken('R-LISTSPEC: expression %s not modelled (%s in %s)' % (k, f.loc(n), f.full))

    @staticmethod
    def truth(v):
        if v is None:
            return False
        if v == JUNK:
            raise SpecViolation('a branch depends on an uninitialised value')
        if v[0] == 'c':
            return bool(v[1])
        return True

    # ---------------------------------------------------------------- statements
    def stmt(self, f, env, i):
        n = f.nodes[i]
        k = n['k']
        if k == 'CompoundStmt':
            for c in n.get('ch', []):
                self.stmt(f, env, c)
        elif k == 'IfStmt':
            if self.truth(self.rv(f, env, n['cond'])):
                self.stmt(f, env, n['then'])
            elif 'else' in n:
                self.stmt(f, env, n['else'])
        elif k == 'ReturnStmt':
            if not n.get('ch'):
                raise _Return(None)
            if f.ret.endswith('&'):
                raise _Return(self.lv(f, env, n['ch'][0]))
            raise _Return(self.rv(f, env, n['ch'][0]))
        elif k == 'DeclStmt':
            for v in n['vars']:
                t = f.locals[v['id']]['t']
                if 'init' not in v:
                    env['locals'][v['id']] = JUNK
                elif t.endswith('&'):
                    env['vars'][v['id']] = self.lv(f, env, v['init'])
                else:
                    env['locals'][v['id']] = self.rv(f, env, v['init'])
                    env['vars'].setdefault(v['id'], ('local', v['id']))
        elif k in ('WhileStmt', 'ForStmt', 'DoStmt', 'CXXForRangeStmt', 'GotoStmt', 'SwitchStmt'):
            raise facts.AnalysisBroken('R-LISTSPEC: %s in %s — the small-model argument needs loop-free list '
                                       'operations' % (k, f.full))
        elif k == 'NullStmt':
            pass
        else:
            self.rv(f, env, i)

    def call(self, g, this, args):
        self.depth += 1
        if self.depth > 4:
            raise facts.AnalysisBroken('R-LISTSPEC: recursion in %s' % g.full)
        env = dict(this=this, vars={}, locals={})
        for pid, a in zip(g.params, args):
            if g.locals[pid]['t'].endswith('&'):
                env['vars'][pid] = a
            else:
                env['vars'][pid] = ('local', pid)
                env['locals'][pid] = a
        try:
            if 'ctor' in g.flags:
                self.member_inits(g, env)
            self.stmt(g, env, g.raw['body'])
            ret = None
        except _Return as r:
            ret = r.value
        self.depth -= 1
        return ret

    def member_inits(self, g, env):
        """the constructor's member initialisers, default member initialisers included (the extractor lists them in
        declaration order; a CXXDefaultInitExpr carries the in-class initialiser as its child)"""
        this = env['this']
        for it in g.raw.get('inits', []):
            what = g.S[it['what']] if isinstance(it['what'], int) else it['what']
            e = g.nodes[it['e']]
            if what.endswith('::_head'):
                # Node{} : the sentinel's fields take their default member initialisers
                rec = self.fb.records.get('yaclib::detail::Node')
                fld = [f for f in (rec.fields if rec else []) if f['n'] == 'next']
                if e['k'] != 'CXXConstructExpr' or e.get('args') or not fld:
                    raise facts.AnalysisBroken('R-LISTSPEC: initialiser of List::_head not modelled')
                if not fld[0]['dmi']:
                    self.h.next['H:' + this] = JUNK
                elif fld[0].get('dmiv') == 0:
                    self.h.next['H:' + this] = None
                else:
                    raise facts.AnalysisBroken('R-LISTSPEC: default initialiser of Node::next is not a null constant')
            elif what.endswith('::_tail'):
                if e['k'] == 'CXXDefaultInitExpr' and not e.get('ch'):
                    raise facts.AnalysisBroken('R-LISTSPEC: default member initialiser of List::_tail not extracted')
                self.h.tail[this] = self.rv(g, env, it['e'])
            else:
                raise facts.AnalysisBroken('R-LISTSPEC: List has a member %s the heap model does not know' % what)


MAXLEN = 4


def _fresh(k):
    h = Heap()
    nodes = ['n%d' % (j + 1) for j in range(k)]
    h.make_list('this', nodes)
    return h, nodes


def check_list_spec(ctx, fb, rule):
    fns = {}
    for f in fb.fn.values():
        if f.clsq == LIST and 'body' in f.raw and f.cfg is not None:
            name = f.n if 'ctor' not in f.flags else ('List(List&&)' if f.params else 'List()')
            fns[name] = f
    need = ('PushBack', 'PushFront', 'PopFront', 'Empty', 'List(List&&)')
    miss = [x for x in need if x not in fns]
    if miss:
        ctx.broken('R-LISTSPEC: detail::List::%s has no definition in the analysed unit' % ', '.join(miss))

    def run(name, k, setup, post):
        f = fns[name]
        key = 'R-LISTSPEC List::%s' % name
        h, nodes = _fresh(k)
        it = Interp(fb, h)
        try:
            this, args = setup(h, nodes)
            ret = it.call(f, this, args)
            msg = post(h, nodes, ret)
        except SpecViolation as e:
            msg = str(e)
        ctx.instance(rule, '%s on a list of %d' % (key, k), None)
        if msg:
            ctx.report(rule, key, f.where, 'on a list of %d element(s): %s' % (k, msg),
                       'abstract heap after the call: next=%s tail=%s' % (
                           {a: b for a, b in sorted(h.next.items())}, h.tail))
            return False, h
        return True, h

    def uniform(name, h, nodes, also=()):
        middle = [x for x in nodes[1:-1] if x not in h.touched]
        if not middle:
            ctx.broken('R-LISTSPEC: List::%s touches every node of a list of %d: the small-model argument (longer lists '
                       'differ only in untouched cells) does not apply' % (name, len(nodes)))

    def expect_seq(h, name, want):
        got = h.read_list(name)
        if got != want:
            return 'the list should now be %s but is %s' % (want or 'empty', got or 'empty')
        return None

    for k in range(0, MAXLEN + 1):
        # PushBack / PushFront: X arrives with an uninitialised next
        for name, where in (('PushBack', 'back'), ('PushFront', 'front')):
            def setup(h, nodes):
                h.next['X'] = JUNK
                return 'this', [('nodeobj', 'X')]

            def post(h, nodes, ret, where=where):
                return expect_seq(h, 'this', nodes + ['X'] if where == 'back' else ['X'] + nodes)
            ok, h = run(name, k, setup, post)
            if ok and k == MAXLEN:
                uniform(name, h, ['n%d' % (j + 1) for j in range(k)])
        # Empty
        ok, h = run('Empty', k, lambda h, nodes: ('this', []),
                    lambda h, nodes, ret, k=k: expect_seq(h, 'this', nodes) or (
                        None if ret == ('c', k == 0) else 'Empty() returns %s' % (ret,)))
        if ok and k == MAXLEN:
            uniform('Empty', h, ['n%d' % (j + 1) for j in range(k)])
        # PopFront (precondition: not empty)
        if k >= 1:
            def post_pop(h, nodes, ret):
                if ret != ('nodeobj', nodes[0]):
                    return 'PopFront returns %s, the first element is %s' % (ret, nodes[0])
                return expect_seq(h, 'this', nodes[1:])
            ok, h = run('PopFront', k, lambda h, nodes: ('this', []), post_pop)
            if ok and k == MAXLEN:
                uniform('PopFront', h, ['n%d' % (j + 1) for j in range(k)])
        # move constructor: `this` is the freshly default-initialised object, `other` holds the sequence

        def setup_move(h, nodes):
            h.make_list('other', nodes)
            # `this` is raw storage: the constructor's (default) member initialisers are interpreted first
            h.next['H:this'] = JUNK
            h.tail['this'] = JUNK
            return 'this', [('listobj', 'other')]

        def post_move(h, nodes, ret):
            return expect_seq(h, 'this', nodes) or expect_seq(h, 'other', [])
        ok, h = run('List(List&&)', k, setup_move, post_move)
        if ok and k == MAXLEN:
            uniform('List(List&&)', h, ['n%d' % (j + 1) for j in range(k)])
    return len(fns)
