"""R-FACTORYREFS — the factories of shared states hand out exactly the references the fresh core was created with.

A shared core is created with an explicit reference count (MakeShared<...>(N, ...)): kSharedRefNoFuture (3) for the
producer side — what SetResult gives back — plus one per future handle that is handed out.  In a function that creates
such a core, every handle built from the fresh core (its raw pointer, core.Get(), core.Release()) must therefore ADOPT
its reference (NoRefTag): a counting handle adds a reference nobody gives back and the core is never destroyed.  And
N agrees with what is handed out: N == kSharedRefNoFuture + number of adopting *future* handles.
"""
from rules import lib_attach


def _const(fb, fn, i):
    n = fn.sn(i)
    for _ in range(6):
        if n is None:
            return None
        if n.get('v') is not None:
            return n['v']
        if n['k'] == 'DeclRefExpr' and (n.get('dn') in fb.vars):
            return fb.vars[n['dn']].get('v')
        if n.get('ch'):
            n = fn.sn(n['ch'][0])
        else:
            return None
    return None


def _is_core_make(c):
    import re
    return c['cn'].split('::')[-1] == 'MakeShared' and c.get('args') and c.get('cta') and \
        re.match(r'^yaclib::detail::(SharedCore|PromiseCore)<', c['cta'][0]) is not None


def check_factory_refs(ctx, fb, rule):
    n = 0
    nofut = (fb.vars.get('yaclib::detail::kSharedRefNoFuture') or {}).get('v')
    if nofut is None:
        ctx.broken('R-FACTORYREFS: kSharedRefNoFuture not found')
    for f in sorted(fb.fn.values(), key=lambda f: f.full):
        if f.cfg is None or not f.qn.startswith('yaclib::'):
            continue
        if not any(_is_core_make(c) for g in lib_attach_nested(fb, f) for c in g.calls()):
            continue
        # the local that holds the fresh core
        cores = set()
        for d in f.own_nodes():
            if d['k'] == 'DeclStmt':
                for v in d['vars']:
                    if 'init' in v and lib_attach._is_fresh_local(fb, f, v['id']):
                        cores.add(v['id'])
        if not cores:
            continue
        counts = {_const(fb, g, c['args'][0]) for g in lib_attach_nested(fb, f) for c in g.calls() if _is_core_make(c)}
        key = 'R-FACTORYREFS %s' % f.qn
        n += 1
        adopting_futures = 0
        bad = None
        for x in f.own_nodes():
            if x['k'] not in ('CXXConstructExpr', 'CXXTemporaryObjectExpr', 'InitListExpr', 'CXXFunctionalCastExpr') or \
                    'IntrusivePtr<' not in (x.get('t') or ''):
                continue
            args = x.get('args') or x.get('ch') or []
            refs_core = any(f.nodes[d]['k'] == 'DeclRefExpr' and f.nodes[d].get('id') in cores
                            for a in args for d in [a] + list(f.descendants(a)))
            if not refs_core:
                continue
            a0 = f.sn(args[0]) if args else None
            adopts = a0 is not None and 'NoRefTag' in (a0.get('t') or '')
            moved = len(args) == 1 and 'IntrusivePtr<' in ((f.sn(args[0]) or {}).get('t') or '') and \
                '*' not in ((f.sn(args[0]) or {}).get('t') or '')
            if moved:
                continue            # a move / copy of the owning local itself
            if not adopts:
                bad = (f.loc(x), 'builds a counting handle from the core it has just created: the initial reference '
                       'count already pays for every handle that is handed out, so this reference is never given back '
                       'and the shared state is never destroyed')
                break
            # what is the handle for?
            p = f.parents.get(x['i'])
            kind = None
            for _ in range(6):
                if p is None:
                    break
                t = f.nodes[p].get('t') or ''
                if 'Future<' in t or 'FutureOn<' in t:
                    kind = 'future'
                    break
                if 'Promise<' in t:
                    kind = 'promise'
                    break
                p = f.parents.get(p)
            if kind is None and 'Future' in (f.ret or ''):
                kind = 'future'
            if kind == 'future':
                adopting_futures += 1
        ctx.instance(rule, key + ' :: ' + f.full[:120], dict(initial=sorted(c for c in counts if c is not None),
                                                             future_handles=adopting_futures))
        if bad is None and len(counts) == 1 and None not in counts:
            want = nofut + adopting_futures
            got = next(iter(counts))
            if got != want:
                bad = (f.where, 'creates the shared core with %d references but hands out %d future handle(s): the '
                       'producer side gives back kSharedRefNoFuture = %d, so %d were needed' % (
                           got, adopting_futures, nofut, want))
        if bad:
            ctx.report(rule, key, bad[0], '%s %s' % (f.qn.split('::', 1)[1], bad[1]), 'instantiation: ' + f.full[:300])
    return n


def lib_attach_nested(fb, f, depth=0):
    out = [f]
    if depth > 2:
        return out
    for n in f.own_nodes():
        if n['k'] == 'LambdaExpr':
            for key in [n.get('lam')] + list(n.get('lams', [])):
                g = fb.fn.get(key)
                if g is not None and g is not f and g not in out:
                    out += lib_attach_nested(fb, g, depth + 1)
    return out
