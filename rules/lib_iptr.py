"""R-HANDLESPEC — IntrusivePtr<T>, the owning handle under every Future / Promise / executor reference, keeps the
reference count it manipulates in step with the handles that exist.

Technique: abstract interpretation of every member function's AST (probe p_iptr.cpp instantiates all of them for
Base / Derived, including the converting forms) over a small explicit state: the pointer each handle holds (`this`,
the handle parameter, temporaries created inside the body — their destructors run at the end of the full expression,
as the language says), the raw pointer arguments, and a signed reference-count delta per symbolic pointee (A = what
`this` held, B = what the argument holds).  Each member is evaluated on every combination of null / non-null /
same-object inputs and compared with
  * the functional row of the member (which pointer `this` / the other handle hold afterwards, what is returned), and
  * ownership conservation: for every pointee, (handles holding it after) - (handles holding it before) == delta,
    where a raw pointer that is adopted (NoRefTag) or handed out (Release) counts as a handle on the other side.
The member functions are loop-free; anything the interpreter does not model is analysis-broken, never a pass.
Nothing is executed.
"""
from vlib import facts

IP = 'yaclib::IntrusivePtr'
PASS = ('ImplicitCastExpr', 'ParenExpr', 'MaterializeTemporaryExpr', 'CXXBindTemporaryExpr', 'CXXStaticCastExpr',
        'ConstantExpr', 'CXXConstCastExpr')
JUNK = ('junk',)


class SpecViolation(Exception):
    pass


class _Return(Exception):
    def __init__(self, value):
        self.value = value


class State:
    def __init__(self):
        self.ptr = {}      # handle name -> None | 'A' | 'B' | JUNK
        self.delta = {}    # pointee -> signed count
        self.ntemp = 0

    def inc(self, obj, d):
        self.delta[obj] = self.delta.get(obj, 0) + d


class Interp:
    def __init__(self, fb, st, cls_hint):
        self.fb = fb
        self.st = st
        self.depth = 0
        self.cls_hint = cls_hint
        self.pending = []   # temporaries awaiting destruction at the end of the current full expression

    # ------------------------------------------------------------ helpers
    def dtor_of(self, cls):
        for g in self.fb.fn.values():
            if g.clsq == IP and 'dtor' in g.flags and g.cls == cls and 'body' in g.raw:
                return g
        raise facts.AnalysisBroken('R-HANDLESPEC: destructor of %s not instantiated' % cls)

    def handle_of(self, f, env, i):
        """the handle an expression designates (an lvalue / xvalue of IntrusivePtr type)"""
        n = f.nodes[i]
        k = n['k']
        if k in PASS and n.get('ch'):
            return self.handle_of(f, env, n['ch'][0])
        if k == 'CallExpr' and n.get('cn') in ('std::move', 'std::forward') and n.get('args'):
            return self.handle_of(f, env, n['args'][0])
        if k == 'UnaryOperator' and n.get('op') == '*':
            c = f.nodes[f.strip(n['ch'][0])]
            if c['k'] == 'CXXThisExpr':
                return env['this']
        if k == 'DeclRefExpr' and n.get('id') in env['handles']:
            return env['handles'][n['id']]
        if k == 'MemberExpr' and n.get('mn') == '_core' and n.get('ch'):
            # the owning pointer inside a Future / Promise / Task object
            b = f.nodes[f.strip(n['ch'][0])]
            while b['k'] in PASS + ('CXXStaticCastExpr',) and b.get('ch'):
                b = f.nodes[f.strip(b['ch'][0])]
            while b['k'] == 'CallExpr' and b.get('cn') in ('std::move', 'std::forward') and b.get('args'):
                b = f.nodes[f.strip(b['args'][0])]
            if b['k'] == 'CXXThisExpr':
                return env.get('obj_this', 'this') + '._core'
            if b['k'] == 'DeclRefExpr' and b.get('id') in env.get('objs', {}):
                return env['objs'][b['id']] + '._core'
        if k in ('CXXConstructExpr', 'CXXTemporaryObjectExpr', 'CXXFunctionalCastExpr') or \
                (k == 'InitListExpr' and IP in n.get('t', '')):
            return self.construct(f, env, i)
        if k in ('CXXMemberCallExpr', 'CXXOperatorCallExpr'):
            v = self.rv(f, env, i)
            if isinstance(v, tuple) and v and v[0] == 'handle':
                return v[1]
        if k == 'CallExpr' and n.get('cn') in ('std::exchange', 'std::__exchange') and IP in n.get('t', '') and \
                len(n.get('args', [])) == 2:
            # std::exchange(handle, nullptr): the old value is moved into a temporary, the handle is emptied
            src = self.handle_of(f, env, n['args'][0])
            new = f.nodes[f.strip(n['args'][1])]
            while new['k'] in PASS and new.get('ch'):
                new = f.nodes[f.strip(new['ch'][0])]
            if new['k'] not in ('CXXNullPtrLiteralExpr', 'GNUNullExpr'):
                raise facts.AnalysisBroken('R-HANDLESPEC: std::exchange of a handle with something else than nullptr')
            self.st.ntemp += 1
            name = 'tmp%d' % self.st.ntemp
            self.st.ptr[name] = self.st.ptr.get(src, JUNK)
            self.st.ptr[src] = None
            self.pending.append((name, n['t'].replace('const ', '').strip()))
            return name
        raise facts.AnalysisBroken('R-HANDLESPEC: handle expression %s not modelled (%s in %s)' % (k, f.loc(n), f.full[:80]))

    def construct(self, f, env, i):
        n = f.nodes[i]
        while n['k'] in ('CXXFunctionalCastExpr', 'InitListExpr') and n.get('ch') and \
                f.nodes[f.strip(n['ch'][0])]['k'] in ('CXXConstructExpr', 'CXXTemporaryObjectExpr'):
            n = f.nodes[f.strip(n['ch'][0])]
        if n['k'] not in ('CXXConstructExpr', 'CXXTemporaryObjectExpr'):
            raise facts.AnalysisBroken('R-HANDLESPEC: temporary of kind %s (%s)' % (n['k'], f.loc(n)))
        g = self.fb.fn.get(n.get('ck'))
        if g is None or g.clsq != IP or 'body' not in g.raw:
            raise facts.AnalysisBroken('R-HANDLESPEC: constructor %s has no body in the probe' % n.get('cn'))
        self.st.ntemp += 1
        name = 'tmp%d' % self.st.ntemp
        self.st.ptr[name] = JUNK
        args = self.bind_args(f, env, g, n.get('args', []))
        self.call(g, name, args)
        self.pending.append((name, g.cls))
        return name

    def bind_args(self, f, env, g, arg_nodes):
        out = []
        for pid, a in zip(g.params, arg_nodes):
            t = g.locals[pid]['t']
            if IP in t:
                out.append(('handle', self.handle_of(f, env, a)))
            elif t.endswith('*'):
                out.append(('raw', self.rv(f, env, a)))
            else:
                out.append(('other', None))   # NoRefTag
        return out

    def ptr_lv(self, f, env, i):
        """-> handle name whose _ptr member the expression designates"""
        n = f.nodes[i]
        if n['k'] in PASS and n.get('ch') and n.get('cast') != 'LValueToRValue':
            return self.ptr_lv(f, env, n['ch'][0])
        if n['k'] == 'MemberExpr' and n.get('mn') == '_ptr':
            if not n.get('ch'):
                return env['this']
            b = f.nodes[f.strip(n['ch'][0])]
            if b['k'] == 'CXXThisExpr':
                return env['this']
            return self.handle_of(f, env, n['ch'][0])
        return None

    def rv(self, f, env, i):
        n = f.nodes[i]
        k = n['k']
        if k == 'ImplicitCastExpr' and n.get('cast') == 'LValueToRValue':
            h = self.ptr_lv(f, env, n['ch'][0])
            if h is not None:
                return self.read_ptr(h, f, n)
            c = f.nodes[f.strip(n['ch'][0])]
            if c['k'] == 'DeclRefExpr' and c.get('id') in env['locals']:
                return env['locals'][c['id']]
            return self.rv(f, env, n['ch'][0])
        if k == 'ImplicitCastExpr' and n.get('cast') in ('PointerToBoolean',):
            v = self.rv(f, env, n['ch'][0])
            return ('c', v is not None)
        if k in PASS and n.get('ch'):
            return self.rv(f, env, n['ch'][0])
        if k == 'ExprWithCleanups':
            v = self.rv(f, env, n['ch'][0])
            self.flush()
            return v
        if k in ('CXXNullPtrLiteralExpr', 'GNUNullExpr'):
            return None
        if k == 'InitListExpr' and IP not in n.get('t', ''):
            return self.rv(f, env, n['ch'][0]) if n.get('ch') else None
        if k in ('IntegerLiteral', 'CXXBoolLiteralExpr'):
            return ('c', n.get('v'))
        if k == 'CXXThisExpr':
            return ('handle', env['this'])
        if k == 'DeclRefExpr':
            if n.get('id') in env['locals']:
                return env['locals'][n['id']]
            if n.get('id') in env['handles']:
                return ('handle', env['handles'][n['id']])
        if k == 'MemberExpr' and n.get('mn') == '_ptr':
            return self.read_ptr(self.ptr_lv(f, env, i), f, n)
        if k == 'UnaryOperator':
            if n['op'] == '!':
                return ('c', not self.truth(self.rv(f, env, n['ch'][0])))
            if n['op'] == '*':
                c = f.nodes[f.strip(n['ch'][0])]
                if c['k'] == 'CXXThisExpr':
                    return ('handle', env['this'])
                v = self.rv(f, env, n['ch'][0])
                if v is None:
                    raise SpecViolation('%s dereferences a null pointer' % f.loc(n))
                return ('obj', v)
        if k == 'BinaryOperator':
            op = n['op']
            if op == '=':
                h = self.ptr_lv(f, env, n['ch'][0])
                v = self.rv(f, env, n['ch'][1])
                if h is not None:
                    self.st.ptr[h] = v
                    return v
                c = f.nodes[f.strip(n['ch'][0])]
                if c['k'] == 'DeclRefExpr' and c.get('id') in env['locals']:
                    env['locals'][c['id']] = v
                    return v
                raise facts.AnalysisBroken('R-HANDLESPEC: assignment target at %s' % f.loc(n))
            if op in ('==', '!='):
                a, b = self.rv(f, env, n['ch'][0]), self.rv(f, env, n['ch'][1])
                if a == JUNK or b == JUNK:
                    raise SpecViolation('%s compares an uninitialised pointer' % f.loc(n))
                return ('c', (a == b) == (op == '=='))
            if op in ('&&', '||'):
                a = self.truth(self.rv(f, env, n['ch'][0]))
                if (op == '&&') != a:
                    return ('c', a)
                return ('c', self.truth(self.rv(f, env, n['ch'][1])))
        if k == 'CStyleCastExpr' and n.get('cast') == 'ToVoid':
            return ('c', 0)
        if k == 'CallExpr' and n.get('cn') in ('std::move', 'std::forward') and n.get('args'):
            return self.rv(f, env, n['args'][0])
        if k == 'CallExpr' and n.get('cn') in ('std::exchange', 'std::__exchange'):
            h = self.ptr_lv(f, env, f.strip(n['args'][0]))
            new = self.rv(f, env, n['args'][1])
            if h is None:
                c = f.nodes[f.strip(n['args'][0])]
                if c['k'] == 'DeclRefExpr' and c.get('id') in env['locals']:
                    old = env['locals'][c['id']]
                    env['locals'][c['id']] = new
                    return old
                raise facts.AnalysisBroken('R-HANDLESPEC: std::exchange target at %s' % f.loc(n))
            old = self.read_ptr(h, f, n)
            self.st.ptr[h] = new
            return old
        if k == 'CallExpr' and n.get('cn') == 'std::swap':
            a, b = self.ptr_lv(f, env, f.strip(n['args'][0])), self.ptr_lv(f, env, f.strip(n['args'][1]))
            if a is None or b is None:
                raise facts.AnalysisBroken('R-HANDLESPEC: std::swap operands at %s' % f.loc(n))
            self.st.ptr[a], self.st.ptr[b] = self.st.ptr[b], self.st.ptr[a]
            return ('c', 0)
        if k == 'CXXMemberCallExpr':
            last = n['cn'].split('::')[-1]
            if last in ('IncRef', 'DecRef') and n.get('cr', '') != IP and not n.get('cr', '').startswith(IP + '<'):
                obj = self.rv(f, env, n['obj'])
                if obj is None:
                    raise SpecViolation('%s calls %s through a null pointer' % (f.loc(n), last))
                if obj == JUNK or not isinstance(obj, str):
                    raise SpecViolation('%s calls %s through an uninitialised pointer' % (f.loc(n), last))
                self.st.inc(obj, 1 if last == 'IncRef' else -1)
                return ('c', 0)
            g = self.fb.fn.get(n.get('ck'))
            if g is not None and g.clsq == IP and 'body' in g.raw:
                on = f.nodes[n['obj']]
                if on.get('t', '').rstrip().endswith('*'):
                    v = self.rv(f, env, n['obj'])
                    h = v[1] if isinstance(v, tuple) and v and v[0] == 'handle' else None
                else:
                    h = self.handle_of(f, env, n['obj'])
                if h is None:
                    raise facts.AnalysisBroken('R-HANDLESPEC: member call object at %s' % f.loc(n))
                return self.call(g, h, self.bind_args(f, env, g, n.get('args', [])))
        if k == 'CXXOperatorCallExpr' and n.get('args'):
            g = self.fb.fn.get(n.get('ck'))
            if g is not None and g.clsq == IP and 'body' in g.raw:
                h = self.handle_of(f, env, n['args'][0])
                return self.call(g, h, self.bind_args(f, env, g, n['args'][1:]))
        if k in ('CXXConstructExpr', 'CXXTemporaryObjectExpr', 'CXXFunctionalCastExpr'):
            return ('handle', self.construct(f, env, i))
        raise facts.AnalysisBroken('R-HANDLESPEC: expression %s not modelled (%s in %s)' % (k, f.loc(n), f.full[:80]))

    def read_ptr(self, h, f, n):
        v = self.st.ptr.get(h, JUNK)
        if v == JUNK:
            raise SpecViolation('%s reads the pointer of a handle that was not initialised' % f.loc(n))
        return v

    @staticmethod
    def truth(v):
        if v is None:
            return False
        if isinstance(v, tuple) and v and v[0] == 'c':
            return bool(v[1])
        return True

    def flush(self):
        """end of a full expression: temporaries die in reverse order of construction"""
        while self.pending:
            name, cls = self.pending.pop()
            self.call(self.dtor_of(cls), name, [])
            self.st.ptr.pop(name, None)

    # ------------------------------------------------------------ statements
    def stmt(self, f, env, i):
        n = f.nodes[i]
        k = n['k']
        if k == 'CompoundStmt':
            for c in n.get('ch', []):
                self.stmt(f, env, c)
        elif k == 'IfStmt':
            c = self.truth(self.rv(f, env, n['cond']))
            self.flush()
            if c:
                self.stmt(f, env, n['then'])
            elif 'else' in n:
                self.stmt(f, env, n['else'])
        elif k == 'ReturnStmt':
            v = self.rv(f, env, n['ch'][0]) if n.get('ch') else None
            self.flush()
            raise _Return(v)
        elif k == 'DeclStmt':
            for v in n['vars']:
                t = f.locals[v['id']]['t']
                if IP in t and not t.endswith('&'):
                    # a named local handle: constructed here, destroyed at the end of the function
                    h = self.construct(f, env, f.strip(v['init']))
                    self.pending.remove((h, [c for (x, c) in self.pending if x == h][0]))
                    env['handles'][v['id']] = h
                    env['named'].append((h, t))
                elif 'init' in v:
                    env['locals'][v['id']] = self.rv(f, env, v['init'])
                else:
                    env['locals'][v['id']] = JUNK
            self.flush()
        elif k in ('WhileStmt', 'ForStmt', 'DoStmt', 'CXXForRangeStmt', 'SwitchStmt', 'GotoStmt'):
            raise facts.AnalysisBroken('R-HANDLESPEC: %s in %s' % (k, f.full[:80]))
        elif k == 'NullStmt':
            pass
        else:
            self.rv(f, env, i)
            self.flush()

    def call(self, g, this, args):
        self.depth += 1
        if self.depth > 6:
            raise facts.AnalysisBroken('R-HANDLESPEC: recursion in %s' % g.full[:80])
        env = dict(this=this, handles={}, locals={}, named=[], objs={})
        for pid, a in zip(g.params, args):
            if a[0] == 'handle':
                env['handles'][pid] = a[1]
            elif a[0] == 'raw':
                env['locals'][pid] = a[1]
            elif a[0] == 'obj':
                env['objs'][pid] = a[1]
        saved = self.pending
        self.pending = []
        ret = None
        try:
            if 'ctor' in g.flags:
                for it in g.raw.get('inits', []):
                    what = g.S[it['what']] if isinstance(it['what'], int) else it['what']
                    e = g.nodes[it['e']]
                    if what.endswith('::_ptr'):
                        src = e
                        while src['k'] in ('InitListExpr', 'ExprWithCleanups') and src.get('ch'):
                            src = g.nodes[src['ch'][0]]
                        self.st.ptr[this] = None if (src['k'] == 'InitListExpr' and not src.get('ch')) else \
                            self.rv(g, env, src['i'])
                    elif e['k'] in ('CXXConstructExpr',):
                        # delegating constructor
                        h = self.fb.fn.get(e.get('ck'))
                        if h is None or 'body' not in h.raw:
                            raise facts.AnalysisBroken('R-HANDLESPEC: delegated constructor has no body')
                        self.call(h, this, self.bind_args(g, env, h, e.get('args', [])))
                    else:
                        raise facts.AnalysisBroken('R-HANDLESPEC: initialiser of %s' % what)
                    self.flush()
            self.stmt(g, env, g.raw['body'])
        except _Return as r:
            ret = r.value
        # named local handles die at the end of the function
        for h, t in reversed(env['named']):
            cls = [c for c in (t.replace('const ', '').strip(),)][0]
            self.call(self.dtor_of(cls), h, [])
            self.st.ptr.pop(h, None)
        self.pending = saved
        self.depth -= 1
        return ret


def _count(st, names, obj):
    return sum(1 for h in names if st.ptr.get(h) == obj)


def check_handle_spec(ctx, fb, rule):
    members = [f for f in fb.fn.values() if f.clsq == IP and 'probe::Base' in f.cls and 'body' in f.raw and
               f.cfg is not None and f.cls.startswith(IP + '<probe::Base>')]
    if len(members) < 18:
        ctx.broken('R-HANDLESPEC: only %d members of IntrusivePtr<probe::Base> instantiated by the probe' % len(members))
    n = 0
    for f in sorted(members, key=lambda f: f.line):
        ptypes = [f.locals[p]['t'] for p in f.params]
        handle_param = [t for t in ptypes if IP in t]
        raw_param = [t for t in ptypes if t.endswith('*')]
        noref = any('NoRefTag' in t for t in ptypes)
        label = '%s(%s)' % (f.n, ', '.join(t.replace('yaclib::', '').replace('probe::', '') for t in ptypes))
        key = 'R-HANDLESPEC IntrusivePtr::' + label
        this_inputs = [JUNK] if 'ctor' in f.flags else [None, 'A']
        arg_inputs = [None, 'A', 'B'] if (handle_param or raw_param) else [None]
        if 'ctor' in f.flags:
            arg_inputs = [None, 'B'] if (handle_param or raw_param) else [None]
        for t0 in this_inputs:
            for a0 in arg_inputs:
                if f.n in ('operator*', 'operator->') and t0 is None:
                    continue  # precondition: not null
                st = State()
                st.ptr['this'] = t0
                args = []
                for t in ptypes:
                    if IP in t:
                        st.ptr['other'] = a0
                        args.append(('handle', 'other'))
                    elif t.endswith('*'):
                        args.append(('raw', a0))
                    else:
                        args.append(('other', None))
                it = Interp(fb, st, f.cls)
                msg = None
                ret = None
                try:
                    ret = it.call(f, 'this', args)
                except SpecViolation as e:
                    msg = str(e)
                n += 1
                ctx.instance(rule, '%s [this=%s arg=%s]' % (key, t0 if t0 != JUNK else 'raw', a0), None)
                if msg is None:
                    msg = _judge(f, st, t0, a0, ret, bool(handle_param), bool(raw_param), noref, ptypes)
                if msg:
                    ctx.report(rule, key, f.where, 'with this=%s, argument=%s: %s' % (
                        {None: 'null', JUNK: '(being constructed)'}.get(t0, t0), {None: 'null'}.get(a0, a0), msg),
                        'state after the call: pointers=%s reference-count deltas=%s' % (
                            {k: v for k, v in st.ptr.items()}, st.delta))
                    break
            else:
                continue
            break
    return n


def _judge(f, st, t0, a0, ret, has_handle, has_raw, noref, ptypes):
    name = f.n
    this1 = st.ptr.get('this', JUNK)
    other1 = st.ptr.get('other') if has_handle else None
    if 'dtor' not in f.flags and this1 == JUNK:
        return 'the handle is left uninitialised'
    before = {}
    after = {}
    t_before = None if t0 == JUNK else t0
    for obj in ('A', 'B'):
        before[obj] = (1 if t_before == obj else 0) + (1 if has_handle and a0 == obj else 0)
        after[obj] = (0 if 'dtor' in f.flags else (1 if this1 == obj else 0)) + \
            (1 if has_handle and other1 == obj else 0)
    # raw pointers that change sides
    if noref and has_raw and a0 in ('A', 'B'):
        before[a0] += 1                       # adopted: the caller's reference becomes the handle's
    if name == 'Release' and ret in ('A', 'B'):
        after[ret] += 1                       # handed out: the caller owns it now
    if name == 'Reset' and noref and t_before in ('A', 'B'):
        after[t_before] += 1                  # by contract the old pointee is the caller's business
    for obj in ('A', 'B'):
        d = st.delta.get(obj, 0)
        if after[obj] - before[obj] != d:
            return ('ownership is not conserved for the %s pointee: %d handle(s) held it before, %d after, but the '
                    'reference count changed by %+d (%s)' % (
                        'current' if obj == 'A' else 'incoming', before[obj], after[obj], d,
                        'leak' if after[obj] - before[obj] < d else 'a reference too few: premature destruction'))
    # functional rows
    if 'ctor' in f.flags or name == 'operator=' or name == 'Reset':
        want = a0 if (has_handle or has_raw) else None
        if this1 != want:
            return 'the handle holds %s afterwards, expected %s' % (this1, want)
    if has_handle:
        const = any(IP in t and t.startswith('const ') for t in ptypes)
        if const and other1 != a0:
            return 'the (const) source handle was changed'
        if not const and 'ctor' in f.flags and other1 is not None:
            return 'the moved-from handle still holds a pointer'
        if name == 'Swap' and (this1 != a0 or other1 != t_before):
            return 'Swap does not exchange the two pointers'
    if name == '~IntrusivePtr' and t_before and st.delta.get(t_before, 0) != -1:
        return 'the destructor does not release its reference'
    if name in ('Get', 'operator->') and ret != t_before:
        return '%s returns %s, the handle holds %s' % (name, ret, t_before)
    if name == 'Release' and (ret != t_before or this1 is not None):
        return 'Release must return the pointer and leave the handle empty'
    if name == 'operator bool' and ret != ('c', t_before is not None):
        return 'operator bool returns %s for a handle holding %s' % (ret, t_before)
    return None


def check_handle_move(ctx, fb, rule):
    """R-HANDLEMOVE: move assignment of the owning handles (Future, Promise, SharedPromise, Task ...): the pipeline the
    left-hand side held must not be released by a bare DecRef inside the assignment.  These classes finish what they
    own in their destructor (a Task cancels its chain with StopError, a Promise completes with StopError, a Future
    detaches): the defaulted operator= is correct because IntrusivePtr's move assignment swaps, so the old state leaves
    in the right-hand side and meets its destructor.  Each operator=(C&&) body (defaulted or hand-written) is
    interpreted with distinct pointees A (left) and B (right)."""
    done = set()
    n = 0
    for f in sorted(fb.fn.values(), key=lambda f: f.full):
        if f.n != 'operator=' or f.cfg is None or 'body' not in f.raw or len(f.params) != 1:
            continue
        if not f.clsq.startswith('yaclib::') or f.clsq.startswith('yaclib::detail::') or f.clsq == IP:
            continue
        t = f.locals[f.params[0]]['t']
        if not t.endswith('&&') or t[:-2].strip() != f.cls:
            continue
        rec = fb.records.get(f.cls) or fb.records.get(f.clsq)
        if rec is None or not any(x['n'] == '_core' and IP in x['t'] for x in rec.fields):
            continue
        if f.clsq in done:
            continue
        done.add(f.clsq)
        key = 'R-HANDLEMOVE %s::operator=(%s&&)' % (f.clsq, f.clsq.split('::')[-1])
        st = State()
        st.ptr['this._core'] = 'A'
        st.ptr['other._core'] = 'B'
        it = Interp(fb, st, f.cls)
        msg = None
        try:
            it.call(f, 'this', [('obj', 'other')])
        except SpecViolation as e:
            msg = str(e)
        ctx.instance(rule, key + ' :: ' + f.cls[:80], None)
        n += 1
        if msg is None:
            if st.ptr.get('this._core') != 'B':
                msg = 'the left-hand side does not hold the right-hand side\'s state afterwards'
            elif st.delta.get('A', 0) != 0:
                msg = ('the state the left-hand side held is released inside the assignment by a bare DecRef (reference '
                       'count %+d): it never meets the destructor of its handle — an unstarted Task chain is not '
                       'cancelled (no StopError, functors never destroyed), a Promise never completes its Future' %
                       st.delta['A'])
            else:
                holders = sum(1 for h, v in st.ptr.items() if v == 'A')
                if holders != 1:
                    msg = 'the state the left-hand side held is owned by %d handles afterwards' % holders
        if msg:
            ctx.report(rule, key, f.where, msg, 'instantiation: %s; pointers after: %s' % (f.full[:200], dict(st.ptr)))
    return n
