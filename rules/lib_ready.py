"""R-READY — readiness predicates over the three-state completion word.

BaseCore::_callback is in one of three abstract states: Empty (kEmpty), Callback (a registered continuation:
any pointer, neither sentinel) or Result (kResult).  A function whose boolean result means "the result can be
read" (Ready(), await_ready() of an awaiter whose await_resume reads the result, Get() const& returning a
pointer) is summarised syntax-directedly into a term over the word `w` and evaluated on the three classes:
it must be false (nullptr) on Empty AND on Callback.  `!Empty()` is true on Callback: Ready()==true while
nothing has been stored.
"""
from vlib import symexec
from vlib.symexec import Unrecognised, show

W = ('sym', 'w')
TRANSPARENT_PTR = ('yaclib::IntrusivePtr::operator->', 'yaclib::IntrusivePtr::Get', 'yaclib::IntrusivePtr::operator*')
ATOMIC_LOAD = ('std::atomic::load', 'std::__atomic_base::load', 'yaclib::detail::AtomicBase::load')


class ReadySum(symexec.Summariser):
    def __init__(self, fb, f, syms=None, word='_callback', depth=0):
        ps = syms if syms is not None else {i: 'p%d' % k for k, i in enumerate(f.params)}
        super().__init__(fb, ps, lambda fn, n: False, ReadySum.call)
        self.word = word
        self.depth = depth
        self.words_read = set()

    @staticmethod
    def call(self, fn, n, p):
        cn = n.get('cn', '')
        if cn in ATOMIC_LOAD and 'obj' in n:
            o = fn.sn(n['obj'])
            while o is not None and o['k'] in ('ImplicitCastExpr', 'CXXStaticCastExpr', 'CXXConstCastExpr'):
                o = fn.sn(o['ch'][0])
            m = o.get('mn') if o is not None and o['k'] == 'MemberExpr' else None
            self.words_read.add(m)
            if m == self.word:
                return W
            return ('sym', 'atomic:%s' % m)
        if cn in TRANSPARENT_PTR:
            return ('sym', 'core')
        g = self.fb.fn.get(n.get('ck'))
        if g is not None and g.qn.startswith('yaclib::') and self.depth < 5 and 'coroutine' not in g.flags:
            def mk(g2, syms):
                s = ReadySum(self.fb, g2, syms, self.word, self.depth + 1)
                s.words_read = self.words_read
                return s
            try:
                return self.inline_value(fn, n, p, g, mk)
            except Unrecognised:
                pass
        return ('sym', 'call:' + cn)


def truth(t, cls, consts):
    """three-valued evaluation of a term for the word class cls in {'E','C','R'}; None = unknown"""
    if t is None:
        return None
    if t[0] == 'const':
        return bool(t[1])
    if t[0] == 'not':
        v = truth(t[1], cls, consts)
        return None if v is None else (not v)
    if t[0] == 'op':
        _, op, a, b = t
        if op in ('==', '!='):
            for x, y in ((a, b), (b, a)):
                if x == W and y[0] == 'const':
                    eq = (cls == 'E' and y[1] == consts['E']) or (cls == 'R' and y[1] == consts['R'])
                    return eq if op == '==' else not eq
            return None
        if op in ('&&', '||'):
            va, vb = truth(a, cls, consts), truth(b, cls, consts)
            if op == '&&':
                if va is False or vb is False:
                    return False
                if va is True and vb is True:
                    return True
                return None
            if va is True or vb is True:
                return True
            if va is False and vb is False:
                return False
            return None
    return None


def word_consts(fb):
    e = fb.enums.get('yaclib::detail::BaseCore::State')
    if not e or 'kEmpty' not in e or 'kResult' not in e:
        raise Unrecognised('BaseCore::State sentinels not found')
    return {'E': e['kEmpty'], 'R': e['kResult']}


def check(ctx, fb, rule, f, key, pointer=False, word='_callback', consts=None):
    """f: a readiness predicate (bool) or pointer-returning observer.  Reports if 'ready' on Empty/Callback."""
    try:
        consts = consts or word_consts(fb)
        s = ReadySum(fb, f, word=word)
        paths = s.run(f)
    except Unrecognised as e:
        ctx.broken('R-READY: %s (%s) is outside the recognised forms: %s' % (f.full, f.where, e))
    if word not in s.words_read:
        ctx.broken('R-READY: %s (%s) does not read the completion word: anchor changed' % (f.full, f.where))
    table = {}
    for cls in 'ECR':
        vals = set()
        for p in paths:
            sat = True
            for c in p.cond:
                v = truth(c, cls, consts)
                if v is False:
                    sat = False
                    break
            if not sat:
                continue
            if pointer:
                vals.add(False if p.ret == ('const', 0) else True)
            else:
                vals.add(truth(p.ret, cls, consts))
        table[cls] = vals
    ctx.instance(rule, key, dict(function=f.full[:200], where=f.where,
                                 term=[dict(cond=[show(c) for c in p.cond], ret=show(p.ret)) for p in paths],
                                 ready_on={'Empty': sorted(map(str, table['E'])),
                                           'Callback': sorted(map(str, table['C'])),
                                           'Result': sorted(map(str, table['R']))}))
    bad = [name for cls, name in (('E', 'Empty'), ('C', 'Callback (continuation registered, no result)'))
           if table[cls] != {False}]
    if None in table['E'] | table['C'] | table['R']:
        ctx.broken('R-READY: %s (%s): predicate is not a function of the completion word only (%s)' % (
            f.full, f.where, [show(p.ret) for p in paths]))
    if bad:
        ctx.report(rule, key, f.where, 'reports ready in state %s: the result cannot be read yet' % ' and '.join(bad),
                   'summary: ' + '; '.join('if %s return %s' % ([show(c) for c in p.cond], show(p.ret))
                                           for p in paths))
    elif table['R'] != {True}:
        ctx.report(rule, key, f.where, 'does not report ready in state Result')
