"""C20 — allocation guarantees.   Rule R-ALLOC over LLVM IR (-O0, never executed).

For every entry function (one API step per extern "C" function of probes/p_alloc.cpp, plus — in the coroutine
configuration — every awaiter member await_ready/await_suspend/await_resume and awaiter factory, selected by
mangled name) the IR of the probe and of all library units is merged and

    maxAlloc(f) = max over CFG paths of  sum( call/invoke of an allocation function -> 1 ; direct call g -> maxAlloc(g) )

is computed on the SCC condensation of each function's CFG; an allocation on a CFG cycle or a recursive call cycle
that allocates is "unbounded".  Indirect (virtual / function-pointer) calls are the attribution boundary: what runs
behind them is another step's job or the user's functor, by definition not this step.  Every remaining external
callee must be on the frozen allow-list of non-allocating entry points; an unknown external is analysis-broken.

  step1_*  (Run, Schedule, Then*, Detach*, Subscribe*, Make*, Share, Split …)      bound <= 1
  step0_*  (Wait*, Get, Strand::Submit(Job&), Connect, ToFuture, awaiters)         bound == 0
  stepk_*  (WhenAll / WhenAny / Join registration; strategy completion)            finite, no allocation in a loop
"""
import os
import re
import subprocess
import sys
from concurrent.futures import ThreadPoolExecutor

from vlib import facts

ALLOC = {'_Znwm', '_Znam', '_ZnwmSt11align_val_t', '_ZnamSt11align_val_t', '_ZnwmRKSt9nothrow_t',
         '_ZnamRKSt9nothrow_t', 'malloc', 'calloc', 'realloc', 'posix_memalign', 'aligned_alloc', 'memalign',
         'valloc', 'strdup'}
# libstdc++'s std::string is explicitly instantiated in the shared library: its members are externals of the IR
STRING = '_ZNSt7__cxx1112basic_stringIcSt11char_traitsIcESaIcEE'
ALLOC |= {STRING + 'C1ERKS4_', STRING + 'C2ERKS4_', STRING + 'aSERKS4_', STRING + '9_M_assignERKS4_',
          STRING + '9_M_createERmm', STRING + '7reserveEm', STRING + '9_M_appendEPKcm', STRING + '6appendEPKc',
          STRING + 'C1EPKcRKS3_', STRING + 'C2EPKcRKS3_'}
INF = float('inf')

# external (not defined in the merged IR) callees that are known not to allocate — with the reason
ALLOW = [
    (r'^_ZdlPv|^_ZdaPv|^_ZdlPvm|^_ZdaPvm|^_ZdlPvSt11align_val_t|^free$', 'deallocation'),
    (r'^__cxa_(begin_catch|end_catch|rethrow|get_exception_ptr|guard_acquire|guard_release|guard_abort|'
     r'pure_virtual|call_unexpected|atexit|thread_atexit)$', 'C++ runtime, no heap (exception objects excluded below)'),
    (r'^__cxa_(allocate_exception|throw|free_exception)$', 'exception objects are not counted by the property'),
    (r'^_ZSt9terminatev$|^_ZSt17current_exceptionv$|^_ZSt17rethrow_exceptionNSt15__exception_ptr13exception_ptrE$|'
     r'^_ZNSt15__exception_ptr13exception_ptr|^_ZNKSt15__exception_ptr13exception_ptr|^_ZSt18uncaught_exceptionv$|'
     r'^__gxx_personality_v0$|^_Unwind_Resume$', 'exception_ptr reference counting / unwinding'),
    (r'^_ZSt(20|19|24|16|17|21|25|28)__throw_\w+', 'throws (error path)'),
    (r'^pthread_|^__pthread_|^__gthrw_|^sched_yield$', 'pthread primitives'),
    (r'^_ZNSt18condition_variable(C1Ev|C2Ev|D1Ev|D2Ev|4waitERSt11unique_lockISt5mutexE|10notify_oneEv|10notify_allEv)$',
     'std::condition_variable members of libstdc++ (no heap)'),
    (r'^_ZNSt6chrono3_V2(12steady_clock|12system_clock)3nowEv$', 'clock read'),
    (r'^memcpy$|^memmove$|^memset$|^memcmp$|^strlen$|^__errno_location$|^abort$', 'libc, no heap'),
    (r'^_ZNSt6thread(4joinEv|6detachEv|20hardware_concurrencyEv)$|^_ZNSt6thread15_M_start_thread', 'thread control '
     '(FairThreadPool construction is not an entry)'),
    (r'^_ZNSt3_V215system_categoryEv$|^_ZNSt3_V216generic_categoryEv$|^_ZSt20__throw_system_errori$', 'error category'),
    (r'^_ZN6yaclib6detail10LogMessage', 'logging callback (disabled in the analysed configuration)'),
    (r'^_ZN6yaclib11InjectFaultEv$', 'fault injection hook'),
    (r'^_ZNSaIcE(C1|C2)ERKS_$|^_ZNSaIcE(D1|D2)Ev$|^_ZNSaIcE(C1|C2)Ev$', 'std::allocator<char> copy / destruction (stateless)'),
    (r'^_ZNSt7__cxx1112basic_stringIcSt11char_traitsIcESaIcEE(C1EOS4_|C2EOS4_|C1Ev|C2Ev|D1Ev|D2Ev|aSEOS4_|4swapERS4_)$',
     'std::string move construction / move assignment / destruction / swap (no heap)'),
    (r'^_ZNSt8__detail15_List_node_base', 'std::list node linking (no heap)'),
    (r'^_ZNKSt9type_info|^__dynamic_cast$', 'RTTI'),
    (r'^__atomic_|^__sync_', 'atomic builtins'),
    (r'^_ZSt28__atomic_futex_unsigned_base|^syscall$', 'futex'),
]
ALLOW_RE = [(re.compile(p), why) for p, why in ALLOW]


def compile_ir(unit, flags, out):
    cmd = ['clang++', '-O0', '-Xclang', '-disable-O0-optnone', '-S', '-emit-llvm', '-o', out, unit] + flags
    p = subprocess.run(cmd, stdout=subprocess.PIPE, stderr=subprocess.PIPE, text=True)
    if p.returncode != 0:
        return (unit, p.stderr[-2000:])
    return None


DEF_RE = re.compile(r'^define .*?@(?:"([^"]+)"|([\w.$]+))\(')
CALL_RE = re.compile(r'\b(?:call|invoke)\b.*?[ *]@(?:"([^"]+)"|([\w.$]+))\(')
INDIRECT_RE = re.compile(r'\b(?:call|invoke)\b[^@]*? %[\w.]+\(')
LABEL_RE = re.compile(r'^([\w.$-]+):')
LBL_REF = re.compile(r'label %([\w.$-]+)')
ALIAS_RE = re.compile(r'^@(?:"([^"]+)"|([\w.$]+)) = .*\balias\b.*@(?:"([^"]+)"|([\w.$]+))\s*$')


def parse_ir(path, funcs, aliases):
    cur = None
    blk = None
    with open(path) as fh:
        for line in fh:
            if cur is None:
                if line.startswith('@') and ' alias ' in line:
                    m = ALIAS_RE.match(line.rstrip())
                    if m:
                        aliases[m.group(1) or m.group(2)] = m.group(3) or m.group(4)
                    continue
                if line.startswith('define '):
                    m = DEF_RE.match(line)
                    if not m:
                        continue
                    name = m.group(1) or m.group(2)
                    cur = {'blocks': {}, 'entry': '0', 'indirect': 0}
                    if name not in funcs:
                        funcs[name] = cur
                    blk = '0'
                    cur['blocks'][blk] = {'calls': [], 'succ': []}
                continue
            if line.startswith('}'):
                cur = None
                continue
            m = LABEL_RE.match(line)
            if m:
                blk = m.group(1)
                cur['blocks'].setdefault(blk, {'calls': [], 'succ': []})
                continue
            s = line.strip()
            if not s or s.startswith(';'):
                continue
            b = cur['blocks'][blk]
            if ' call ' in ' ' + s or ' invoke ' in ' ' + s or s.startswith('call ') or s.startswith('invoke ') or \
                    '= call ' in s or '= invoke ' in s or ' tail call ' in s or 'musttail call' in s or \
                    'notail call' in s:
                m = CALL_RE.search(s)
                if m:
                    callee = m.group(1) or m.group(2)
                    if not callee.startswith('llvm.'):
                        b['calls'].append(callee)
                elif INDIRECT_RE.search(s):
                    cur['indirect'] += 1
            if s.startswith('br ') or s.startswith('switch ') or s.startswith('indirectbr') or \
                    s.startswith('to label') or (s[0] == 'i' and 'label %' in s) or 'unwind label' in s:
                b['succ'].extend(LBL_REF.findall(s))


def sccs(nodes, succ):
    index = {}
    low = {}
    st = []
    on = set()
    out = []
    c = [0]

    def sc(v):
        # iterative Tarjan
        work = [(v, iter(succ(v)))]
        index[v] = low[v] = c[0]
        c[0] += 1
        st.append(v)
        on.add(v)
        while work:
            node, it = work[-1]
            adv = False
            for w in it:
                if w not in index:
                    index[w] = low[w] = c[0]
                    c[0] += 1
                    st.append(w)
                    on.add(w)
                    work.append((w, iter(succ(w))))
                    adv = True
                    break
                elif w in on:
                    low[node] = min(low[node], index[w])
            if adv:
                continue
            work.pop()
            if work:
                low[work[-1][0]] = min(low[work[-1][0]], low[node])
            if low[node] == index[node]:
                comp = []
                while True:
                    w = st.pop()
                    on.discard(w)
                    comp.append(w)
                    if w == node:
                        break
                out.append(comp)

    for v in nodes:
        if v not in index:
            sc(v)
    return out


class Alloc:
    def __init__(self, funcs):
        self.funcs = funcs
        self.memo = {}
        self.onstack = set()
        self.externals = set()
        self.why = {}

    def reserve_ok(self, f, callee):
        """vector::push_back / emplace_back in a function that also reserves the same vector type"""
        m = re.match(r'^(_ZNSt6vectorI.*?E)(9push_back|12emplace_back)', callee)
        if not m:
            return False
        want = m.group(1) + '7reserveE'
        for b in f['blocks'].values():
            for c in b['calls']:
                if c.startswith(want):
                    return True
        return False

    def fmax(self, name):
        if name in ALLOC:
            return 1
        if re.match(r'^_ZNSt6vectorI.*E7reserveEm$', name):
            # std::vector::reserve is one block.  (Its relocation loop copies elements whose move is not noexcept, but
            # the library only reserves freshly created result vectors: there is nothing to relocate.)
            return 1
        f = self.funcs.get(name)
        if f is None:
            self.externals.add(name)
            return 0
        if name in self.memo:
            return self.memo[name]
        if name in self.onstack:
            return None
        self.onstack.add(name)
        w = {}
        recursive = False
        culprit = {}
        for l, b in f['blocks'].items():
            t = 0
            for c in b['calls']:
                if self.reserve_ok(f, c):
                    continue
                v = self.fmax(c)
                if v is None:
                    recursive = True
                    v = 0
                if v:
                    culprit.setdefault(l, []).append((c, v))
                t += v
            w[l] = t
        blocks = f['blocks']
        comps = sccs(list(blocks), lambda v: [x for x in blocks[v]['succ'] if x in blocks])
        cid = {}
        for i, comp in enumerate(comps):
            for v in comp:
                cid[v] = i
        best = {}
        trace = {}
        for i, comp in enumerate(comps):
            tot = sum(w[v] for v in comp)
            cyc = len(comp) > 1 or any(v in blocks[v]['succ'] for v in comp)
            cw = INF if (cyc and tot > 0) else tot
            m = 0
            nxt = None
            for v in comp:
                for x in blocks[v]['succ']:
                    if x in cid and cid[x] != i and best[cid[x]] > m:
                        m = best[cid[x]]
                        nxt = cid[x]
            best[i] = cw + m
            trace[i] = ([c for v in comp for c in culprit.get(v, [])], nxt, cyc and tot > 0)
        self.onstack.discard(name)
        r = best[cid[f['entry']]]
        if recursive and r > 0:
            r = INF
        self.memo[name] = r
        # explanation: chain of allocating callees along the maximal path
        chain = []
        i = cid[f['entry']]
        while i is not None:
            cs, nxt, loop = trace[i]
            for c, v in cs:
                chain.append(('loop: ' if loop else '') + c + ('=%s' % v))
            i = nxt
        self.why[name] = chain
        return r

    def explain(self, name, depth=0, out=None):
        out = out if out is not None else []
        if depth > 6:
            return out
        for item in self.why.get(name, [])[:4]:
            callee = item.replace('loop: ', '').rsplit('=', 1)[0]
            out.append('  ' * depth + item)
            if callee in self.funcs and callee not in ALLOC:
                self.explain(callee, depth + 1, out)
        return out


def demangle(names):
    if not names:
        return {}
    p = subprocess.run(['llvm-cxxfilt-14'], input='\n'.join(names), stdout=subprocess.PIPE, text=True)
    return dict(zip(names, p.stdout.splitlines()))


def run(ctx):
    root = ctx.root
    cd = facts.cache_dir(root)
    probe = os.path.join(facts.PROBES, 'p_alloc.cpp')
    ra1 = ctx.rule('R-ALLOC.step', 'each pipeline step allocates at most once on any path (indirect calls = '
                   'attribution boundary)', minimum=30)
    ra0 = ctx.rule('R-ALLOC.zero', 'Wait*/Get/Strand::Submit(Job&)/Connect/ToFuture and every awaiter member '
                   'allocate nothing', minimum=12)
    rak = ctx.rule('R-ALLOC.const', 'combinator registration and completion allocate a bounded number of blocks, '
                   'none inside a loop over the inputs', minimum=9)
    rext = ctx.rule('R-ALLOC.externals', 'every external callee reachable from an entry is on the frozen '
                    'non-allocating allow-list', minimum=1)
    ctx.assume('allocation = call of operator new / malloc family in the merged -O0 IR of probe + library units')
    ctx.assume('indirect calls (virtual dispatch to another step\'s job, the user\'s functor) are not attributed to '
               'the step; exception objects are not counted')
    for cfg, base in (('ALLOC17', 'K17'), ('ALLOC20', 'K20')):
        units = [probe] + facts.library_units(base, root)
        flags = [f for f in facts.flags(base, root) if not f.startswith('-ferror-limit')]
        # nothing is force-inlined, so every library function (awaiter members …) keeps its own definition
        flags.append('-DYACLIB_INLINE=inline')
        outs = []
        jobs = []
        for u in units:
            out = os.path.join(cd, 'ir2_%s__%s.ll' % (cfg, os.path.relpath(u, '/').replace('/', '_')))
            outs.append(out)
            if not os.path.exists(out):
                jobs.append((u, out))
        if jobs:
            with ThreadPoolExecutor(max_workers=16) as ex:
                errs = [e for e in ex.map(lambda j: compile_ir(j[0], flags, j[1] + '.tmp') or
                                          os.replace(j[1] + '.tmp', j[1]), jobs) if e]
            if errs:
                ctx.broken('IR compilation failed for %s: %s' % (errs[0][0], errs[0][1]))
        funcs = {}
        aliases = {}
        for o in outs:
            parse_ir(o, funcs, aliases)
        for a, t in aliases.items():
            if a not in funcs and t in funcs:
                funcs[a] = funcs[t]
        ctx.units.append('%s: %d IR units merged, %d defined functions' % (cfg, len(outs), len(funcs)))
        ctx.functions += len(funcs)
        A = Alloc(funcs)
        entries = []
        for n in sorted(funcs):
            if n.startswith('step1_'):
                entries.append((n, ra1, 1))
            elif n.startswith('step0_'):
                entries.append((n, ra0, 0))
            elif n.startswith('stepk_'):
                entries.append((n, rak, 'finite'))
            elif cfg == 'ALLOC20' and re.search(r'6yaclib.*Await.*(11await_ready|13await_suspend|12await_resume)', n):
                entries.append((n, ra0, 0))
            elif cfg == 'ALLOC20' and re.search(r'^_ZNK?6yaclib6detail(9OnAwaiter|5Yield|14CurrentAwaiter).*'
                                                r'(11await_ready|13await_suspend|12await_resume)', n):
                entries.append((n, ra0, 0))
            elif n == '_ZN6yaclib6Strand6SubmitERNS_3JobE':
                entries.append((n, ra0, 0))
            elif re.match(r'^_ZN6yaclib4when(3All|8AllTuple|3Any|4Join)I.*D2Ev$', n):
                entries.append((n, rak, 'finite'))
            elif re.match(r'^_ZN6yaclib4when(3All|8AllTuple|3Any|4Join)I.*7ConsumeI', n):
                entries.append((n, rak, 'finite'))
        if len([e for e in entries if e[0].startswith('step')]) < 50:
            ctx.broken('probe entries missing in %s (%d found)' % (cfg, len(entries)))
        dm = demangle([e[0] for e in entries])
        for name, rule, bound in entries:
            v = A.fmax(name)
            pretty = dm.get(name, name)
            key = '%s %s' % (rule, pretty[:150])
            ctx.instance(rule, key + ' [' + cfg + ']', dict(entry=pretty[:200], config=cfg,
                                                            max_allocations='unbounded' if v == INF else v))
            bad = (v == INF) or (bound != 'finite' and v > bound)
            if bad:
                ctx.report(rule, key, 'probes/p_alloc.cpp' if name.startswith('step') else pretty[:80],
                           '%s may perform %s allocation(s) on one path; the guarantee is %s' % (
                               pretty[:160], 'an unbounded number of' if v == INF else v,
                               'a constant' if bound == 'finite' else ('at most %d' % bound)),
                           'allocating call chain (callee=max):\n' + '\n'.join(A.explain(name)[:14]))
        # externals
        ext = sorted(A.externals)
        unknown = []
        for e in ext:
            ok = any(r.match(e) for r, _ in ALLOW_RE)
            ctx.instance(rext, 'external ' + e + ' [' + cfg + ']', None)
            if not ok:
                unknown.append(e)
        if unknown:
            dmu = demangle(unknown)
            ctx.broken('R-ALLOC: external callee(s) not on the non-allocating allow-list: %s' % ', '.join(
                '%s (%s)' % (u, dmu.get(u, u)) for u in unknown[:12]))
