"""C17 — fiber fault-injection runs are reproducible from their seed.   Rule family R-DETERMINISM (configuration KF).

  D1  deny-list: no function of the fault layer calls a source of run-to-run variation (real clocks, random_device,
      rand/time, OS thread identity, pid …); one allow-listed call with its reason
  D2  single entropy source: random engines exist only as detail::eng and RandomDevice::_eng, each seeded only from
      the configured seed; eng is referenced only by SetSeed and GetRandNumber; in GetRandNumber the draw counter is
      incremented on every path that draws; SetSeed re-seeds the engine AND restarts the draw counter (so that a
      recorded count identifies the engine state)
  D3  every caller of GetRandNumber lies inside the fault layer
  D4  decision code has no address-dependent order: no pointer->integer conversion, no relational comparison of
      pointers, no associative container keyed by a pointer, no iteration over an unordered container
  D5  virtual time: Scheduler::_time is written only by TickTime/AdvanceTime; the fiber clock reads it; sleepers are
      kept in an ordered container keyed by an integer
  D6  injector state is exactly {_count, _pause}; GetState/SetState round-trip _count
"""
import json
import os
import re

from vlib import facts

FAULT_PREFIXES = ('src/fault/', 'include/yaclib/fault/', 'include/yaclib_std/')

DENY = [
    r'^std::random_device::', r'^rand$', r'^srand$', r'^random$', r'^srandom$', r'^drand48$', r'^lrand48$', r'^arc4random',
    r'^getrandom$', r'^getentropy$', r'^time$', r'^clock$', r'^clock_gettime$', r'^gettimeofday$', r'^times$',
    r'^getrusage$', r'^std::chrono::(_V2::)?system_clock::now$', r'^std::chrono::(_V2::)?steady_clock::now$',
    r'^std::chrono::(_V2::)?high_resolution_clock::now$', r'^std::this_thread::(get_id|sleep_for|sleep_until|yield)$',
    r'^pthread_self$', r'^gettid$', r'^getpid$', r'^sched_getcpu$', r'^std::thread::get_id$', r'^std::thread::id::',
    r'^std::hash::operator\(\)$',
]
DENY_RE = [re.compile(p) for p in DENY]
ALLOWED = {
    ('std::thread::hardware_concurrency', 'yaclib::detail::fiber::Thread::hardware_concurrency'):
        'configuration default, constant for a machine, overridden by fiber::SetHardwareConcurrency; not a per-run '
        'source of variation',
}
ENGINE_T = re.compile(r'std::(mersenne_twister_engine|linear_congruential_engine|subtract_with_carry_engine|'
                      r'discard_block_engine|independent_bits_engine|shuffle_order_engine|random_device|'
                      r'default_random_engine)')
ENGINES_OK = {'yaclib::detail::eng', 'yaclib::detail::thread::RandomDevice::_eng'}  # today's names (documentation only)

# decision code for D4 (files); user-facing pointer comparisons of ThreadLocalPtrProxy and the stack allocator
# (addresses of stack memory never reach a decision) are outside
D4_EXCLUDE = ('include/yaclib/fault/detail/fiber/thread_local_proxy.hpp', 'src/fault/fiber/context/',
              'include/yaclib/fault/detail/fiber/stack', 'include/yaclib/fault/detail/fiber/default_allocator.hpp',
              'include/yaclib/fault/detail/fiber/execution_context.hpp')


def first_targ(t):
    """first top-level template argument of a type string"""
    i = t.find('<')
    if i < 0:
        return ''
    depth = 0
    out = []
    for c in t[i + 1:]:
        if c == '<':
            depth += 1
        elif c == '>':
            if depth == 0:
                break
            depth -= 1
        elif c == ',' and depth == 0:
            break
        out.append(c)
    return ''.join(out).strip()


def pointer_in_key(t):
    """ordered / associative container (or priority queue) whose ordering key contains a pointer"""
    m = re.match(r'(const )?std::(map|set|multimap|multiset|unordered_map|unordered_set|unordered_multimap|'
                 r'unordered_multiset|priority_queue)<', t)
    if not m:
        return False
    return '*' in first_targ(t)


def in_fault(f, root):
    r = facts.rel(f.file) if not f.file.startswith(root) else os.path.relpath(f.file, root)
    return any(r.startswith(p) for p in FAULT_PREFIXES), r


STATE_TABLE = {
    # mutable variables with static / thread storage duration in the fault layer, and why each is compatible with
    # "a run is a function of (program, seed, configuration)"
    'instance': 'the Injector (static local of GetInjector): its state is D6',
    'sDefaults': 'thread-local proxy defaults, keyed by an integer index (D4)',
    'yaclib::detail::eng': 'the single seeded engine (D2)',
    'yaclib::detail::sSeed': 'the seed (D2)',
    'yaclib::detail::sRandCount': 'the draw counter, restarted by SetSeed (D2)',
    'yaclib::detail::sAtomicFailFrequency': 'configuration (SetAtomicFailFrequency)',
    'yaclib::detail::sYieldFrequency': 'configuration (SetFaultFrequency)',
    'yaclib::detail::sSleepTime': 'configuration (SetFaultSleepTime)',
    'yaclib::detail::sInjectedCount': 'statistics: written by the injector, read only by its getter',
    'yaclib::detail::fiber::sRandomListPick': 'configuration (SetFaultRandomListPick)',
    'yaclib::detail::fiber::gHardwareConcurrency': 'configuration (SetHardwareConcurrency)',
    'yaclib::detail::fiber::(anonymous namespace)::gCacheSize': 'configuration (stack cache size)',
    'yaclib::detail::fiber::sAllocator': 'the stack allocator: recycles stacks, takes no scheduling decision',
    'yaclib::detail::fiber::sNextId': 'fiber id counter: ids are compared for equality only (ownership, join)',
    'yaclib::fault::sTickLength': 'configuration (SetFaultTickLength)',
    'yaclib::fault::sCurrent': 'the running fiber (scheduler)',
    'yaclib::fault::sCurrentScheduler': 'the installed scheduler',
}


def check_static_state(ctx, fb, rule):
    """D7: every mutable variable with static or thread storage duration defined in the fault layer is listed in
    STATE_TABLE.  A new one is reported when decision code READS it (any use other than being assigned / incremented or
    returned by a one-line getter): such state survives SetSeed, is not part of (random count, injector state) and is
    not rebuilt by a new Scheduler — the same seed then no longer means the same run (second run in one process,
    restored continuation).  A new write-only / getter-only variable (statistics) is listed in the evidence, not
    reported."""
    seen = 0
    for name, v in sorted(fb.vars.items()):
        if '/fault/' not in v['file'] or v['const'] or v.get('member') and not v.get('staticlocal') and False:
            continue
        if v['const']:
            continue
        seen += 1
        known = name in STATE_TABLE
        ctx.instance(rule, 'D7 %s' % name, dict(type=v['t'][:60], where='%s:%s' % (facts.rel(v['file']), v['line']),
                                                role=STATE_TABLE.get(name, '(not in the table)')))
        if known:
            continue
        # statics of the table regrouped into one aggregate: as many table entries vanished (from this file) as the
        # new variable's record type has fields, all of plain types — the same state under another spelling
        rec = fb.records.get(v['t'].replace('struct ', '').replace('class ', '').strip())
        vanished = [k for k in STATE_TABLE if '::' in k and k not in fb.vars]
        if rec is not None and rec.fields and not v['tls'] and len(rec.fields) <= len(vanished) and \
                all('*' not in fl['t'] and '&' not in fl['t'] for fl in rec.fields):
            ctx.instance(rule, 'D7 %s (regrouped)' % name, dict(fields=[fl['n'] for fl in rec.fields],
                                                                replaces=sorted(x.split('::')[-1] for x in vanished)))
            continue
        short = name.split('::')[-1]
        readers = []
        for f in fb.fn.values():
            if '/fault/' not in f.file or f.cfg is None:
                continue
            refs = [n for n in f.own_nodes() if n['k'] == 'DeclRefExpr' and (
                n.get('dn') == name or n.get('dnf') == name or (n.get('dn', '').split('::')[-1] == short and
                                                               v.get('staticlocal')))]
            if not refs:
                continue
            stmts = [n for n in f.own_nodes() if n['k'] in ('ReturnStmt', 'IfStmt', 'WhileStmt', 'ForStmt', 'DoStmt',
                                                            'DeclStmt', 'CallExpr', 'CXXMemberCallExpr',
                                                            'BinaryOperator', 'CompoundAssignOperator',
                                                            'UnaryOperator')]
            getter = len([n for n in f.own_nodes() if n['k'] == 'ReturnStmt']) == 1 and len(stmts) <= 2
            for r in refs:
                par = f.parents.get(r['i'])
                while par is not None and f.nodes[par]['k'] in ('ImplicitCastExpr', 'ParenExpr'):
                    up = f.parents.get(par)
                    if f.nodes[par]['k'] == 'ImplicitCastExpr' and f.nodes[par].get('cast') == 'LValueToRValue':
                        break
                    par = up
                pn = f.nodes[par] if par is not None else None
                written = pn is not None and (
                    (pn['k'] in ('BinaryOperator', 'CompoundAssignOperator') and pn.get('op', '').endswith('=') and
                     pn['op'] not in ('==', '!=', '<=', '>=') and f.strip(pn['ch'][0]) == r['i']) or
                    (pn['k'] == 'UnaryOperator' and pn.get('op') in ('++', '--')))
                if written or getter:
                    continue
                readers.append('%s (%s)' % (f.qn, f.loc(r)))
        if readers:
            ctx.report(rule, 'D7 %s' % name, '%s:%s' % (facts.rel(v['file']), v['line']),
                       'new mutable %s state `%s` in the fault layer is read by %s: it survives SetSeed, is not part of '
                       'the (random count, injector state) pair and is not rebuilt with the Scheduler — a second run '
                       'with the same seed in this process, or a restored continuation, decides differently' % (
                           'thread-local' if v['tls'] else 'static', short, readers[0]))
    if seen < 10:
        ctx.broken('D7: only %d mutable static variables found in the fault layer' % seen)


def run(ctx):
    fbs = ctx.facts(['KF'], kinds=('lib', 'probe'), only=r'src/fault/|p_std\.cpp$|p_atomic\.cpp$', tests=r'/test/')
    fb = fbs['KF']
    root = ctx.root
    d1 = ctx.rule('D1', 'no fault-layer function calls a denied source of run-to-run variation', minimum=100)
    d2 = ctx.rule('D2', 'single seeded entropy source; draws are counted; SetSeed restarts engine and counter',
                  minimum=6)
    d3 = ctx.rule('D3', 'GetRandNumber is called only from the fault layer', minimum=5)
    d4 = ctx.rule('D4', 'decision code is free of address-dependent order', minimum=60)
    d5 = ctx.rule('D5', 'virtual time has two writers; clock reads it; sleepers ordered by integer time', minimum=3)
    d6 = ctx.rule('D6', 'injector state = {_count, _pause}; Get/SetState round-trip _count', minimum=3)
    ctx.assume('the client program itself is deterministic and reaches the OS only through yaclib_std')

    fault_fns = []
    for f in fb.fn.values():
        ok, r = in_fault(f, root)
        if ok:
            fault_fns.append((f, r))
    if len(fault_fns) < 100:
        ctx.broken('fault layer functions not found (%d)' % len(fault_fns))

    # ---------------------------------------------------------------- D1
    for f, r in fault_fns:
        ctx.instance(d1, 'D1 ' + f.qn, None)
        for c in f.calls():
            cn = c['cn']
            if any(p.search(cn) for p in DENY_RE):
                ctx.report(d1, 'D1 %s calls %s' % (f.qn, cn), f.loc(c),
                           'the fault layer calls %s: a source of run-to-run variation outside the seeded engine' % cn,
                           'function: ' + f.full[:200])
            if cn == 'std::thread::hardware_concurrency' and (cn, f.qn) not in ALLOWED:
                ctx.report(d1, 'D1 %s calls %s' % (f.qn, cn), f.loc(c), 'hardware_concurrency outside the allow-listed '
                           'configuration default')
        # references to denied functions without calling them (function pointers)
        for n in f.own_nodes():
            if n['k'] == 'DeclRefExpr' and n.get('dk') in ('Function', 'CXXMethod') and \
                    any(p.search(n['dn']) for p in DENY_RE):
                par = f.parents.get(n['i'])
                ctx.report(d1, 'D1 %s refers to %s' % (f.qn, n['dn']), f.loc(n),
                           'the fault layer takes the address of / calls %s' % n['dn'])

    # ---------------------------------------------------------------- D2
    engines = {}
    for name, v in fb.vars.items():
        if ENGINE_T.search(v['t']) and any(facts.rel(v['file']).startswith(p) or
                                          os.path.relpath(v['file'], root).startswith(p) for p in FAULT_PREFIXES):
            engines[name] = v
    for r in fb.records.values():
        rr = os.path.relpath(r.file, root) if r.file.startswith(root) else facts.rel(r.file)
        if any(rr.startswith(p) for p in FAULT_PREFIXES):
            for fl in r.fields:
                if ENGINE_T.search(fl['t']):
                    engines[r.qn + '::' + fl['n']] = dict(file=r.file, line=r.line, t=fl['t'])
    for f, r in fault_fns:
        for l in f.locals:
            if ENGINE_T.search(l['t']) and not l['p']:
                engines['%s::(local)%s' % (f.qn, l['n'])] = dict(file=f.file, line=f.line, t=l['t'])
    # exactly one engine lives in src/fault/util.cpp (whatever it is called and wherever it is wrapped) and one in
    # the thread-backend RandomDevice; anything else is a second source of decisions
    def home(name):
        v = engines[name]
        rp = os.path.relpath(v['file'], root) if v['file'].startswith(root) else facts.rel(v['file'])
        if rp == 'src/fault/util.cpp':
            return 'main'
        if name.startswith('yaclib::detail::thread::RandomDevice::'):
            return 'device'
        return None
    main_engines = [n for n in sorted(engines) if home(n) == 'main']
    for name in sorted(engines):
        ctx.instance(d2, 'D2 engine ' + name, dict(engine=name, type=engines[name]['t'][:60], role=home(name)))
        if home(name) is None or (home(name) == 'main' and name != main_engines[0]):
            ctx.report(d2, 'D2 engine ' + name, '%s:%s' % (facts.rel(engines[name]['file']), engines[name]['line']),
                       'a second random engine / entropy source exists in the fault layer: decisions drawn from it are '
                       'not governed by (seed, draw count)')
    if not main_engines:
        ctx.broken('the seeded engine of src/fault/util.cpp was not found (found %s)' % sorted(engines))
    # who draws from / seeds an engine
    drawers, seeders = set(), set()
    for f, r in fault_fns:
        for n in f.own_nodes():
            if n['k'] == 'CXXOperatorCallExpr' and n.get('op') == '()' and ENGINE_T.search(n.get('cr', '')):
                drawers.add(f.qn)
            if n['k'] == 'CXXMemberCallExpr' and n['cn'].endswith('::seed') and ENGINE_T.search(n.get('cr', '')):
                seeders.add(f.qn)
    ctx.instance(d2, 'D2 users of eng', dict(draw=sorted(drawers), seed=sorted(seeders)))
    extra = {x for x in drawers if x not in ('yaclib::detail::GetRandNumber',) and
             not x.startswith('yaclib::detail::thread::RandomDevice::')}
    if extra:
        ctx.report(d2, 'D2 users of eng', 'src/fault/util.cpp', 'the engine is drawn from by %s, bypassing the draw '
                   'counter' % sorted(extra))
    # seeding expressions
    seed_ok = ('yaclib::detail::sSeed', 'yaclib::detail::GetSeed')

    def seed_expr_ok(f, i, param_ok):
        for d in f.descendants(i):
            n = f.nodes[d]
            if n['k'] == 'DeclRefExpr':
                if n['dn'] in seed_ok:
                    return True
                if 'id' in n and f.locals[n['id']]['p'] and param_ok:
                    return True
            if n.get('cn') in seed_ok:
                return True
        return False

    for f, r in fault_fns:
        for n in f.own_nodes():
            if n['k'] == 'CXXMemberCallExpr' and n['cn'].endswith('::seed') and ENGINE_T.search(n.get('cr', '')):
                key = 'D2 seed in ' + f.qn
                ctx.instance(d2, key, None)
                if not n['args'] or not seed_expr_ok(f, n['args'][0], f.qn == 'yaclib::detail::SetSeed'):
                    ctx.report(d2, key, f.loc(n), 'an engine is re-seeded from something other than the configured seed')
        if 'ctor' in f.flags:
            for it in f.raw.get('inits', []):
                if facts.canon_field(f.S[it['what']]).endswith('::_eng'):
                    key = 'D2 seed in ' + f.qn
                    ctx.instance(d2, key, None)
                    if not seed_expr_ok(f, it['e'], False):
                        ctx.report(d2, key, f.where, 'RandomDevice engine is not seeded from GetSeed()')
    # GetRandNumber: count then draw; SetSeed: seed engine and restart the counter
    g = fb.by_qn('yaclib::detail::GetRandNumber')
    s = fb.by_qn('yaclib::detail::SetSeed')
    if not g or not s:
        ctx.broken('GetRandNumber / SetSeed not found')
    g, s = g[0], s[0]
    key = 'D2 GetRandNumber counts every draw'
    ctx.instance(d2, key, None)
    draws = [n for n in g.own_nodes() if n['k'] == 'CXXOperatorCallExpr' and n.get('op') == '()' and
             ENGINE_T.search(n.get('cr', ''))]
    incs = [n for n in g.own_nodes() if n['k'] in ('UnaryOperator', 'CompoundAssignOperator') and
            (g.sn(n['ch'][0]) or {}).get('dn') == 'yaclib::detail::sRandCount']
    if not draws:
        ctx.broken('GetRandNumber: draw idiom not recognised')
    cfg = g.cfg
    for dnode in draws:
        pd = cfg.pos_of(dnode['i'])
        if not any(cfg.pos_of(i['i']) and cfg.dominates(cfg.pos_of(i['i']), pd) for i in incs) and \
                not any(cfg.pos_of(i['i']) and cfg.pos_of(i['i'])[0] in cfg.pdom().get(pd[0], ()) for i in incs):
            ctx.report(d2, key, g.loc(dnode), 'a draw from the engine is not counted: ForwardToFaultRandomCount cannot '
                       'replay to this point')
    # the converse, per path: the counter and the engine advance together (one draw and one count on EVERY path) —
    # ForwardToFaultRandomCount replays a recorded count by calling GetRandNumber that many times
    key = 'D2 GetRandNumber: counter and engine advance together'
    if incs:
        from vlib import pathwalk

        class _DrawWalker(pathwalk.Walker):
            loop_bound = 1

            def on_node(self, fn, n, st):
                if n['k'] == 'CXXOperatorCallExpr' and n.get('op') == '()' and ENGINE_T.search(n.get('cr', '')):
                    st.events.append(('draw', fn.loc(n)))
                elif n['k'] in ('UnaryOperator', 'CompoundAssignOperator') and n.get('ch') and \
                        (fn.sn(n['ch'][0]) or {}).get('dn') == 'yaclib::detail::sRandCount':
                    st.events.append(('count', fn.loc(n)))
        res = _DrawWalker(fb).run(g)
        ctx.instance(d2, key, dict(paths=len(res)))
        for st, _ in res:
            nd = sum(1 for e in st.events if e[0] == 'draw')
            nc = sum(1 for e in st.events if e[0] == 'count')
            if nd != nc or nd != 1:
                ctx.report(d2, key, g.where, 'a path through GetRandNumber counts %d draw(s) but takes %d from the '
                           'engine: after ForwardToFaultRandomCount (which advances by calling GetRandNumber) the draw '
                           'count is restored while the engine is somewhere else, so the run continues differently' % (
                               nc, nd))
                break
    # ForwardToRandCount(n) takes exactly n counted draws
    fw = [f for f in fb.by_qn('yaclib::detail::ForwardToRandCount') if f.cfg is not None]
    if fw and incs:
        f = fw[0]
        key = 'D2 ForwardToRandCount advances by exactly the recorded count'
        ctx.instance(d2, key, None)
        loops = [n for n in f.own_nodes() if n['k'] in ('ForStmt', 'WhileStmt', 'DoStmt')]
        calls = [n for n in f.own_nodes() if n.get('cn') == 'yaclib::detail::GetRandNumber']
        ok = None
        if len(loops) == 1 and len(calls) == 1 and loops[0]['k'] in ('ForStmt', 'WhileStmt') and \
                calls[0]['i'] in f.descendants(loops[0]['body']):
            lp = loops[0]
            body = set(f.descendants(lp['body']))

            def val(i):
                """('c', k) for a constant, ('p',) for the count parameter, None otherwise"""
                n = f.sn(i)
                if n is None:
                    return None
                if n.get('v') is not None and 'id' not in n:
                    return ('c', n['v'])
                if n['k'] == 'DeclRefExpr' and n.get('id') in f.params:
                    return ('p',)
                return None
            # the induction variable is the variable the loop condition compares: a local or the parameter itself
            c = f.sn(lp['cond']) if 'cond' in lp else None
            ind = bound = cop = None
            if c is not None and c['k'] == 'BinaryOperator' and c['op'] in ('!=', '<', '>'):
                a, b = f.sn(c['ch'][0]), f.sn(c['ch'][1])
                inits = {v['id']: v['init'] for m in (f.nodes[d] for d in f.descendants(lp['i']))
                         if m['k'] == 'DeclStmt' and m['i'] not in body for v in m['vars'] if 'init' in v}
                for x, y, flip in ((a, b, False), (b, a, True)):
                    if x is not None and x['k'] == 'DeclRefExpr' and 'id' in x and val(y['i']) is not None and \
                            (x['id'] in inits or (x['id'] in f.params and val(y['i']) == ('c', 0))):
                        ind, bound = x['id'], val(y['i'])
                        cop = {'<': '>', '>': '<'}.get(c['op'], c['op']) if flip else c['op']
                        start = val(inits[ind]) if ind in inits else ('p',)
                        break
            if ind is not None:
                step = 0
                nsteps = 0
                conditional = False
                for d in f.descendants(lp['i']):
                    m = f.nodes[d]
                    if m['k'] not in ('UnaryOperator', 'CompoundAssignOperator') or \
                            (f.sn(m['ch'][0]) or {}).get('id') != ind:
                        continue
                    if m['k'] == 'UnaryOperator' and m.get('op') in ('++', '--'):
                        step, nsteps = (1 if m['op'] == '++' else -1), nsteps + 1
                    elif m['k'] == 'CompoundAssignOperator' and m.get('op') in ('+=', '-=') and \
                            val(m['ch'][1]) == ('c', 1):
                        step, nsteps = (1 if m['op'] == '+=' else -1), nsteps + 1
                    else:
                        nsteps += 2
                    par = f.parents.get(d)
                    while par is not None and par != lp['i']:
                        if f.nodes[par]['k'] in ('IfStmt', 'ConditionalOperator', 'WhileStmt', 'ForStmt'):
                            conditional = True
                        par = f.parents.get(par)
                # trip count: counting up from `start` while ind != / < bound, or down while ind != / > bound
                up = step == 1 and cop in ('!=', '<') and start == ('c', 0) and bound == ('p',)
                down = step == -1 and cop in ('!=', '>') and start == ('p',) and bound == ('c', 0)
                ok = nsteps == 1 and not conditional and (up or down)
        if ok is None:
            ctx.broken('D2: the replay loop of ForwardToRandCount is not recognised')
        if not ok:
            ctx.report(d2, key, f.where, 'ForwardToRandCount does not take exactly `random_count` counted draws (a loop of '
                       'exactly that many iterations, one GetRandNumber each): a restored run continues '
                       'from another engine position than the recorded one')
    key = 'D2 SetSeed restarts engine and draw counter'
    ctx.instance(d2, key, None)

    def writes_var(fn, n, var):
        """n assigns / stores to the namespace-scope variable `var` (plain, atomic operator= or .store)"""
        if n['k'] in ('BinaryOperator', 'CXXOperatorCallExpr') and n.get('op') == '=':
            tgt = fn.sn((n.get('args') or n.get('ch'))[0])
            return tgt is not None and tgt.get('dn') == var
        if n['k'] == 'CXXMemberCallExpr' and n.get('cn', '').endswith('::store') and n.get('obj') is not None:
            o = fn.sn(n['obj'])
            while o is not None and o['k'] in ('ImplicitCastExpr', 'UnaryOperator') and o.get('ch'):
                o = fn.sn(o['ch'][0])
            return o is not None and o.get('dn') == var
        return False

    def is_seed_call(b, i, e):
        if not isinstance(e, int):
            return False
        n = s.nodes[e]
        return n['k'] == 'CXXMemberCallExpr' and n['cn'].endswith('::seed') and ENGINE_T.search(n.get('cr', '')) is not None

    seeds = [n for n in s.own_nodes() if n['k'] == 'CXXMemberCallExpr' and n['cn'].endswith('::seed') and
             ENGINE_T.search(n.get('cr', ''))]
    resets = [n for n in s.own_nodes() if writes_var(s, n, 'yaclib::detail::sRandCount')]
    stores = [n for n in s.own_nodes() if writes_var(s, n, 'yaclib::detail::sSeed')]
    unconditional = bool(seeds) and s.cfg.reaches_exit_without((s.cfg.entry, -1), is_seed_call) is None
    if not stores:
        ctx.report(d2, key, s.where, 'SetSeed does not remember the seed')
    elif not unconditional:
        ctx.report(d2, key, s.where, 'SetSeed does not re-seed the engine on every path: a run that sets the same seed '
                   'again (a second run or an in-process replay) continues the previous run\'s sequence while the draw '
                   'counter restarts, so the same seed no longer means the same decisions')
    elif not resets:
        ctx.report(d2, key, s.where, 'SetSeed re-seeds the engine but keeps the old draw count: a (random-count, '
                   'injector-state) pair recorded after re-seeding in the same process does not identify the engine '
                   'state, so ForwardToFaultRandomCount replays to a different point')

    # ---------------------------------------------------------------- D3
    for f in fb.fn.values():
        for c in f.calls(r'^yaclib::detail::GetRandNumber$'):
            ok, r = in_fault(f, root)
            ctx.instance(d3, 'D3 caller ' + f.qn, dict(caller=f.qn))
            if not ok:
                ctx.report(d3, 'D3 caller ' + f.qn, f.loc(c), 'GetRandNumber is drawn from outside the fault layer: the '
                           'number of draws depends on code the seed does not govern')

    # ---------------------------------------------------------------- D4
    rel_ops = ('<', '>', '<=', '>=')
    for f, r in fault_fns:
        if any(r.startswith(x) for x in D4_EXCLUDE):
            continue
        ctx.instance(d4, 'D4 ' + f.qn, None)
        for n in f.own_nodes():
            k = n['k']
            bad = None
            if n.get('cast') == 'PointerToIntegral':
                bad = 'converts a pointer to an integer'
            elif k == 'BinaryOperator' and n['op'] in rel_ops:
                a, b = f.nodes[n['ch'][0]], f.nodes[n['ch'][1]]
                if a.get('t', '').endswith('*') and b.get('t', '').endswith('*'):
                    bad = 'orders two pointers with %s' % n['op']
            elif k == 'CXXOperatorCallExpr' and n.get('op') in rel_ops and n.get('args'):
                a = f.nodes[n['args'][0]]
                if a.get('t', '').endswith('*'):
                    bad = 'orders two pointers with %s' % n['op']
            elif k in ('CXXMemberCallExpr',) and n['cn'] in (
                    'std::unordered_map::begin', 'std::unordered_set::begin', 'std::unordered_multimap::begin',
                    'std::unordered_map::cbegin', 'std::unordered_set::cbegin'):
                bad = 'iterates over an unordered container (hash order)'
            elif k == 'CXXForRangeStmt':
                for d in f.descendants(n['i']):
                    if 'std::unordered_' in f.nodes[d].get('t', '') and f.nodes[d]['k'] == 'DeclRefExpr':
                        bad = 'iterates over an unordered container (hash order)'
                        break
            elif k == 'CallExpr' and n.get('cn') in ('std::less::operator()', 'std::sort', 'std::stable_sort') and \
                    any(f.nodes[a].get('t', '').endswith('*') for a in n.get('args', [])):
                bad = 'sorts / compares by pointer value'
            if bad:
                ctx.report(d4, 'D4 %s %s' % (f.qn, bad), f.loc(n), 'decision code %s: the outcome depends on addresses, '
                           'which differ between runs and processes' % bad, 'function: ' + f.full[:200])
        for l in f.locals:
            if pointer_in_key(l['t']):
                ctx.report(d4, 'D4 %s container keyed by pointer' % f.qn, f.where,
                           'an associative container keyed by a pointer (%s)' % l['t'][:80])
    for rec in fb.records.values():
        rr = os.path.relpath(rec.file, root) if rec.file.startswith(root) else facts.rel(rec.file)
        if not any(rr.startswith(p) for p in FAULT_PREFIXES) or any(rr.startswith(x) for x in D4_EXCLUDE):
            continue
        for fl in rec.fields:
            ctx.instance(d4, 'D4 field %s::%s' % (rec.qn, fl['n']), None)
            if pointer_in_key(fl['t']):
                ctx.report(d4, 'D4 field %s::%s keyed by pointer' % (rec.qn, fl['n']),
                           '%s:%d' % (rr, rec.line), 'an associative container keyed by a pointer (%s): its order '
                           'depends on addresses' % fl['t'][:80])

    # ---------------------------------------------------------------- D5
    TIME = 'yaclib::fault::Scheduler::_time'
    writers = set()
    for f, r in fault_fns:
        for n in f.own_nodes():
            if n['k'] in ('BinaryOperator', 'CompoundAssignOperator', 'UnaryOperator') and \
                    (n.get('op', '').endswith('=') and n['op'] not in ('==', '!=', '<=', '>=') or
                     n.get('op') in ('++', '--')):
                t = f.sn(n['ch'][0])
                if t is not None and t.get('dn') == TIME:
                    writers.add(f.qn)
    ctx.instance(d5, 'D5 writers of Scheduler::_time', dict(writers=sorted(writers)))
    if not writers:
        ctx.broken('no writer of Scheduler::_time found')
    extra = writers - {'yaclib::fault::Scheduler::TickTime', 'yaclib::fault::Scheduler::AdvanceTime'}
    if extra:
        ctx.report(d5, 'D5 writers of Scheduler::_time', 'src/fault/fiber/scheduler.cpp',
                   'virtual time is also written by %s' % sorted(extra))
    now = fb.by_qn('yaclib::detail::fiber::SystemClock::now')
    ctx.instance(d5, 'D5 SystemClock::now', None)
    if not now or not any(c['cn'] == 'yaclib::fault::Scheduler::GetTimeNs' for c in now[0].calls()):
        ctx.report(d5, 'D5 SystemClock::now', now[0].where if now else 'src/fault/fiber/system_clock.cpp',
                   'the fiber clock does not read the scheduler\'s virtual time')
    sched = fb.records.get('yaclib::fault::Scheduler')
    ctx.instance(d5, 'D5 Scheduler::_sleep_list', None)
    if sched is None:
        ctx.broken('record yaclib::fault::Scheduler not found')
    sl = [fl for fl in sched.fields if fl['n'] == '_sleep_list']
    if not sl:
        ctx.broken('Scheduler::_sleep_list not found')
    if 'std::unordered_' in sl[0]['t']:
        ctx.report(d5, 'D5 Scheduler::_sleep_list', 'include/yaclib/fault/detail/fiber/scheduler.hpp',
                   'sleeping fibers are kept in a hash container (%s): wake-up order depends on the hash order' %
                   sl[0]['t'][:80])

    # ---------------------------------------------------------------- D7
    d7 = ctx.rule('D7', 'mutable process-wide state of the fault layer is the reviewed set (configuration, seed, engine, '
                  'draw counter, injector, scheduler pointers ...); a new static that is read by decision code is outside '
                  'SetSeed / the injector state', minimum=10)
    check_static_state(ctx, fb, d7)
    # ---------------------------------------------------------------- D6
    inj = fb.records.get('yaclib::detail::Injector')
    if inj is None:
        ctx.broken('record yaclib::detail::Injector not found')
    names = sorted(fl['n'] for fl in inj.fields)
    ctx.instance(d6, 'D6 Injector fields', dict(fields=names))
    if names != ['_count', '_pause']:
        ctx.report(d6, 'D6 Injector fields', 'include/yaclib/fault/injector.hpp', 'injector state is %s; Get/SetState '
                   'save and restore only _count (and Enable/Disable _pause)' % names)
    gs = fb.by_qn('yaclib::detail::Injector::GetState')
    ss = fb.by_qn('yaclib::detail::Injector::SetState')
    if not gs or not ss:
        ctx.broken('Injector::GetState/SetState not found')
    ctx.instance(d6, 'D6 GetState', None)
    ctx.instance(d6, 'D6 SetState', None)
    from vlib import atomics
    gsites = [x for x in atomics.sites(fb, lambda f: f.key == gs[0].key)]
    ssites = [x for x in atomics.sites(fb, lambda f: f.key == ss[0].key)]
    ret = [n for n in gs[0].own_nodes() if n['k'] == 'ReturnStmt']
    ok = len(gsites) == 1 and gsites[0]['op'] == 'load' and gsites[0]['word'].endswith('::_count') and ret and \
        gs[0].strip(ret[0]['ch'][0]) == gsites[0]['node']['i']
    if not ok:
        ctx.report(d6, 'D6 GetState', gs[0].where, 'GetState does not return the value of _count')
    ok = len(ssites) == 1 and ssites[0]['op'] == 'store' and ssites[0]['word'].endswith('::_count') and \
        ssites[0]['value'] == ('param', ss[0].locals[ss[0].params[0]]['n'])
    if not ok:
        ctx.report(d6, 'D6 SetState', ss[0].where, 'SetState does not store its argument into _count')
