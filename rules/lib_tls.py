"""R-TLS — thread-local pointers of the FIBER backend are per fiber: their values live IN the fiber object.

yaclib_std thread_local pointers go through fiber::GetImpl(i) / fiber::Set(v, i).  "Per fiber" has two halves: a value
is found through the current fiber (Scheduler::Current()), and it dies with that fiber — so it is stored in a member
of the fiber object (FiberBase::_tls through GetTLS / SetTLS), never in a table with static storage duration keyed by
the fiber (its address or id can be reused by a later fiber, which then inherits values it never stored).  The only
static state is the table of per-variable DEFAULTS, which GetImpl hands to GetTLS.
"""


def check_tls(ctx, fb, rule):
    n = 0
    fns = {f.n: f for f in fb.fn.values() if f.cfg is not None and f.file.endswith('fault/fiber/thread_local_proxy.cpp')
           and f.qn.startswith('yaclib::detail::fiber::') and not f.cls}
    for name, member in (('GetImpl', 'GetTLS'), ('Set', 'SetTLS')):
        f = fns.get(name)
        if f is None:
            ctx.broken('R-TLS: fiber::%s not found' % name)
        key = 'R-TLS fiber::%s' % name
        n += 1
        ctx.instance(rule, key, dict(function=f.full[:120]))
        calls = [c for c in f.calls() if c['cn'] == 'yaclib::detail::fiber::FiberBase::' + member]
        cur = [c for c in f.calls() if c['cn'].endswith('Scheduler::Current')]
        if len(calls) != 1 or not cur:
            ctx.report(rule, key, f.where, 'fiber::%s does not go through %s of the current fiber (Scheduler::Current()): '
                       'the value is not stored in / read from the fiber object, so it does not die with the fiber' % (
                           name, member))
            continue
        allowed = set(f.descendants(calls[0]['i'])) if name == 'GetImpl' else set()
        for c in f.calls():
            g = fb.fn.get(c.get('ck'))
            if g is not None and g.file == f.file and c['i'] not in allowed:
                ctx.report(rule, key, f.loc(c), 'fiber::%s uses file-level state (%s) besides the fiber object: '
                           'per-fiber values kept in a static table outlive their fiber and are inherited by a later '
                           'fiber that reuses the key' % (name, c['cn'].split('::')[-1]))
                break
        else:
            for x in f.own_nodes():
                if x['k'] == 'DeclRefExpr' and x.get('dk') == 'Var' and x.get('dn') in fb.vars and x['i'] not in allowed:
                    ctx.report(rule, key, f.loc(x), 'fiber::%s touches the static variable %s' % (name, x['dn']))
                    break
    for member in ('GetTLS', 'SetTLS'):
        for f in fb.by_qn('yaclib::detail::fiber::FiberBase::' + member):
            if f.cfg is None:
                continue
            key = 'R-TLS FiberBase::%s' % member
            n += 1
            ctx.instance(rule, key, None)
            mem = {x.get('dn') for x in f.own_nodes() if x['k'] == 'MemberExpr' and x.get('dn', '').startswith(
                'yaclib::detail::fiber::FiberBase::_')}
            if mem != {'yaclib::detail::fiber::FiberBase::_tls'}:
                ctx.report(rule, key, f.where, 'FiberBase::%s uses %s instead of the fiber\'s own table _tls' % (
                    member, sorted(m.split('::')[-1] for m in mem) or 'no member'))
    return n
