"""R-ACCESSOR — Result accessors are guarded by the matching state.

Result<V,E>::Value()/Error()/Exception() (and std::get<T>(r.Internal())) terminate the process when the Result
holds another alternative (bad_variant_access inside a noexcept chain).  For every call of such an accessor the
set of states the Result may be in, refined along the CFG path by the tests the code performs
(`if (r)`, `!r`, `r.State() == K`, `state == K` with `state = r.State()`), must be exactly the matching singleton.
Assumption (stated in evidence): a delivered Result is never Empty.
"""
from vlib import facts, pathwalk

ALL = frozenset('VXR')  # Value, eXception, eRror
ACC = {'Value': 'V', 'Exception': 'X', 'Error': 'R'}
STATE_ENUM = 'yaclib::ResultState'
ENUM2S = {'Value': 'V', 'Exception': 'X', 'Error': 'R'}
TRANSPARENT = ('std::forward', 'std::move', 'std::as_const')


class AccWalker(pathwalk.Walker):
    max_paths = 20000

    def __init__(self, fb, enum):
        super().__init__(fb)
        self.enum = enum  # ResultState constants
        self.val2s = {v: ENUM2S[k] for k, v in enum.items() if k in ENUM2S}
        self.sites = {}  # node index -> (ok?, set seen, accessor, objtext)

    # object identity of a Result-typed expression
    def obj(self, fn, i, st):
        while True:
            i = fn.strip(i)
            n = fn.nodes[i]
            if n['k'] == 'CallExpr' and n.get('cn') in TRANSPARENT and n['args']:
                i = n['args'][0]
                continue
            if n['k'] in ('CXXStaticCastExpr', 'CXXConstCastExpr', 'ImplicitCastExpr') and n.get('ch'):
                i = n['ch'][0]
                continue
            if n['k'] == 'UnaryOperator' and n['op'] == '*':
                i = n['ch'][0]
                continue
            break
        if n['k'] == 'DeclRefExpr' and 'id' in n:
            # reference locals initialised from another object alias it
            a = st.data.get(('alias', st.depth, n['id']))
            return a if a is not None else ('l', st.depth, n['id'])
        if n['k'] == 'MemberExpr':
            return ('m', n['dn'])
        if n['k'] == 'CXXMemberCallExpr' and n['cn'].endswith('::Get') and 'Core' in n.get('cr', ''):
            return ('get', self.text_key(fn, n['obj']))
        return None

    def text_key(self, fn, i):
        return fn.text(i)

    def is_result_method(self, n, name):
        return n.get('cn') == 'yaclib::Result::' + name or (n.get('cr', '').startswith('yaclib::Result<') and
                                                             n.get('cn', '').endswith('::' + name))

    def get_set(self, st, key):
        return st.data.get(('rs', key), ALL)

    def on_node(self, fn, n, st):
        k = n['k']
        if k == 'DeclStmt':
            for v in n['vars']:
                if 'init' not in v:
                    continue
                init = fn.sn(v['init'])
                # state = r.State()
                if init['k'] == 'CXXMemberCallExpr' and self.is_result_method(init, 'State'):
                    key = self.obj(fn, init['obj'], st)
                    if key is not None:
                        st.data[('stateof', st.depth, v['id'])] = key
                # auto& result = core.Get();   (alias)
                elif fn.locals[v['id']]['t'].endswith('&'):
                    key = self.obj(fn, v['init'], st)
                    if key is not None:
                        st.data[('alias', st.depth, v['id'])] = key
            return
        if k == 'CXXMemberCallExpr':
            for name, s in ACC.items():
                if self.is_result_method(n, name):
                    self.accessor(fn, n, n['obj'], s, name, st)
        elif k == 'CallExpr' and n.get('cn') == 'std::get' and n['args']:
            a = fn.sn(n['args'][0])
            # std::get<T>(r.Internal())
            inner = a
            while inner is not None and inner['k'] == 'CallExpr' and inner.get('cn') in TRANSPARENT:
                inner = fn.sn(inner['args'][0])
            if inner is not None and inner['k'] == 'CXXMemberCallExpr' and self.is_result_method(inner, 'Internal'):
                targ = (n.get('cta') or ['?'])[0]
                s = 'X' if targ.startswith('std::exception_ptr') or 'exception_ptr' in targ else (
                    'V' if False else 'R')
                self.accessor(fn, n, inner['obj'], s, 'std::get<%s>' % targ.split('::')[-1], st)

    def accessor(self, fn, n, obj_i, want, name, st):
        key = self.obj(fn, obj_i, st)
        cur = self.get_set(st, key) if key is not None else ALL
        ok = cur <= {want}
        prev = self.sites.get(n['i'])
        seen = (prev[1] | cur) if prev else cur
        self.sites[n['i']] = ((prev[0] if prev else True) and ok, seen, name, fn.text(obj_i), want)

    def refine(self, st, key, keep):
        if key is None:
            return True
        cur = self.get_set(st, key) & keep
        st.data[('rs', key)] = cur
        return bool(cur)

    def on_edge(self, fn, ci, taken, st):
        i = fn.strip(ci)
        neg = False
        n = fn.nodes[i]
        while n['k'] == 'UnaryOperator' and n['op'] == '!':
            neg = not neg
            i = fn.strip(n['ch'][0])
            n = fn.nodes[i]
        truth = taken != neg
        # if (r)  -> explicit operator bool
        if n['k'] == 'CXXMemberCallExpr' and self.is_result_method(n, 'operator bool'):
            key = self.obj(fn, n['obj'], st)
            self.refine(st, key, frozenset('V') if truth else frozenset('XR'))
            return
        if n['k'] == 'BinaryOperator' and n['op'] in ('==', '!='):
            a, b = fn.sn(n['ch'][0]), fn.sn(n['ch'][1])
            for x, y in ((a, b), (b, a)):
                if 'v' in y and STATE_ENUM in y.get('t', '') and y['v'] in self.val2s:
                    key = None
                    if x['k'] == 'CXXMemberCallExpr' and self.is_result_method(x, 'State'):
                        key = self.obj(fn, x['obj'], st)
                    elif x['k'] == 'DeclRefExpr' and 'id' in x:
                        key = st.data.get(('stateof', st.depth, x['id']))
                    if key is not None:
                        s = self.val2s[y['v']]
                        eq = truth == (n['op'] == '==')
                        self.refine(st, key, frozenset(s) if eq else ALL - {s})
                    return


def check(ctx, fb, rule, functions, exempt=None):
    """functions: iterable of Function whose bodies contain accessor calls; returns number of sites"""
    exempt = exempt or {}
    enum = fb.enums.get(STATE_ENUM)
    if not enum:
        ctx.broken('enum yaclib::ResultState not found')
    nsites = 0
    for f in functions:
        if f.cfg is None:
            continue
        w = AccWalker(fb, enum)
        try:
            w.run(f)
        except pathwalk.TooManyPaths as e:
            ctx.broken('R-ACCESSOR: %s: %s' % (f.full, e))
        for ni, (ok, seen, name, objtext, want) in sorted(w.sites.items()):
            key = '%s %s() on %s' % (f.qn, name, objtext)
            nsites += 1
            ctx.instance(rule, key + ' @' + f.loc(ni), dict(function=f.full[:160], accessor=name, object=objtext,
                                                             where=f.loc(ni), states_reaching=''.join(sorted(seen))))
            if not ok:
                ex = exempt.get((f.qn, name))
                if ex:
                    ctx.assume('R-ACCESSOR exemption %s::%s — %s' % (f.qn, name, ex))
                    continue
                names = {'V': 'Value', 'X': 'Exception', 'R': 'Error'}
                ctx.report(rule, key, f.loc(ni),
                           '%s() is reachable while the Result may hold {%s}: the accessor terminates the process '
                           'on a non-matching alternative' % (name, ', '.join(names[s] for s in sorted(seen - {want}))),
                           'function: %s' % f.full[:300])
    return nsites


def functions_with_accessors(fb, path_prefixes):
    out = []
    for f in fb.functions_in(path_prefixes):
        raw_nodes = f.raw['nodes']
        S = f.S
        hit = False
        for n in raw_nodes:
            cn = n.get('cn')
            if cn is None:
                continue
            name = facts.strip_targs(S[cn]) if isinstance(cn, int) else cn
            if name in ('yaclib::Result::Value', 'yaclib::Result::Error', 'yaclib::Result::Exception',
                        'yaclib::Result::Internal'):
                hit = True
                break
        if hit:
            out.append(f)
    return out
