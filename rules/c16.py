"""C16 — WaitGroup / OneShotEvent release every waiter exactly when the count hits zero (structural clauses)."""
from rules import lib_coro, lib_core, lib_exec, lib_order, lib_ready, lib_shape
from vlib import lin, pathwalk

HEAD = 'yaclib::OneShotEvent::_head'
COUNT = 'yaclib::detail::AtomicCounter::count'


# the operations that subtract from the group's count AND release the waiters when it reaches zero
GIVE_BACK = ('yaclib::WaitGroup::Done', 'yaclib::detail::AtomicCounter::Sub')


class EvWalker(lib_core.CoreWalker):
    def on_node(self, fn, n, st):
        super().on_node(fn, n, st)
        if n['k'] == 'CXXDeleteExpr':
            st.events.append(('delete', fn.loc(n)))

    def on_edge(self, fn, ci, taken, st):
        c = fn.sn(ci)
        neg = False
        while c['k'] == 'UnaryOperator' and c['op'] == '!':
            neg = not neg
            c = fn.sn(c['ch'][0])
        truth = taken != neg
        last = c.get('cn', '').split('::')[-1]
        if last in ('compare_exchange_weak', 'compare_exchange_strong'):
            st.events.append(('cas', truth))
        elif last in ('TryAdd', 'SetCallback', 'SubEqual'):
            st.events.append(('outcome', last, truth))
        elif c['k'] == 'BinaryOperator' and c['op'] in ('==', '!='):
            b = fn.sn(c['ch'][1])
            txt = fn.text(c['i'])
            eq = truth == (c['op'] == '==')
            if 'kAllDone' in txt:
                st.events.append(('alldone', eq))
            else:
                d = lin.difference(fn, c['i'])
                # count == wait_count in any spelling: (count - wait_count) == 0, ready_count != 0 ...
                if d is not None and d[1].c == 0 and sorted(d[1].t.values()) == [-1, 1] and 'wait_count' in d[1].t:
                    st.events.append(('count-eq-wait', eq))


def check_event_forms(ctx, fb, rule, ka, ke, cfg):
    E = 'yaclib::OneShotEvent'
    # (a) Set latches: the value Set() hands to the exchange is the sentinel TryAdd / Ready compare with
    for f in fb.by_qn(E + '::Set'):
        key = 'R-EVENTFORMS OneShotEvent::Set latches'
        ctx.instance(rule, key + ' [%s]' % cfg, None)
        consts = set()
        for c in f.calls():
            for a in c.get('args', []):
                v = (f.sn(a) or {}).get('v')
                if v is not None:
                    consts.add(v)
        if ka not in consts or (ke in consts and ke != ka):
            ctx.report(rule, key, f.where, 'Set() does not leave the event in the all-done state (it stores %s, the '
                       'sentinel TryAdd and Ready test is %s): a waiter that arrives after the count reached zero parks '
                       'forever' % (sorted(consts), ka))
    # (b) TryAdd links the new waiter in front of the observed head
    for f in fb.by_qn(E + '::TryAdd'):
        key = 'R-EVENTFORMS OneShotEvent::TryAdd links'
        ctx.instance(rule, key + ' [%s]' % cfg, None)
        cas = [c for c in f.calls() if c['cn'].split('::')[-1].startswith('compare_exchange')]
        links = [n for n in f.own_nodes() if n['k'] == 'BinaryOperator' and n['op'] == '=' and
                 (f.sn(n['ch'][0]) or {}).get('mn') == 'next']
        ok = False
        if cas and links:
            exp = f.sn(cas[0]['args'][0])
            for ln in links:
                r = f.sn(ln['ch'][1])
                while r is not None and r['k'] in ('CXXReinterpretCastExpr', 'CXXStaticCastExpr', 'CStyleCastExpr') \
                        and r.get('ch'):
                    r = f.sn(r['ch'][0])
                if r is not None and exp is not None and r['k'] == 'DeclRefExpr' and r.get('id') == exp.get('id') and \
                        f.cfg.pos_of(ln['i']) and f.cfg.pos_of(cas[0]['i']) and \
                        f.cfg.dominates(f.cfg.pos_of(ln['i']), f.cfg.pos_of(cas[0]['i'])):
                    # and it is redone after every refresh: the link lies on the retry cycle
                    ok = f.cfg.pos_of(ln['i'])[0] in f.cfg.loops() or not f.cfg.loops()
        if not ok:
            ctx.report(rule, key, f.where, 'the waiter published by the CAS is not linked in front of the head the CAS '
                       'expects (job.next = head before every attempt): the waiters registered earlier are cut off and '
                       'never released')
    # (c) the blocking Wait() blocks exactly when it was registered
    for f in fb.by_qn(E + '::Wait'):
        key = 'R-EVENTFORMS OneShotEvent::Wait'
        res = EvWalker(fb).run(f)
        ctx.instance(rule, key + ' [%s]' % cfg, dict(paths=len(res)))
        for st, _ in res:
            out = [e for e in st.events if e[0] == 'outcome' and e[1] == 'TryAdd']
            waits = [e for e in st.events if e[0] == 'call' and e[1].split('::')[-1] == 'Wait' and e[1] != E + '::Wait']
            if not out:
                ctx.broken('OneShotEvent::Wait: registration not recognised')
            if bool(waits) != bool(out[-1][2]):
                ctx.report(rule, key, f.where, 'Wait() %s' % (
                    'returns without blocking although its waiter was registered (the event is not set yet; the '
                    'waiter object dies while it is in the list)' if out[-1][2] else
                    'blocks on a waiter that was not registered (the event was already set): it is never woken'))
                break
    if cfg == 'K17':
        return
    # (d) an awaiter that always suspends resumes the coroutine itself when it could not register
    for f in fb.fn.values():
        if f.clsq.startswith(E + '::') and f.n == 'await_suspend' and f.cfg is not None and f.ret == 'void':
            key = 'R-EVENTFORMS %s::await_suspend (always suspends)' % f.clsq.split('::')[-1]
            res = EvWalker(fb).run(f)
            ctx.instance(rule, key + ' [%s]' % cfg, dict(paths=len(res)))
            for st, _ in res:
                ev = st.events
                out = [i for i, e in enumerate(ev) if e[0] == 'outcome' and e[1] == 'TryAdd']
                if not out:
                    ctx.report(rule, key, f.where, 'a path suspends the coroutine without trying to register it')
                    break
                if ev[out[-1]][2] is False and not any(
                        e[0] == 'call' and e[1].split('::')[-1] in ('Call', 'Submit') for e in ev[out[-1]:]):
                    ctx.report(rule, key, f.where, 'the coroutine is suspended, could not be registered (the event was '
                               'already set) and nothing resumes it')
                    break
    # (e) the sticky / on-executor awaiters resume by submitting the coroutine to its executor
    for f in fb.by_qn(E + '::ExtendedAwaiter::Call'):
        key = 'R-EVENTFORMS ExtendedAwaiter::Call'
        ctx.instance(rule, key + ' [%s]' % cfg, None)
        names = [c['cn'] for c in f.calls()]
        if 'yaclib::IExecutor::Submit' not in names or any(
                n.split('::')[-1] in ('Call', 'resume', 'Resume') and n != f.qn for n in names):
            ctx.report(rule, key, f.where, 'the awaiter does not hand the coroutine to its executor (calls: %s): the '
                       'sticky / on-executor forms resume inside Set() on the thread that completed the group' % (
                           [n.split('::')[-1] for n in names]))


def run(ctx):
    fbs = ctx.facts(['K17', 'K20'], kinds=('probe', 'lib'), only=r'p_coro\.cpp$|p_async\.cpp$|src/algo|src/util', tests=r'/test/',
                    quick_tests=r'unit/algo/wait_group\.cpp|unit/coro/await_group\.cpp')
    rw = ctx.rule('R-WORD', 'protocol of OneShotEvent::_head and of the counter', minimum=8)
    ro = ctx.rule('R-ORDER', 'role minimum orders of _head / count', minimum=8)
    rc = ctx.rule('R-CASKIND', 'waiter push: weak CAS in a loop re-testing all-done', minimum=1)
    rr = ctx.rule('R-READY', 'OneShotEvent::Ready is true only in the all-done state; attached futures stay not Ready '
                  'until they complete', minimum=2)
    rl = ctx.rule('R-LINEAR', 'Set walks the waiter list: each waiter Called once, next read first', minimum=1)
    rt = ctx.rule('R-TRYADD', 'TryAdd fails iff it observed all-done and succeeds iff its CAS succeeded', minimum=1)
    rs = ctx.rule('R-SETPATH', 'the event is Set only by the counter reaching zero (SetDeleter on the SubEqual edge)',
                  minimum=2)
    ri = ctx.rule('R-SIBLING', 'WaitGroup::InsertRange: not-registered inputs are released and subtracted', minimum=4)
    rtw = ctx.rule('R-TIMEDWAITER', 'TimedWaiter has two owners; fallback delete only when not registered; Call sets '
                   'then releases', minimum=3)
    rsu = ctx.rule('R-SUSPEND', 'event awaiters: bool await_suspend == TryAdd outcome', minimum=0)
    rh = ctx.rule('R-HANDOFF', 'event awaiters: no field touched after hand-off', minimum=0)
    rsh = ctx.rule('R-SHAPE', 'SetImpl calls every waiter of the detached list exactly once and loses none (shape '
                   'analysis over list segments, all lengths)', minimum=1)
    rcf = ctx.rule('R-CASFRESH', 'every retry of a compare-exchange re-tests the refreshed expected value against the '
                   'sentinels the first attempt tested', minimum=0)
    recb = ctx.rule('R-EVENTCALLBACK', '(shared with C11) an attached future counts one unit out and stays valid; a consumed '
                    'one is released exactly once and counts one unit', minimum=2)
    ref_ = ctx.rule('R-EVENTFORMS', 'Set() stores the all-done sentinel (later arrivals do not park); TryAdd links the '
                    'new waiter in front of the observed head; Wait() blocks exactly when it was registered; an '
                    'awaiter that always suspends resumes the coroutine itself when it could not register; the '
                    'sticky / on-executor awaiters resume by submitting to the executor', minimum=3)
    rwm = ctx.rule('R-WGMODE', 'WaitGroup: Consume takes the cores from the futures, registers the releasing callback and '
                   'releases already complete inputs; Attach does none of the three; every public overload selects the '
                   'mode its name says', minimum=12)
    rww = ctx.rule('R-WGWAIT', 'WaitGroup::Wait / WaitFor / WaitUntil answer through the event only (Wait reaches the '
                   'event\'s wait on every path, the timed forms return its answer as is): the counter is zero before '
                   'Set has finished with the event', minimum=3)
    rwr = ctx.rule('R-WGRESET', 'WaitGroup::Reset re-arms the event and sets the counter', minimum=1)
    for cfg, fb in sorted(fbs.items()):
        from rules import lib_wg
        if (ctx.guard(lambda: lib_wg.check_wait_group(ctx, fb, rwm, rwr, rww)) or 0) < 10 and cfg == 'K20':
            ctx.guard(lambda: ctx.broken('R-WGMODE: WaitGroup Consume / Attach forms not instantiated in %s' % cfg))
        ctx.guard(lambda: lib_order.check_cas_fresh(ctx, fb, rcf, lambda f: 'OneShotEvent' in f.qn or 'one_shot_event' in f.file))
        ctx.guard(lambda: lib_shape.check(ctx, fb, rsh, lambda qn: 'SetImpl' in qn and 'BaseCore' not in qn, 1))
        ctx.guard(lambda: lib_order.check(ctx, fb, cfg, [HEAD, COUNT], rw, ro, rc))
        ctx.guard(lambda: lib_order.check_counter_reads(ctx, fb, ro))
        # ---- readiness
        ka = fb.vars.get('yaclib::OneShotEvent::kAllDone', {}).get('v')
        ke = fb.vars.get('yaclib::OneShotEvent::kEmpty', {}).get('v')
        if ka is None or ke is None:
            ctx.broken('OneShotEvent sentinels not found')
        for f in fb.by_qn('yaclib::OneShotEvent::Ready'):
            lib_ready.check(ctx, fb, rr, f, 'R-READY yaclib::OneShotEvent::Ready [%s]' % cfg, word='_head',
                            consts={'E': ke, 'R': ka})
        for f in fb.by_qn('yaclib::FutureBase::Ready')[:1]:
            ctx.guard(lambda: lib_ready.check(ctx, fb, rr, f, 'R-READY yaclib::FutureBase::Ready (attached futures) [%s]' % cfg))
        # ---- Set walk
        setimpl = [f for f in fb.fn.values() if f.qn.endswith('::SetImpl') and 'one_shot_event' in f.file]
        if not setimpl:
            ctx.broken('SetImpl of OneShotEvent not found')
        ctx.guard(lambda: lib_exec.check_dequeue(ctx, fb, rl, setimpl))
        # ---- TryAdd
        for f in fb.by_qn('yaclib::OneShotEvent::TryAdd'):
            key = 'R-TRYADD yaclib::OneShotEvent::TryAdd'
            w = EvWalker(fb)
            w.loop_bound = 1
            res = w.run(f)
            ctx.instance(rt, key + ' [%s]' % cfg, dict(paths=len(res)))
            for st, rv in res:
                if rv is None or rv[0] != 'c':
                    continue
                ev = st.events
                cas = [e for e in ev if e[0] == 'cas']
                ad = [e for e in ev if e[0] == 'alldone']
                if rv[1] and not (cas and cas[-1][1] is True):
                    ctx.report(rt, key, f.where, 'TryAdd reports success on a path without a successful CAS: the waiter '
                               'is not in the list and is never released')
                    break
                if not rv[1] and not (ad and ad[-1][1] is True):
                    ctx.report(rt, key, f.where, 'TryAdd reports failure although it did not observe the all-done '
                               'state: a waiter skips waiting before the count reached zero')
                    break
        from rules import c11
        ctx.guard(lambda: c11.check_event_callbacks(ctx, fb, recb, ('CallCallback', 'DropCallback')))
        # ---- the forms of the event (clauses that no other rule looks at)
        ctx.guard(lambda: check_event_forms(ctx, fb, ref_, ka, ke, cfg))
        # ---- who sets the event
        callers = set()
        for f in fb.fn.values():
            for c in f.calls():
                if c['cn'] in ('yaclib::OneShotEvent::Set',) and f.qn.startswith('yaclib::'):
                    callers.add(f.qn)
        key = 'R-SETPATH callers of OneShotEvent::Set'
        ctx.instance(rs, key + ' [%s]' % cfg, dict(callers=sorted(callers)))
        extra = callers - {'yaclib::detail::SetDeleter::Delete'}
        if extra:
            ctx.report(rs, key, 'include/yaclib/util/detail/set_deleter.hpp:1', 'the event is set by %s, not only by the '
                       'counter reaching zero' % sorted(extra))
        for f in fb.by_qn('yaclib::detail::AtomicCounter::Sub'):
            key = 'R-SETPATH AtomicCounter::Sub'
            res = EvWalker(fb).run(f)
            ctx.instance(rs, key + ' :: ' + f.cls[:80], None)
            for st, _ in res:
                dele = [e for e in st.events if e[0] == 'call' and e[1].endswith('::Delete')]
                out = [e for e in st.events if e[0] == 'outcome' and e[1] == 'SubEqual']
                if bool(dele) != bool(out and out[-1][2]):
                    ctx.report(rs, key, f.where, 'the deleter (event Set / object delete) must run exactly on the edge '
                               'where the decrement reached zero')
                    break
        # ---- InsertRange
        for f in fb.fn.values():
            if 'lambda' in f.flags and f.qn.startswith('yaclib::WaitGroup::InsertRange') and f.cfg is not None:
                key = 'R-SIBLING WaitGroup::InsertRange lambda'
                res = EvWalker(fb).run(f)
                parent = fb.fn.get(f.parent)
                need_move = bool(parent and parent.fta and parent.fta[0] in ('true', '1'))
                ctx.instance(ri, key + ' :: ' + (parent.full[:100] if parent else ''), dict(consume=need_move))
                for st, rv in res:
                    reg = [e for e in st.events if e[0] == 'outcome' and e[1] == 'SetCallback']
                    dec = [e for e in st.events if e[0] == 'call' and e[1].endswith('::DecRef')]
                    if need_move and reg:
                        if (not reg[-1][2]) != (len(dec) == 1):
                            ctx.report(ri, key, f.where, 'a consumed future that was already complete must be released '
                                       'exactly once here (and only then)')
                            break
                    if need_move and reg and rv is not None and rv[0] == 'c' and bool(rv[1]) != reg[-1][2]:
                        ctx.report(ri, key, f.where, 'the lambda must report whether the future was registered')
                        break
        for f in fb.fn.values():
            if f.qn == 'yaclib::WaitGroup::InsertRange' and f.cfg is not None:
                need_add = len(f.fta) > 1 and f.fta[1] in ('true', '1')
                if need_add:
                    # every unit of this call is counted BEFORE the first future can call back: Add(count) dominates
                    # the registration pass, and the pass itself adds nothing
                    key = 'R-ADDFIRST WaitGroup::InsertRange<NeedAdd>'
                    ctx.instance(ri, key + ' :: ' + f.full[:100], None)
                    cfgf = f.cfg
                    adds = [c for c in f.own_nodes() if c.get('cn') == 'yaclib::WaitGroup::Add' and cfgf.pos_of(c['i'])]
                    passes = [c for c in f.own_nodes() if c['k'] == 'CXXOperatorCallExpr' and c.get('op') == '()' and
                              cfgf.pos_of(c['i']) and any(f.nodes[d]['k'] == 'LambdaExpr'
                                                          for d in f.descendants(c['i']))]
                    whole = [a for a in adds if a.get('args') and (f.sn(a['args'][0]) or {}).get('k') == 'DeclRefExpr' and
                             f.locals[f.sn(a['args'][0])['id']]['p']]
                    if not passes:
                        ctx.broken('InsertRange: registration pass not recognised')
                    if not whole or not all(cfgf.dominates(cfgf.pos_of(whole[0]['i']), cfgf.pos_of(p['i']))
                                            for p in passes):
                        ctx.report(ri, key, f.where, 'the futures of one Attach/Consume call are not all counted before '
                                   'the first of them is registered: an early completion can take the count to zero '
                                   '(waiters released) while later futures of the same call are still pending',
                                   'instantiation: ' + f.full[:300])
                key = 'R-SIBLING WaitGroup::InsertRange'
                res = EvWalker(fb).run(f)
                ctx.instance(ri, key + ' :: ' + f.full[:100], None)
                for st, _ in res:
                    eq = [e for e in st.events if e[0] == 'count-eq-wait']
                    done = [e for e in st.events if e[0] == 'call' and e[1] in GIVE_BACK]
                    if done and not (eq and eq[-1][1] is False):
                        ctx.report(ri, key, f.where, 'Done(count - wait_count) is reached on a path that did not establish '
                                   'count != wait_count: Done(0) is not a no-op — the counter\'s zero test (fetch_sub(0) == '
                                   '0) fires the event again whenever the count happens to be zero at that moment, '
                                   'although this call gave nothing back (the event is set twice / a reset group is '
                                   'latched)')
                        break
                    if not eq:
                        continue
                    if eq[-1][1] is False and len(done) != 1:
                        ctx.report(ri, key, f.where, 'inputs that were already complete are not given back through '
                                   'Done / the counter\'s Sub (the only operations that release the waiters when the '
                                   'count reaches zero): %s' % ('the group never reaches zero' if not any(
                                       'fetch_sub' in (c.get('cn') or '') for c in f.calls()) else
                                       'a raw fetch_sub can take the count to zero without setting the event'))
                        break
                    if eq[-1][1] is True and done:
                        ctx.report(ri, key, f.where, 'Done is called although every input was registered')
                        break
                dn = [c for c in f.calls() if c['cn'] in GIVE_BACK]
                if not dn:
                    ctx.report(ri, key, f.where, 'inputs that were already complete at registration are never '
                               'subtracted from the count (no Done(count - wait_count)): the group never reaches zero')
                if dn:
                    a = lin.from_ast(f, dn[0]['args'][0])
                    if not (a is not None and a.c == 0 and a.t.get('wait_count') == -1 and
                            sorted(a.t.values()) == [-1, 1]):
                        ctx.report(ri, key, f.loc(dn[0]), 'the amount subtracted must be count - wait_count')
        # ---- TimedWaiter
        for f in fb.by_qn('yaclib::OneShotEvent::TimedWait'):
            key = 'R-TIMEDWAITER OneShotEvent::TimedWait'
            res = EvWalker(fb).run(f)
            ctx.instance(rtw, key + ' :: ' + f.full[:100], None)
            mk = f.calls(r'^yaclib::MakeShared$')
            if not mk or f.sn(mk[0]['args'][0]).get('v') != 2:
                ctx.report(rtw, key, f.where, 'the timed waiter is shared by the waiting thread and the event list: it '
                           'must be created with 2 references')
            for st, _ in res:
                out = [e for e in st.events if e[0] == 'outcome' and e[1] == 'TryAdd']
                dele = [n for n in f.own_nodes() if n['k'] == 'CXXDeleteExpr']
                if not out:
                    continue
            # the delete expression is reached only on paths on which TryAdd reported "not registered"
            for st, _ in res:
                ev = st.events
                for i, e in enumerate(ev):
                    if e[0] != 'delete':
                        continue
                    outs = [x for x in ev[:i] if x[0] == 'outcome' and x[1] == 'TryAdd']
                    if not outs or outs[-1][2] is not False:
                        ctx.report(rtw, key, e[1], 'the waiter is deleted on a path on which it may be registered in '
                                   'the event list (use after free when the event is set)')
                        break
        for f in fb.by_qn('yaclib::OneShotEvent::TimedWaiter::Call'):
            key = 'R-TIMEDWAITER TimedWaiter::Call'
            ctx.instance(rtw, key, None)
            seq = [c['cn'].split('::')[-1] for c in f.calls() if c['cn'].split('::')[-1] in ('Set', 'DecRef')]
            if seq != ['Set', 'DecRef']:
                ctx.report(rtw, key, f.where, 'Call must wake the waiter (Set) and then drop the list\'s reference '
                           '(DecRef), in this order (saw %s)' % seq)
        if cfg != 'K17':
            ctx.guard(lambda: lib_coro.check_suspend_result(ctx, fb, rsu))
            ctx.guard(lambda: lib_coro.check_handoff(ctx, fb, rh))
