"""R-RUNFORM — the eager starters hand their first step to the executor they were given, once, on every path.

detail::Run(e, f) / detail::RunShared(e, f) (behind Run / AsyncRun ... ) create the first step and must Submit it to the
executor parameter `e` itself: not at all = the step is neither Called nor Dropped and the future never completes;
to another executor = the step runs outside e."""


def _strip(fn, i):
    n = fn.sn(i)
    while n is not None and n['k'] in ('ImplicitCastExpr', 'ParenExpr', 'MaterializeTemporaryExpr') and n.get('ch'):
        n = fn.sn(n['ch'][0])
    return n


def check_run_forms(ctx, fb, rule):
    n = 0
    for f in sorted(fb.fn.values(), key=lambda f: f.full):
        if f.cfg is None or f.qn not in ('yaclib::detail::Run', 'yaclib::detail::RunShared'):
            continue
        eparams = [p for p in f.params if 'IExecutor' in f.locals[p]['t']]
        key = 'R-RUNFORM %s' % f.qn
        n += 1
        ctx.instance(rule, key + ' :: ' + f.full[:120], None)
        if len(eparams) != 1:
            ctx.broken('R-RUNFORM: %s has no single executor parameter' % f.full[:120])
        subs = [c for c in f.calls() if c['cn'].split('::')[-1] == 'Submit']
        on_e = [c for c in subs if c.get('obj') is not None and (_strip(f, c['obj']) or {}).get('id') == eparams[0]]
        if len(subs) != 1 or len(on_e) != 1:
            ctx.report(rule, key, f.loc(subs[0]) if subs else f.where, '%s submits its first step %s: the step %s' % (
                f.qn.split('::')[-1], 'to something else than its executor argument' if subs else 'to nobody',
                'runs outside the executor that was named' if subs else
                'is neither Called nor Dropped and the future never completes'), 'instantiation: ' + f.full[:300])
            continue
        cid = on_e[0]['i']

        def is_sub(b, i, e):
            return isinstance(e, int) and (e == cid or cid in set(f.descendants(e)))
        if f.cfg.reaches_exit_without((f.cfg.entry, -1), is_sub) is not None:
            ctx.report(rule, key, f.where, 'a path of %s returns without submitting the first step' % f.qn,
                       'instantiation: ' + f.full[:300])
    return n
