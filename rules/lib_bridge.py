"""R-BRIDGE — Share / Split create a contract and bridge the source to it.

Share(shared [, e]) / Share(shared promise [, e]) / Split(future) make a fresh contract and must hand its promise,
together with the source they were given, to Connect on every path; otherwise the returned future is completed by its
dropped promise (StopError) instead of by the source's Result.  Split(shared promise) shares the promise's own core.
"""


def check_bridges(ctx, fb, rule):
    n = 0
    for f in sorted(fb.fn.values(), key=lambda f: f.full):
        if f.cfg is None or f.qn not in ('yaclib::Share', 'yaclib::Split') or not f.params:
            continue
        key = 'R-BRIDGE %s(%s)' % (f.qn, f.locals[f.params[0]]['t'].split('<')[0].replace('const ', '').replace('yaclib::', ''))
        n += 1
        ctx.instance(rule, key + ' :: ' + f.full[:120], None)
        makes = [c for c in f.calls() if c['cn'].split('::')[-1] in ('MakeContract', 'MakeContractOn', 'MakeSharedContract',
                                                                    'MakeSharedContractOn')]
        if not makes:
            continue       # Split(SharedPromise&): another handle to the same core
        conns = [c for c in f.calls() if c['cn'] == 'yaclib::Connect']

        def uses_source(c):
            return any(f.nodes[d]['k'] == 'DeclRefExpr' and f.nodes[d].get('id') == f.params[0]
                       for a in c.get('args', [])[:1] for d in [a] + list(f.descendants(a)))
        good = [c for c in conns if len(c.get('args', [])) == 2 and uses_source(c)]
        if len(good) != 1:
            ctx.report(rule, key, f.where, '%s makes a contract but does not Connect its source to the contract\'s promise '
                       '(%d suitable Connect calls): the returned future is completed with StopError by the dropped '
                       'promise, never with the source\'s Result' % (f.qn.split('::')[-1], len(good)),
                       'instantiation: ' + f.full[:300])
            continue
        # the Connect call is on every path to the exit
        cid = good[0]['i']

        def is_conn(b, i, e):
            return isinstance(e, int) and (e == cid or cid in set(f.descendants(e)))
        if f.cfg.reaches_exit_without((f.cfg.entry, -1), is_conn) is not None:
            ctx.report(rule, key, f.loc(good[0]), 'a path of %s returns without connecting the source' % f.qn,
                       'instantiation: ' + f.full[:300])
    return n
