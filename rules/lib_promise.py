"""R-SETARGS — Promise::Set / SharedPromise::Set store exactly what they were given.

Per instantiation: the Store call gets the parameters of Set, forwarded, in order; the form without arguments stores
the (unit) value with std::in_place — not a tag of another state (StopTag), not a subset of the arguments."""


def _strip(fn, i):
    n = fn.sn(i)
    while n is not None:
        if n['k'] in ('ImplicitCastExpr', 'MaterializeTemporaryExpr', 'ExprWithCleanups', 'ParenExpr',
                      'CXXBindTemporaryExpr') and n.get('ch'):
            n = fn.sn(n['ch'][0])
        elif n['k'] == 'CallExpr' and n.get('cn') in ('std::forward', 'std::move') and n.get('args'):
            n = fn.sn(n['args'][0])
        else:
            break
    return n


def check_set_args(ctx, fb, rule, classes=('yaclib::Promise', 'yaclib::SharedPromise')):
    n = 0
    for f in sorted(fb.fn.values(), key=lambda f: f.full):
        if f.cfg is None or f.n != 'Set' or f.clsq not in classes:
            continue
        key = 'R-SETARGS %s::Set' % f.clsq.split('::')[-1]
        stores = [c for c in f.calls() if c['cn'].split('::')[-1] == 'Store']
        n += 1
        ctx.instance(rule, key + ' :: ' + f.full[:120], dict(params=len(f.params)))
        if len(stores) != 1:
            ctx.broken('R-SETARGS: %s has %d Store calls' % (f.full[:120], len(stores)))
        args = stores[0].get('args', [])
        if not f.params:
            a = fn_t = None
            if len(args) == 1:
                a = f.sn(args[0])
                fn_t = (a.get('t') or '') if a is not None else ''
            if len(args) != 1 or 'in_place_t' not in (fn_t or ''):
                ctx.report(rule, key, f.loc(stores[0]), 'Set() without arguments must store the value (std::in_place); it '
                           'stores %s' % (f.text(args[0])[:40] if args else 'nothing'), 'instantiation: ' + f.full[:300])
            continue
        got = []
        for a in args:
            m = _strip(f, a)
            got.append(m['id'] if m is not None and m['k'] == 'DeclRefExpr' and m.get('id') in f.params else None)
        if got != list(f.params):
            ctx.report(rule, key, f.loc(stores[0]), 'Set(args...) does not store exactly its arguments, forwarded in '
                       'order (Store is given %s)' % ', '.join(f.text(a)[:30] for a in args),
                       'instantiation: ' + f.full[:300])
    return n
