"""C05 — executors: every job is Called xor Dropped; steps run where they were told (structural clauses).

  R-LINEAR          every IExecutor::Submit overrider ends the job by exactly one of Call/Drop/enqueue on every path;
                    Drop only behind the stop condition Alive() reports; every dequeue site finishes each node once
  R-ROUTE.call      a Core built with CoreType::Call reaches the functor only through _executor->Submit(*this)
                    (TransferExecutorTo first); a Core without Call never submits (ThenInline never submits)
  R-ROUTE.drop      Core::Drop feeds Result{StopTag} through the same CallImpl (value callbacks are skipped, the
                    chain still completes)
  R-ROUTE.awaiter   an awaiter that names an executor assigns promise._executor before every Submit(promise)
  R-ROUTE.writers   BaseCore::_executor is written only by the routing sites (frozen table with reasons)
  R-HEAD.2          a started Task head does not move the starting step's executor away   [known finding F7]
"""
from rules import lib_exec, lib_head
from vlib import pathwalk

EXEC = 'yaclib::detail::BaseCore::_executor'

# functions that may write BaseCore::_executor (qualified name without template arguments) and why
WRITERS = {
    'yaclib::detail::BaseCore::TransferExecutorTo': 'a step without its own executor inherits the previous one',
    'yaclib::detail::SetCallback': 'Then(e, f) / Detach(e, f): the step runs on e',
    'yaclib::detail::Run': 'Run(e, f): the first step runs on e',
    'yaclib::detail::RunShared': 'RunShared(e, f)',
    'yaclib::detail::Schedule': 'Schedule(e, f): lazy first step runs on e',
    'yaclib::MakeContractOn': 'continuations of the contract inherit e',
    'yaclib::MakeSharedContractOn': 'continuations of the shared contract inherit e',
    'yaclib::detail::Start': 'ToFuture(e)/Detach(e): the head runs on e',
    'yaclib::detail::OnAwaiter::await_suspend': 'co_await On(e)',
    'yaclib::detail::AwaitOnAwaiter::await_suspend': 'co_await AwaitOn(e, f)',
    'yaclib::detail::MultiAwaitOnAwaiter::await_suspend': 'co_await AwaitOn(e, fs...)',
    'yaclib::detail::PromiseType::Impl': 'a coroutine Task started by co_await takes the awaiting coroutine\'s executor '
                                         '(the awaiter takes it back); see R-HEAD.2 for the pipeline-step starter',
    'yaclib::detail::MutexImpl::AwaitUnlock': 'Mutex::Unlock: executors of the two coroutines are swapped',
    'yaclib::detail::MutexImpl::AwaitUnlockOn': 'Mutex::UnlockOn(e)',
    'yaclib::OneShotEvent::OnAwaiter::await_suspend': 'co_await event.AwaitOn(e)',
    'yaclib::detail::AwaitAwaiter::await_suspend': 'AwaitSticky: the helper core keeps the coroutine\'s executor',
    'yaclib::detail::AwaitAwaiter::Impl': 'AwaitSticky resume',
    'yaclib::detail::AwaitEvent::Impl': 'AwaitSticky resume (multi)',
}


def executor_writes(fn):
    """nodes that write a BaseCore::_executor: assignment / Reset / Swap / std::exchange / std::move-from"""
    out = []
    for n in fn.own_nodes():
        k = n['k']
        tgt = None
        if k == 'CXXOperatorCallExpr' and n.get('op') == '=' and n.get('args'):
            tgt = n['args'][0]
        elif k == 'CXXMemberCallExpr' and n['cn'] in ('yaclib::IntrusivePtr::Reset', 'yaclib::IntrusivePtr::Swap',
                                                       'yaclib::IntrusivePtr::Release'):
            tgt = n['obj']
        elif k == 'CallExpr' and n.get('cn') in ('std::exchange', 'std::swap', 'std::move') and n.get('args'):
            tgt = n['args'][0]
        elif k == 'BinaryOperator' and n['op'] == '=':
            tgt = n['ch'][0]
        if tgt is None:
            continue
        t = fn.sn(tgt)
        if t is not None and t['k'] == 'MemberExpr' and t['dn'] == EXEC:
            # a write to this->_executor of a freshly made object also counts (factories)
            out.append(n)
        if k == 'CXXMemberCallExpr' and n['cn'] == 'yaclib::IntrusivePtr::Swap' and n.get('args'):
            a = fn.sn(n['args'][0])
            if a is not None and a['k'] == 'MemberExpr' and a['dn'] == EXEC and n not in out:
                out.append(n)
    return out


class RouteWalker(pathwalk.Walker):
    """Core::Impl / awaiters: events 'submit', 'invoke' (CallImpl), 'transfer', 'execwrite'"""
    loop_bound = 1

    def __init__(self, fb, inline_ns=('yaclib::detail::',)):
        super().__init__(fb)
        self.inline_ns = inline_ns

    def inline(self, fn, n, st):
        g = self.fb.fn.get(n.get('ck'))
        if g is None or g.cfg is None or st.depth >= 3 or 'virtual' in g.flags:
            return None
        if g.n in ('Impl', 'AwaitUnlockOn', 'AwaitUnlock') and any(g.qn.startswith(x) for x in self.inline_ns):
            return g
        if 'lambda' in g.flags and g.parent == fn.key:
            return g
        return None

    def member_value(self, fn, n, st):
        if n['dn'] == 'yaclib::detail::Callback::unwrapping':
            return ('c', 0)
        return None

    def on_inline(self, fn, n, g, st):
        if g.qn.endswith('::Core::CallImpl'):
            st.events.append(('invoke', fn.loc(n)))

    def on_node(self, fn, n, st):
        k = n['k']
        loc = fn.loc(n)
        if k in ('CXXMemberCallExpr', 'CallExpr', 'CXXOperatorCallExpr'):
            cn = n.get('cn', '')
            if cn == 'yaclib::IExecutor::Submit':
                st.events.append(('submit', loc))
            elif cn == 'yaclib::detail::Core::CallImpl':
                st.events.append(('invoke', loc))
            elif cn == 'yaclib::detail::BaseCore::TransferExecutorTo':
                st.events.append(('transfer', loc))
        tgt = None
        if k == 'CXXOperatorCallExpr' and n.get('op') == '=' and n.get('args'):
            tgt = n['args'][0]
        elif k == 'CallExpr' and n.get('cn') in ('std::exchange',) and n.get('args'):
            tgt = n['args'][0]
        elif k == 'CXXMemberCallExpr' and n['cn'] in ('yaclib::IntrusivePtr::Reset', 'yaclib::IntrusivePtr::Swap'):
            tgt = n['obj']
        if tgt is not None:
            t = fn.sn(tgt)
            if t is not None and t['k'] == 'MemberExpr' and t['dn'] == EXEC:
                st.events.append(('execwrite', loc))


def check_core_routing(ctx, fb, rr):
    impls = [f for f in fb.fn.values() if f.qn == 'yaclib::detail::Core::Impl' and f.cfg is not None]
    if len(impls) < 50:
        ctx.broken('too few Core::Impl instantiations (%d)' % len(impls))
    for f in impls:
        bits = int(f.cta[4])
        if bits & 1:
            continue  # Run heads are covered by R-HEAD
        is_call = bool(bits & 64)
        key = 'R-ROUTE.call Core<%s>::Impl' % ('Call' if is_call else 'Inline')
        res = RouteWalker(fb).run(f)
        ctx.instance(rr, key + ' :: ' + f.cls[:140], dict(core=f.cls[:200], call=is_call, paths=len(res)))
        for st, _ in res:
            ev = st.events
            subs = [e for e in ev if e[0] == 'submit']
            inv = [e for e in ev if e[0] == 'invoke']
            tr = [e for e in ev if e[0] == 'transfer']
            msg = None
            if is_call:
                if inv:
                    msg = 'a step attached with Then(e, f)/Then(f) invokes its functor inline instead of submitting ' \
                          'itself to its executor'
                elif len(subs) != 1:
                    msg = 'a Call step submits itself %d times on a path' % len(subs)
                elif not tr or ev.index(tr[0]) > ev.index(subs[0]):
                    msg = 'the step is submitted before the inherited executor was transferred to it'
            else:
                if subs:
                    msg = 'a step attached with ThenInline/DetachInline submits a job'
                elif len(inv) != 1:
                    msg = 'an inline step reaches its functor %d times on a path' % len(inv)
            if msg:
                ctx.report(rr, key, f.where, msg, 'instantiation: ' + f.full[:300])
                break


def check_core_drop(ctx, fb, rd):
    drops = [f for f in fb.fn.values() if f.qn == 'yaclib::detail::Core::Drop' and f.cfg is not None]
    if len(drops) < 50:
        ctx.broken('too few Core::Drop instantiations (%d)' % len(drops))
    for f in drops:
        key = 'R-ROUTE.drop Core::Drop'
        ctx.instance(rd, key + ' :: ' + f.cls[:140], None)
        calls = [n for n in f.own_nodes() if n.get('cn') == 'yaclib::detail::Core::CallImpl']
        ok = len(calls) == 1
        if ok:
            arg = calls[0]['args'][0] if calls[0].get('args') else None
            ok = arg is not None and any('yaclib::StopTag' in f.nodes[d].get('t', '') for d in f.descendants(arg))
        if not ok:
            ctx.report(rd, key, f.where, 'a dropped step must run CallImpl on Result{StopTag} (value callbacks skipped, '
                       'recovery callbacks see StopError, the chain completes)', 'instantiation: ' + f.full[:300])


def check_drop_stop(ctx, fb, rd):
    """every other result-bearing job (PromiseCore, coroutine PromiseType, ReadyCore = MakeTask head) stores StopTag on
    EVERY path of its Drop(): a dropped job delivers StopError downstream whatever it held before"""
    n = 0
    for f in sorted(fb.fn.values(), key=lambda f: f.full):
        if f.n != 'Drop' or 'virtual' not in f.flags or f.cfg is None or f.clsq == 'yaclib::detail::Core':
            continue
        if 'yaclib::detail::BaseCore' not in fb.all_bases(f.cls):
            continue  # Strand, UniqueJob, Job: no result to deliver
        n += 1
        key = 'R-ROUTE.drop %s::Drop' % f.clsq.split('::')[-1]
        ctx.instance(rd, key + ' :: ' + f.cls[:140], None)

        def stores_stop_everywhere(g, depth=0):
            """g stores StopTag on every path (a helper of the class or of a base class that does it counts)"""
            def hit(b, i, e):
                if not isinstance(e, int):
                    return False
                m = g.nodes[e]
                last = m.get('cn', '').split('::')[-1]
                if last in ('Store', 'CallImpl', 'Done') and any(
                        'yaclib::StopTag' in g.nodes[d].get('t', '') for a in m.get('args', [])
                        for d in g.descendants(a)):
                    return True
                if depth < 2 and m['k'] == 'CXXMemberCallExpr':
                    h = fb.fn.get(m.get('ck'))
                    if h is not None and h.cfg is not None and 'virtual' not in h.flags and (
                            h.cls == g.cls or h.cls in fb.all_bases(g.cls) or h.clsq in (
                                'yaclib::detail::UniqueCore', 'yaclib::detail::SharedCore',
                                'yaclib::detail::ResultCore', 'yaclib::detail::BaseCore')):
                        return stores_stop_everywhere(h, depth + 1)
                return False
            return g.cfg.reaches_exit_without((g.cfg.entry, -1), hit) is None

        def is_stop(b, i, e):
            if not isinstance(e, int):
                return False
            m = f.nodes[e]
            if m['k'] == 'CXXMemberCallExpr' and m.get('cn', '').split('::')[-1] not in ('Store', 'CallImpl', 'Done'):
                h = fb.fn.get(m.get('ck'))
                if h is not None and h.cfg is not None and 'virtual' not in h.flags and h.qn != f.qn and (
                        h.cls == f.cls or h.cls in fb.all_bases(f.cls)):
                    return stores_stop_everywhere(h, 1)
                return False
            if m.get('cn', '').split('::')[-1] not in ('Store', 'CallImpl', 'Done'):
                return False
            return any('yaclib::StopTag' in f.nodes[d].get('t', '') for a in m.get('args', [])
                       for d in f.descendants(a))

        w = f.cfg.reaches_exit_without((f.cfg.entry, -1), is_stop)
        if w is not None:
            ctx.report(rd, key, f.where, 'a path through Drop() does not store StopTag: a dropped job must deliver '
                       'StopError downstream whatever it held (value callbacks are skipped, the chain is cancelled)',
                       'instantiation: %s\npath: %s' % (f.full[:300], f.cfg.describe_path(w)))
    return n


def check_resume_executor(ctx, fb, rule):
    """every PromiseType<V, E, Lazy, Shared>::Impl — run by Here/Next whenever the coroutine is started or resumed
    inline — takes the executor of the core that resumes it, on every path and for every coroutine kind: a Task
    coroutine started by co_await SWAPS executors with the awaiting coroutine (IntrusivePtr move assignment is a
    swap), so the awaiting coroutine gets its own executor back only through the same statement when the Task
    finishes"""
    n = 0
    for f in sorted(fb.fn.values(), key=lambda f: f.full):
        if f.clsq != 'yaclib::detail::PromiseType' or f.n != 'Impl' or f.cfg is None:
            continue
        n += 1
        key = 'R-RESUME.executor PromiseType::Impl'
        ctx.instance(rule, key + ' :: ' + f.cls[:120], None)
        ws = {x['i'] for x in executor_writes(f)}
        w = f.cfg.reaches_exit_without((f.cfg.entry, -1), lambda b, i, e: isinstance(e, int) and e in ws) if ws else [1]
        if w is not None:
            ctx.report(rule, key, f.where, 'a coroutine that is resumed inline does not take the executor of the core that '
                       'resumes it (in this instantiation / on some path): after co_await of a Task coroutine, which '
                       'swapped executors with it, it stays on the Task\'s initial inline executor — CurrentExecutor, '
                       'Yield, AwaitSticky and a stopped executor then act on the wrong executor',
                       'instantiation: ' + f.full[:300])
    return n


def check_awaiters(ctx, fb, ra):
    cands = []
    for r in fb.records.values():
        if not r.qn.startswith('yaclib::'):
            continue
        if any(fl['t'] == 'yaclib::IExecutor &' for fl in r.fields):
            cands.append(r.name)
    n = 0
    for f in fb.fn.values():
        if f.n != 'await_suspend' or f.cls not in cands or f.cfg is None:
            continue
        key = 'R-ROUTE.awaiter %s' % f.qn
        res = RouteWalker(fb, inline_ns=('yaclib::',)).run(f)
        n += 1
        ctx.instance(ra, key + ' :: ' + f.cls[:120], dict(awaiter=f.full[:200], paths=len(res)))
        for st, _ in res:
            ev = st.events
            subs = [i for i, e in enumerate(ev) if e[0] == 'submit']
            if subs and not any(e[0] == 'execwrite' for e in ev[:subs[0]]):
                ctx.report(ra, key, ev[subs[0]][1], 'the coroutine is submitted before its _executor was set to the '
                           'executor the awaiter names: it resumes with the wrong current executor',
                           'awaiter: ' + f.full[:300])
                break
    return n


def check_writers(ctx, fb, rw):
    seen = {}
    for f in fb.fn.values():
        if not f.file.startswith(ctx.root + '/include') and not f.file.startswith(ctx.root + '/src'):
            continue
        ws = executor_writes(f)
        if ws:
            seen.setdefault(f.qn, (f, ws[0]))
    # a private member may be renamed: per class, as many writer functions as the table lists are accepted whatever
    # they are called; one more than that is a new writer
    def cls_of(qn):
        return qn.rsplit('::', 1)[0]
    table_by_cls = {}
    for qn in WRITERS:
        table_by_cls.setdefault(cls_of(qn), set()).add(qn)
    seen_by_cls = {}
    for qn, (f, n) in seen.items():
        if f.cls and 'ctor' not in f.flags:
            seen_by_cls.setdefault(cls_of(qn), set()).add(qn)
    for qn, (f, n) in sorted(seen.items()):
        key = 'R-ROUTE.writers ' + qn
        ok = qn in WRITERS or 'ctor' in f.flags
        reason = WRITERS.get(qn)
        if not ok and f.cls:
            c = cls_of(qn)
            unknown = seen_by_cls.get(c, set()) - table_by_cls.get(c, set())
            missing = table_by_cls.get(c, set()) - seen_by_cls.get(c, set())
            if unknown and len(unknown) <= len(missing):
                ok = True
                reason = 'renamed member of a routing class (%s no longer writes it)' % ', '.join(
                    sorted(x.split('::')[-1] for x in missing))
        if not ok and 'virtual' not in f.flags:
            # a helper that only the routing sites themselves use (the write was moved out of them, not added)
            callers = set()
            for g in fb.fn.values():
                if g.cfg is None or g.qn == qn:
                    continue
                if any(c.get('cn') == qn for c in g.calls()):
                    callers.add(g.qn)
            if callers and all(c in WRITERS for c in callers):
                ok = True
                reason = 'helper used only by routing sites (%s)' % ', '.join(sorted(c.split('::')[-1] for c in callers))
        ctx.instance(rw, key, dict(writer=qn, where=f.loc(n), reason=reason or '(not in table)'))
        if not ok:
            ctx.report(rw, key, f.loc(n), 'BaseCore::_executor is written by a function that is not one of the routing '
                       'sites: the executor a step was told to run on can be replaced',
                       'writer: ' + f.full[:300])


def check_bind(ctx, fb, rule):
    """R-ROUTE.bind: where a step's executor comes from.
       detail::SetCallback (the step factory) stores its `executor` argument into the new core on every path, before
         the core is attached;
       BaseCore::TransferExecutorTo(callback) hands the predecessor's executor on exactly when the callback has none
         of its own (Then(e, f) keeps e; Then(f) on a FutureOn inherits)."""
    n = 0
    for f in fb.fn.values():
        if f.cfg is None:
            continue
        if f.qn == 'yaclib::detail::SetCallback' and '/algo/detail/core.hpp' in f.file:
            key = 'R-ROUTE.bind detail::SetCallback'
            ctx.instance(rule, key + ' :: ' + f.full[:110], None)
            n += 1
            ws = []
            for w in executor_writes(f):
                src = f.sn((w.get('args') or w.get('ch'))[1]) if len(w.get('args') or w.get('ch') or []) > 1 else None
                while src is not None and src['k'] in ('CXXConstructExpr', 'MaterializeTemporaryExpr',
                                                       'CXXBindTemporaryExpr') and (src.get('args') or src.get('ch')):
                    src = f.sn((src.get('args') or src.get('ch'))[0])
                if src is not None and src['k'] == 'DeclRefExpr' and src.get('id') in f.params and \
                        'IExecutor' in f.locals[src['id']]['t']:
                    ws.append(w)
            ok = False
            if ws:
                ids = {w['i'] for w in ws}

                def is_bind(b, i, e):
                    return isinstance(e, int) and (e in ids or any(d in ids for d in f.descendants(e)))
                ok = f.cfg.reaches_exit_without((f.cfg.entry, -1), is_bind) is None
            if not ok:
                ctx.report(rule, key, f.where, 'the step factory does not store its executor argument into the new core '
                           'on every path: Then(e, f) / Detach(e, f) do not run on e', 'instantiation: ' + f.full[:300])
        elif f.qn == 'yaclib::detail::BaseCore::TransferExecutorTo':
            key = 'R-ROUTE.bind BaseCore::TransferExecutorTo'
            ctx.instance(rule, key + ' :: ' + f.full[:110], None)
            n += 1
            cb = f.params[0]
            ws = executor_writes(f)
            # structural: every write is dominated by a branch on callback._executor, taken on its false (null) edge
            cfg = f.cfg
            guarded = bool(ws)
            for w in ws:
                pw = cfg.pos_of(w['i'])
                g = False
                for b, blk in cfg.blocks.items():
                    if blk.cond is None or len(blk.succ) != 2:
                        continue
                    c = f.sn(blk.cond)
                    neg = False
                    while c is not None and c['k'] == 'UnaryOperator' and c['op'] == '!':
                        neg = not neg
                        c = f.sn(c['ch'][0])
                    txt = f.text(blk.cond)
                    if '_executor' not in txt or f.locals[cb]['n'] not in txt:
                        continue
                    # successor taken when the callback has NO executor
                    null_succ = blk.succ[0] if neg else blk.succ[1]
                    other = blk.succ[1] if neg else blk.succ[0]
                    if null_succ is not None and pw and cfg.dominates((null_succ, -1), pw) and \
                            not (other is not None and cfg.dominates((other, -1), pw)):
                        g = True
                guarded = guarded and g
                src_txt = f.text((w.get('args') or w.get('ch'))[1]) if len(w.get('args') or w.get('ch') or []) > 1 else ''
                if '_executor' not in src_txt:
                    guarded = False
            if not ws:
                ctx.report(rule, key, f.where, 'a step without an executor of its own does not inherit its '
                           'predecessor\'s: Then(f) on a FutureOn does not run on the inherited executor',
                           'instantiation: ' + f.full[:300])
            elif not guarded:
                ctx.report(rule, key, f.loc(ws[0]), 'the predecessor\'s executor is handed on without testing that the '
                           'callback has none of its own: Then(e, f) runs on the inherited executor instead of e',
                           'instantiation: ' + f.full[:300])
    return n


def run(ctx):
    fbs = ctx.facts(['K17', 'K20'], kinds=('probe', 'lib'), tests=r'/test/',
                    quick_tests=r'unit/exe/|unit/async/future\.cpp')
    rl = ctx.rule('R-LINEAR', 'Submit ends the job by exactly one of Call/Drop/enqueue on every path; dequeue sites '
                  'finish every node once', minimum=10)
    rr = ctx.rule('R-ROUTE.call', 'Call steps reach their functor only through Submit; inline steps never submit',
                  minimum=100)
    rd = ctx.rule('R-ROUTE.drop', 'Core::Drop runs CallImpl on Result{StopTag}', minimum=100)
    ra = ctx.rule('R-ROUTE.awaiter', 'executor-naming awaiters set promise._executor before Submit', minimum=3)
    rw = ctx.rule('R-ROUTE.writers', 'BaseCore::_executor is written only by the routing sites', minimum=10)
    rh2 = ctx.rule('R-HEAD.2', 'a started Task head does not move the starting step\'s executor away', minimum=6)
    rh = ctx.rule('R-HEAD', '(shared with C02/C12) heads reach their own work', minimum=6)
    rre = ctx.rule('R-RESUME.executor', 'a coroutine resumed inline takes the resuming core\'s executor (every kind, every '
                   'path)', minimum=2)
    rst = ctx.rule('R-START', '(shared with C12) ToFuture(e)/Detach(e): the executor is bound to the head returned by '
                   'the rewind and that head is submitted to it', minimum=2)
    rbd = ctx.rule('R-ROUTE.bind', 'the step factory stores its executor argument into the new core; the predecessor\'s '
                   'executor is inherited exactly when the step has none of its own', minimum=8)
    rpk = ctx.rule('R-LOCKSET', '(shared with C08) FairThreadPool: the acceptance test and the enqueue happen under one '
                   'lock hold; jobs are Called / Dropped with the lock released', minimum=6)
    rpd = ctx.rule('R-DRAIN', '(shared with C08) a worker returns only after seeing the queue empty; the stopped bit is '
                   'set only behind the drain test', minimum=2)
    rwk = ctx.rule('R-WAKE', '(shared with C08) an accepted job is followed by a notification; stop notifies every '
                   'worker; a worker sleeps only after re-testing queue and stop under the lock', minimum=3)
    rff = ctx.rule('R-FIFO', '(shared with C08) pool queue discipline', minimum=1)
    rja = ctx.rule('R-JOINALL', '(shared with C08) Wait() joins every worker', minimum=1)
    rls = ctx.rule('R-LISTSPEC', '(shared with C08) detail::List, the queue of FairThreadPool and ManualExecutor, '
                   'implements the sequence it stands for: no job is lost or duplicated by the container', minimum=24)
    rjf = ctx.rule('R-JOBFIELDS', '(shared with C07) every member of Strand that can hold jobs and is used by Call() is '
                   'drained by Drop() too', minimum=1)
    raf = ctx.rule('R-ATTACHFORM', 'every public attach form hands the step factory what its name and signature promise: '
                   '(e, f) forms pass &e and submit, (f) forms pass nullptr and submit to the inherited executor, '
                   '*Inline forms never submit; Then / Detach / Lazy bits and the On flavour follow the form', minimum=17)
    rob = ctx.rule('R-STRAND.one-batch', '(shared with C07) Strand::Call detaches one batch per invocation: jobs that '
                   'arrive later go through a new submission to the underlying executor, where a stop is noticed and '
                   'they are Dropped', minimum=1)
    rrf = ctx.rule('R-RUNFORM', 'Run(e, f) / RunShared(e, f) submit their first step to the executor argument itself, once, '
                   'on every path', minimum=4)
    from rules import lib_list, lib_attach
    for cfg, fb in sorted(fbs.items()):
        ctx.guard(lambda: lib_attach.check_attach_forms(ctx, fb, raf, None, 17))
        from rules import lib_runform
        if (ctx.guard(lambda: lib_runform.check_run_forms(ctx, fb, rrf)) or 0) < 2:
            ctx.guard(lambda: ctx.broken('R-RUNFORM: detail::Run / RunShared not instantiated in %s' % cfg))
        from rules import c07
        if (ctx.guard(lambda: c07.check_one_batch(ctx, fb, rob)) or 0) < 1:
            ctx.guard(lambda: ctx.broken('R-STRAND.one-batch: Strand::Call not found'))
        ctx.guard(lambda: lib_exec.check_pool_lockset(ctx, fb, rpk, rpd))
        ctx.guard(lambda: lib_exec.check_pool_wake(ctx, fb, rwk, rff, rja))
        ctx.guard(lambda: lib_list.check_list_spec(ctx, fb, rls))
        ctx.guard(lambda: lib_exec.check_job_fields(ctx, fb, rjf, 'yaclib::Strand'))
        n = lib_exec.check_submit_linear(ctx, fb, rl)
        if n < 5:
            ctx.broken('only %d Submit overriders found in %s (Inline<false>, Inline<true>, Manual, Strand, '
                       'FairThreadPool expected)' % (n, cfg))
        deq = [f for f in fb.fn.values() if f.cfg is not None and f.qn in (
            'yaclib::ManualExecutor::Drain', 'yaclib::Strand::Call', 'yaclib::Strand::Drop',
            'yaclib::FairThreadPool::Loop', 'yaclib::FairThreadPool::HardStop')]
        if len(deq) != 5:
            ctx.broken('dequeue sites missing in %s: %s' % (cfg, sorted(f.qn for f in deq)))
        ctx.guard(lambda: lib_exec.check_dequeue(ctx, fb, rl, deq))
        ctx.guard(lambda: check_core_routing(ctx, fb, rr))
        ctx.guard(lambda: check_core_drop(ctx, fb, rd))
        if check_drop_stop(ctx, fb, rd) < (3 if cfg != 'K17' else 2):
            ctx.broken('Drop() of PromiseCore / PromiseType / ReadyCore not found in %s' % cfg)
        if cfg != 'K17':
            if check_awaiters(ctx, fb, ra) < 3:
                ctx.broken('executor-naming awaiters not found')
        ctx.guard(lambda: check_writers(ctx, fb, rw))
        if (ctx.guard(lambda: check_bind(ctx, fb, rbd)) or 0) < 4:
            ctx.guard(lambda: ctx.broken('R-ROUTE.bind: SetCallback / TransferExecutorTo not instantiated in %s' % cfg))
        if cfg != 'K17':
            if check_resume_executor(ctx, fb, rre) < 2:
                ctx.broken('PromiseType::Impl not instantiated in %s' % cfg)
        from rules import c12
        ctx.guard(lambda: c12.check_start(ctx, fb, rst))
        ctx.guard(lambda: lib_head.check(ctx, fb, cfg, rh, rh2))
