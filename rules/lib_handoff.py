"""R-HANDOFF (second half) — registering helpers of the When* combinators without a loop.

SetCore(core, i) registers the combinator's callback on one input.  When the registration succeeded
(`core.SetCallback(...)` returned true) that input may complete at once on another thread, and if it was the last one
the combinator is deleted: nothing after the successful registration may touch the object.  On the failing edge the
thread still owns that input's reference and goes on (Consume, DecRef).  A function that calls such helpers in
sequence (Set / SetImpl with a fold expression) must not touch the object after the last call either.
"""
from vlib import pathwalk


class _RegWalker(pathwalk.Walker):
    loop_bound = 1

    def on_edge(self, fn, ci, taken, st):
        c = fn.sn(ci)
        neg = False
        while c is not None and c['k'] == 'UnaryOperator' and c['op'] == '!':
            neg = not neg
            c = fn.sn(c['ch'][0])
        if c is None:
            return
        names = [fn.nodes[j].get('cn', '').split('::')[-1] for j in [c['i']] + list(fn.deep_descendants(c['i']))]
        if 'SetCallback' in names:
            st.events.append(('registered', taken != neg, fn.loc(c)))

    def on_node(self, fn, n, st):
        if n['k'] == 'CXXThisExpr':
            st.events.append(('this', fn.loc(n)))


def check_handoff_helpers(ctx, fb, rule):
    n = 0
    helpers = set()
    for f in sorted(fb.fn.values(), key=lambda f: f.full):
        if f.cfg is None or not f.clsq.startswith('yaclib::when::') or f.n in ('Here', 'Next', 'Impl'):
            continue
        if any(x['k'] in ('ForStmt', 'WhileStmt', 'DoStmt') for x in f.own_nodes()):
            continue          # registration loops: lib_when.check_handoff_loops
        if not any(c['cn'].split('::')[-1] == 'SetCallback' for c in f.calls()):
            continue
        helpers.add(f.qn)
        key = 'R-HANDOFF %s::%s' % (f.clsq, f.n)
        res = _RegWalker(fb).run(f)
        n += 1
        ctx.instance(rule, key + ' :: ' + f.full[:120], dict(paths=len(res)))
        for st, _ in res:
            ev = st.events
            regs = [i for i, e in enumerate(ev) if e[0] == 'registered']
            if not regs:
                ctx.broken('R-HANDOFF: the outcome of SetCallback is not branched on in %s' % f.full[:120])
            i = regs[-1]
            if ev[i][1]:
                later = [e for e in ev[i + 1:] if e[0] == 'this']
                if later:
                    ctx.report(rule, key, later[0][1], 'the combinator is touched after its callback was registered on '
                               'this input: if the input completes at once on another thread and was the last one, the '
                               'combinator is already deleted', 'instantiation: ' + f.full[:300])
                    break
    # callers that run the helpers in sequence: nothing after the last call
    for f in sorted(fb.fn.values(), key=lambda f: f.full):
        if f.cfg is None or not f.clsq.startswith('yaclib::when::') or f.qn in helpers:
            continue
        calls = [c for c in f.calls() if c['cn'] in helpers]
        if not calls or any(x['k'] in ('ForStmt', 'WhileStmt', 'DoStmt') for x in f.own_nodes()):
            continue
        key = 'R-HANDOFF %s::%s (sequence)' % (f.clsq, f.n)
        n += 1
        ctx.instance(rule, key + ' :: ' + f.full[:120], dict(helper_calls=len(calls)))
        last = max(c['i'] for c in calls)
        # the call's own object expression (this->SetCore) precedes it; anything numbered after the last call node and
        # not an ancestor of it runs after it
        later = [x for x in f.own_nodes() if x['k'] == 'CXXThisExpr' and x['i'] > last]
        if later:
            ctx.report(rule, key, f.loc(later[0]), 'the combinator is touched after the last input was registered',
                       'instantiation: ' + f.full[:300])
    return n
