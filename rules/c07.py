"""C07 — Strand: one job at a time, in submission order, none lost (structural clauses).

  R-WORD/R-ORDER/R-CASKIND  protocol and orders of Strand::_jobs (idle marker / null / list)
  R-LINEAR                  Submit publishes the job exactly once (successful CAS), list walks finish every node
                            exactly once and read `next` before Call/Drop
  R-STRAND.schedule         the strand submits itself to the underlying executor iff the replaced value was the
                            idle marker, and takes a self reference before doing so
  R-STRAND.batch-end        a batch ends with exactly one of {go idle by a successful strong CAS -> DecRef,
                            resubmit itself}; Drop drains with the marker and releases the self reference once
  R-EFFECT.noblock          Submit/Call/Drop contain no blocking call (the strand never blocks a worker)
"""
from rules import lib_exec, lib_order, lib_shape

S = 'yaclib::Strand'


def run(ctx):
    fbs = ctx.facts(['K17', 'KF'], kinds=('lib',), only=r'src/exe/strand\.cpp$')
    rw = ctx.rule('R-WORD', 'every operation on Strand::_jobs is a role of its protocol', minimum=6)
    ro = ctx.rule('R-ORDER', 'role minimum memory orders of Strand::_jobs', minimum=6)
    rc = ctx.rule('R-CASKIND', 'weak CAS only in a retry loop; go-idle CAS is strong', minimum=1)
    rl = ctx.rule('R-LINEAR', 'job published once; every node of a batch finished once, next read first', minimum=3)
    rs = ctx.rule('R-STRAND.schedule', 'self-submission iff the idle marker was replaced; IncRef before it', minimum=1)
    rb = ctx.rule('R-STRAND.batch-end', 'a batch ends by exactly one of go-idle(DecRef) / resubmit', minimum=2)
    rn = ctx.rule('R-EFFECT.noblock', 'no blocking call in Submit/Call/Drop', minimum=3)
    rsh = ctx.rule('R-SHAPE', 'Call / Drop finish every job of the detached batch exactly once and lose none (shape '
                   'analysis over list segments, all batch sizes)', minimum=2)
    rjf = ctx.rule('R-JOBFIELDS', 'every member of Strand that can hold jobs and is used by Call() is drained by Drop() '
                   'too (sibling agreement of the two ways the underlying executor finishes the strand)', minimum=1)
    rcf = ctx.rule('R-CASFRESH', 'every retry of a compare-exchange re-tests the refreshed expected value against the '
                   'sentinels the first attempt tested', minimum=0)
    for cfg, fb in sorted(fbs.items()):
        ctx.guard(lambda: lib_order.check_cas_fresh(ctx, fb, rcf, lambda f: f.clsq == S))
        ctx.guard(lambda: lib_shape.check(ctx, fb, rsh, lambda qn: 'Strand' in qn, 2))
        if cfg == 'K17':
            ctx.guard(lambda: lib_order.check(ctx, fb, cfg, [S + '::_jobs'], rw, ro, rc))
        fns = {f.n: f for f in fb.fn.values() if f.clsq == S and f.cfg is not None}
        for need in ('Submit', 'Call', 'Drop'):
            if need not in fns:
                ctx.broken('Strand::%s not found' % need)
        ctx.guard(lambda: lib_exec.check_job_fields(ctx, fb, rjf, S))
        ctx.guard(lambda: lib_exec.check_submit_linear(ctx, fb, rl, lambda f: f.clsq == S))
        ctx.guard(lambda: lib_exec.check_dequeue(ctx, fb, rl, [fns['Call'], fns['Drop']]))
        # ---- schedule
        f = fns['Submit']
        w = lib_exec.ExecWalker(fb, S)
        key = 'R-STRAND.schedule Strand::Submit'
        res = w.run(f)
        ctx.instance(rs, key, dict(function=f.full, paths=len(res)))
        for st, _ in res:
            ev = st.events
            marks = [e for e in ev if e[0] == 'branch' and any(c == S + '::Mark' for c in e[1])]
            subs = [e for e in ev if e[0] == 'submit']
            if not marks:
                ctx.broken('Strand::Submit: no comparison with the idle marker found')
            was_idle = marks[-1][2]
            if bool(subs) != bool(was_idle):
                ctx.report(rs, key, f.where, 'the strand %s although the replaced value %s the idle marker' % (
                    'schedules itself' if subs else 'does not schedule itself', 'was not' if subs else 'was'),
                    'a batch is then started twice (two jobs of one strand run concurrently) or never (jobs lost)')
                break
            if subs:
                i = ev.index(subs[0])
                if not any(e[0] == 'IncRef' for e in ev[:i]):
                    ctx.report(rs, key, subs[0][2], 'the strand hands itself to the executor without taking a self '
                               'reference first (it may be destroyed while scheduled)')
                    break
                if len(subs) != 1:
                    ctx.report(rs, key, subs[1][2], 'the strand schedules itself twice for one transition')
                    break
        # ---- batch end
        f = fns['Call']
        w = lib_exec.ExecWalker(fb, S)
        w.loop_bound = 1
        key = 'R-STRAND.batch-end Strand::Call'
        res = w.run(f)
        ctx.instance(rb, key, dict(function=f.full, paths=len(res)))
        for st, _ in res:
            ev = st.events
            cas = [e for e in ev if e[0] == 'branch' and any(c.endswith('compare_exchange_strong') or
                                                             c.endswith('compare_exchange_weak') for c in e[1])]
            dec = [e for e in ev if e[0] == 'DecRef']
            subs = [e for e in ev if e[0] == 'submit']
            idle = bool(cas) and cas[-1][2] is True
            if len(dec) + len(subs) != 1:
                ctx.report(rb, key, f.where, 'a batch ends with %d DecRef and %d self-submissions (expected exactly '
                           'one of the two)' % (len(dec), len(subs)))
                break
            if idle != bool(dec):
                ctx.report(rb, key, f.where, 'the self reference is released although the strand did not go idle by '
                           'a successful CAS (or kept although it did)' if dec else
                           'the strand went idle but resubmits itself / keeps its self reference')
                break
        f = fns['Drop']
        key = 'R-STRAND.batch-end Strand::Drop'
        res = lib_exec.ExecWalker(fb, S).run(f)
        ctx.instance(rb, key, dict(function=f.full, paths=len(res)))
        for st, _ in res:
            dec = [e for e in st.events if e[0] == 'DecRef']
            subs = [e for e in st.events if e[0] == 'submit']
            if len(dec) != 1 or subs:
                ctx.report(rb, key, f.where, 'Drop must release the self reference exactly once and never resubmit '
                           '(saw %d DecRef, %d submissions)' % (len(dec), len(subs)))
                break
        # ---- no blocking
        for name in ('Submit', 'Call', 'Drop'):
            f = fns[name]
            key = 'R-EFFECT.noblock Strand::%s' % name
            res = lib_exec.ExecWalker(fb, S).run(f)
            ctx.instance(rn, key, dict(function=f.full))
            blk = [e for st, _ in res for e in st.events if e[0] == 'block']
            if blk:
                ctx.report(rn, key, blk[0][2], 'Strand::%s may block (%s): a strand must never block a thread of the '
                           'underlying executor' % (name, blk[0][1]))
