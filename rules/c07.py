"""C07 — Strand: one job at a time, in submission order, none lost (structural clauses).

  R-WORD/R-ORDER/R-CASKIND  protocol and orders of Strand::_jobs (idle marker / null / list)
  R-LINEAR                  Submit publishes the job exactly once (successful CAS), list walks finish every node
                            exactly once and read `next` before Call/Drop
  R-STRAND.schedule         the strand submits itself to the underlying executor iff the replaced value was the
                            idle marker, and takes a self reference before doing so
  R-STRAND.batch-end        a batch ends with exactly one of {go idle by a successful strong CAS -> DecRef,
                            resubmit itself}; Drop drains with the marker and releases the self reference once
  R-EFFECT.noblock          Submit/Call/Drop contain no blocking call (the strand never blocks a worker)
"""
from rules import lib_exec, lib_order, lib_shape

S = 'yaclib::Strand'


class _LinkWalker(lib_exec.ExecWalker):
    """ExecWalker + ('link', 'null'|'expected'|'other', loc) for assignments to <job>.next and
    ('is-marker', truth) for comparisons of the observed head with Mark()"""

    def on_edge(self, fn, ci, taken, st):
        super().on_edge(fn, ci, taken, st)
        c = fn.sn(ci)
        neg = False
        while c is not None and c['k'] == 'UnaryOperator' and c['op'] == '!':
            neg = not neg
            c = fn.sn(c['ch'][0])
        if c is not None and c['k'] == 'BinaryOperator' and c['op'] in ('==', '!='):
            names = [fn.nodes[j].get('cn', '') for j in fn.deep_descendants(c['i'])]
            if any(x.endswith('::Mark') for x in names):
                st.events.append(('is-marker', (taken != neg) == (c['op'] == '==')))
                st.data = dict(st.data)
                st.data[('cond-truth', c['i'])] = taken != neg

    def on_node(self, fn, n, st):
        super().on_node(fn, n, st)
        if n['k'] == 'BinaryOperator' and n['op'] == '=':
            l = fn.sn(n['ch'][0])
            if l is not None and l['k'] == 'MemberExpr' and l.get('mn') == 'next':
                r = fn.sn(n['ch'][1])
                if r is not None and r['k'] == 'ConditionalOperator':
                    c = fn.sn(r['ch'][0])
                    t = st.data.get(('cond-truth', c['i'])) if c is not None else None
                    if t is None:
                        st.events.append(('link', 'other', fn.loc(n)))
                        return
                    r = fn.sn(r['ch'][1 if t else 2])
                cls = 'other'
                if r is not None and (r['k'] == 'CXXNullPtrLiteralExpr' or r.get('v') == 0):
                    cls = 'null'
                elif r is not None and r['k'] == 'DeclRefExpr' and 'id' in r and fn.locals[r['id']]['t'].endswith('*'):
                    cls = 'expected'
                st.events.append(('link', cls, fn.loc(n)))


class _BatchWalker(lib_exec.ExecWalker):
    def on_node(self, fn, n, st):
        super().on_node(fn, n, st)
        if n['k'] == 'CXXMemberCallExpr' and n.get('cn', '').split('::')[-1] == 'exchange' and n.get('obj') is not None:
            o = fn.sn(n['obj'])
            while o is not None and o['k'] == 'ImplicitCastExpr' and o.get('ch'):
                o = fn.sn(o['ch'][0])
            if o is not None and o.get('dn', '').endswith('::_jobs'):
                st.events.append(('take', fn.loc(n)))


def check_one_batch(ctx, fb, rule):
    """Strand::Call takes one batch per invocation: whatever was pushed while the batch ran goes through a new
    submission of the strand to the underlying executor — the only place where a strand notices that its executor was
    stopped (the jobs are then Dropped, not Called) and where other work of that executor gets its turn."""
    n = 0
    for f in fb.fn.values():
        if f.clsq != S or f.n != 'Call' or f.cfg is None:
            continue
        key = 'R-STRAND.one-batch Strand::Call'
        w = _BatchWalker(fb, S)
        w.loop_bound = 1
        res = w.run(f)
        n += 1
        ctx.instance(rule, key, dict(paths=len(res)))
        for st, _ in res:
            takes = [e for e in st.events if e[0] == 'take']
            if len(takes) > 1:
                ctx.report(rule, key, takes[1][1], 'one invocation of Strand::Call detaches a second batch without '
                           'having gone through the underlying executor: jobs handed to the strand after that executor '
                           'was stopped are Called instead of Dropped (and the strand keeps the worker)')
                break
    return n


def run(ctx):
    fbs = ctx.facts(['K17', 'KF'], kinds=('lib',), only=r'src/exe/strand\.cpp$')
    rw = ctx.rule('R-WORD', 'every operation on Strand::_jobs is a role of its protocol', minimum=6)
    ro = ctx.rule('R-ORDER', 'role minimum memory orders of Strand::_jobs', minimum=6)
    rc = ctx.rule('R-CASKIND', 'weak CAS only in a retry loop; go-idle CAS is strong', minimum=1)
    rl = ctx.rule('R-LINEAR', 'job published once; every node of a batch finished once, next read first', minimum=3)
    rs = ctx.rule('R-STRAND.schedule', 'self-submission iff the idle marker was replaced; IncRef before it', minimum=1)
    rb = ctx.rule('R-STRAND.batch-end', 'a batch ends by exactly one of go-idle(DecRef) / resubmit', minimum=2)
    rn = ctx.rule('R-EFFECT.noblock', 'no blocking call in Submit/Call/Drop', minimum=3)
    rsh = ctx.rule('R-SHAPE', 'Call / Drop finish every job of the detached batch exactly once and lose none (shape '
                   'analysis over list segments, all batch sizes)', minimum=2)
    rjf = ctx.rule('R-JOBFIELDS', 'every member of Strand that can hold jobs and is used by Call() is drained by Drop() '
                   'too (sibling agreement of the two ways the underlying executor finishes the strand)', minimum=1)
    rlk = ctx.rule('R-STRAND.link', 'the published job links to the observed head exactly when that head is a job list, '
                   'and to nullptr exactly when it is the idle marker', minimum=1)
    rcf = ctx.rule('R-CASFRESH', 'every retry of a compare-exchange re-tests the refreshed expected value against the '
                   'sentinels the first attempt tested', minimum=0)
    rob = ctx.rule('R-STRAND.one-batch', 'Strand::Call detaches one batch per invocation; later arrivals go through a new '
                   'submission to the underlying executor', minimum=1)
    for cfg, fb in sorted(fbs.items()):
        if (ctx.guard(lambda: check_one_batch(ctx, fb, rob)) or 0) < 1:
            ctx.guard(lambda: ctx.broken('R-STRAND.one-batch: Strand::Call not found'))
        ctx.guard(lambda: lib_order.check_cas_fresh(ctx, fb, rcf, lambda f: f.clsq == S))
        ctx.guard(lambda: lib_shape.check(ctx, fb, rsh, lambda qn: 'Strand' in qn, 2))
        if cfg == 'K17':
            ctx.guard(lambda: lib_order.check(ctx, fb, cfg, [S + '::_jobs'], rw, ro, rc))
        fns = {f.n: f for f in fb.fn.values() if f.clsq == S and f.cfg is not None}
        for need in ('Submit', 'Call', 'Drop'):
            if need not in fns:
                ctx.broken('Strand::%s not found' % need)
        ctx.guard(lambda: lib_exec.check_job_fields(ctx, fb, rjf, S))
        ctx.guard(lambda: lib_exec.check_submit_linear(ctx, fb, rl, lambda f: f.clsq == S))
        ctx.guard(lambda: lib_exec.check_dequeue(ctx, fb, rl, [fns['Call'], fns['Drop']]))
        # ---- schedule
        f = fns['Submit']
        w = lib_exec.ExecWalker(fb, S)
        key = 'R-STRAND.schedule Strand::Submit'
        res = w.run(f)
        ctx.instance(rs, key, dict(function=f.full, paths=len(res)))
        for st, _ in res:
            ev = st.events
            marks = [e for e in ev if e[0] == 'branch' and any(c == S + '::Mark' for c in e[1])]
            subs = [e for e in ev if e[0] == 'submit']
            if not marks:
                ctx.broken('Strand::Submit: no comparison with the idle marker found')
            was_idle = marks[-1][2]
            if bool(subs) != bool(was_idle):
                ctx.report(rs, key, f.where, 'the strand %s although the replaced value %s the idle marker' % (
                    'schedules itself' if subs else 'does not schedule itself', 'was not' if subs else 'was'),
                    'a batch is then started twice (two jobs of one strand run concurrently) or never (jobs lost)')
                break
            if subs:
                i = ev.index(subs[0])
                if not any(e[0] == 'IncRef' for e in ev[:i]):
                    ctx.report(rs, key, subs[0][2], 'the strand hands itself to the executor without taking a self '
                               'reference first (it may be destroyed while scheduled)')
                    break
                if len(subs) != 1:
                    ctx.report(rs, key, subs[1][2], 'the strand schedules itself twice for one transition')
                    break
        # ---- link: what the pushed job's next pointer is set to
        key = 'R-STRAND.link Strand::Submit'
        lw = _LinkWalker(fb, S)
        res = lw.run(fns['Submit'])
        ctx.instance(rlk, key, dict(paths=len(res)))
        for st, _ in res:
            ev = st.events
            pub = [i for i, e in enumerate(ev) if e[0] == 'enqueue' and e[1] == 'cas']
            if not pub:
                continue
            links = [i for i, e in enumerate(ev[:pub[-1]]) if e[0] == 'link']
            if not links:
                ctx.report(rlk, key, fns['Submit'].where, 'a job is published without its next pointer having been set')
                break
            li = links[-1]
            refresh = max([i for i, e in enumerate(ev[:li]) if e[0] == 'branch' and e[2] is False and any(
                c.split('::')[-1].startswith('compare_exchange') for c in e[1])] or [-1])
            tests = [e for e in ev[refresh + 1:li] if e[0] == 'is-marker']
            known = tests[-1][1] if tests else None
            cls = ev[li][1]
            if cls == 'other':
                ctx.broken('R-STRAND.link: the value stored into job.next is not recognised (%s)' % ev[li][2])
            if cls == 'expected' and known is not False:
                ctx.report(rlk, key, ev[li][2], 'the pushed job is linked in front of whatever was observed in _jobs '
                           'without having excluded the idle marker: the marker (the strand itself) becomes the next '
                           '"job" of the batch and Call() runs into it')
                break
            if cls == 'null' and known is not True:
                ctx.report(rlk, key, ev[li][2], 'the pushed job gets next = nullptr although the observed head may be a '
                           'list of pending jobs: those jobs are cut off and never run')
                break
        # ---- batch end
        f = fns['Call']
        w = lib_exec.ExecWalker(fb, S)
        w.loop_bound = 1
        key = 'R-STRAND.batch-end Strand::Call'
        res = w.run(f)
        ctx.instance(rb, key, dict(function=f.full, paths=len(res)))
        for st, _ in res:
            ev = st.events
            cas = [e for e in ev if e[0] == 'branch' and any(c.endswith('compare_exchange_strong') or
                                                             c.endswith('compare_exchange_weak') for c in e[1])]
            dec = [e for e in ev if e[0] == 'DecRef']
            subs = [e for e in ev if e[0] == 'submit']
            idle = bool(cas) and cas[-1][2] is True
            if len(dec) + len(subs) != 1:
                ctx.report(rb, key, f.where, 'a batch ends with %d DecRef and %d self-submissions (expected exactly '
                           'one of the two)' % (len(dec), len(subs)))
                break
            if idle != bool(dec):
                ctx.report(rb, key, f.where, 'the self reference is released although the strand did not go idle by '
                           'a successful CAS (or kept although it did)' if dec else
                           'the strand went idle but resubmits itself / keeps its self reference')
                break
        f = fns['Drop']
        key = 'R-STRAND.batch-end Strand::Drop'
        res = lib_exec.ExecWalker(fb, S).run(f)
        ctx.instance(rb, key, dict(function=f.full, paths=len(res)))
        for st, _ in res:
            dec = [e for e in st.events if e[0] == 'DecRef']
            subs = [e for e in st.events if e[0] == 'submit']
            if len(dec) != 1 or subs:
                ctx.report(rb, key, f.where, 'Drop must release the self reference exactly once and never resubmit '
                           '(saw %d DecRef, %d submissions)' % (len(dec), len(subs)))
                break
        # ---- no blocking
        for name in ('Submit', 'Call', 'Drop'):
            f = fns[name]
            key = 'R-EFFECT.noblock Strand::%s' % name
            res = lib_exec.ExecWalker(fb, S).run(f)
            ctx.instance(rn, key, dict(function=f.full))
            blk = [e for st, _ in res for e in st.events if e[0] == 'block']
            if blk:
                ctx.report(rn, key, blk[0][2], 'Strand::%s may block (%s): a strand must never block a thread of the '
                           'underlying executor' % (name, blk[0][1]))
