"""R-SHAPE — in-place manipulation of intrusive lists neither loses, duplicates nor cycles nodes (vlib/shape.py).

Sites (each: which expression detaches the list under analysis, and what must hold at the exits):
  MutexImpl::GetHead            _sender.exchange(...)     non-empty   every node reachable from the returned head
  Strand::Call / Strand::Drop   _jobs.exchange(...)       non-empty   every node finished (Call / Drop) exactly once
  SetImpl (OneShotEvent)        self.exchange(...)        maybe empty every node finished (Call) exactly once
  BaseCore::SetResultImpl       _callback.exchange(...)   maybe empty every node finished (Loop / Step) exactly once
Helpers of the same class / file that touch `next` (an extracted Reverse()) are inlined.
"""
from vlib import shape

NEXT = 'yaclib::detail::Node::next'


def _touches_next(g):
    return any(n['k'] == 'MemberExpr' and n.get('dn') == NEXT for n in g.own_nodes())


def _takes_senders(g):
    return any(n['k'] == 'CXXMemberCallExpr' and n.get('cn', '').split('::')[-1] == 'exchange' and
               any(g.nodes[d].get('dn', '').endswith('::_sender') for d in g.descendants(n['i']))
               for n in g.own_nodes())


def _is_helper(fn, g):
    if g.cfg is None or not (_touches_next(g) or _takes_senders(g)):
        return False
    same_cls = bool(g.cls) and g.cls == fn.cls and 'virtual' not in g.flags
    file_local = not g.cls and g.file == fn.file
    return same_cls or file_local


def _exchange_on(member_suffix, kind):
    def inputs(fn, n):
        kind_ = kind(fn) if callable(kind) else kind
        if n['k'] == 'CXXMemberCallExpr' and n.get('cn', '').split('::')[-1] == 'exchange' and n.get('obj') is not None:
            o = fn.sn(n['obj'])
            while o is not None and o['k'] in ('ImplicitCastExpr', 'UnaryOperator') and o.get('ch'):
                o = fn.sn(o['ch'][0])
            if o is not None and (o.get('dn', '').endswith(member_suffix) or
                                  (member_suffix == '*' and o['k'] == 'DeclRefExpr')):
                return kind_
        return None
    return inputs


def _fifo_head(fn):
    """MutexImpl<FIFO, Batching>::GetHead: with FIFO the returned chain must run from the oldest waiter to the newest"""
    return 'rev' if fn.cta and fn.cta[0] in ('true', '1') else None


SITES = [
    # (qualified name, inputs, description of the exit obligation, finishers that must run oldest first,
    #  direction the returned chain must have)
    ('yaclib::detail::MutexImpl::GetHead', _exchange_on('::_sender', 'list'),
     'every waiter taken from _sender stays reachable from the head that GetHead returns; with FIFO=true the returned '
     'chain runs from the oldest waiter to the newest', (), _fifo_head),
    # the grant paths that start a new batch: end to end from the detach of _sender (inside GetHead or any other
    # helper) to the waiter that is submitted / resumed and to what is parked in _receiver
    ('yaclib::detail::MutexImpl::UnlockHereAwait', _exchange_on('::_sender', 'list'),
     'the waiter that is granted the lock is the oldest of the detached batch and the rest is parked oldest first '
     '(FIFO=true)', 'grant', _fifo_head),
    ('yaclib::detail::MutexImpl::AwaitUnlockOn', _exchange_on('::_sender', 'list'),
     'the waiter that is granted the lock is the oldest of the detached batch and the rest is parked oldest first '
     '(FIFO=true)', 'grant', _fifo_head),
    ('yaclib::Strand::Call', _exchange_on('::_jobs', 'list'),
     'every job of the batch is Called exactly once, in the order the jobs were pushed', ('Call',), None),
    ('yaclib::Strand::Drop', _exchange_on('::_jobs', 'list'), 'every job of the batch is Dropped exactly once'),
    ('yaclib::(anonymous namespace)::SetImpl', _exchange_on('*', 'maybe-list'),
     'every waiter of the event is Called exactly once'),
    # a unique core holds at most one callback (its next link is not a list link); a shared core holds a list
    ('yaclib::detail::BaseCore::SetResultImpl',
     _exchange_on('::_callback', lambda fn: 'maybe-list' if fn.fta and fn.fta[-1] in ('1', 'true') else 'maybe-single'),
     'every subscribed callback is run exactly once'),
]


def check(ctx, fb, rule, only=None, minimum_sites=1):
    n = 0
    for site in SITES:
        qn, inputs, oblig = site[:3]
        ordered = site[3] if len(site) > 3 else ()
        want_dir = site[4] if len(site) > 4 else None
        if only is not None and not only(qn):
            continue
        for f in sorted(fb.by_qn(qn), key=lambda f: f.full):
            if f.cfg is None:
                continue
            need = want_dir(f) if want_dir else None
            key = 'R-SHAPE %s' % qn
            if ordered == 'grant':
                # a grant path: handing a waiter on (Submit / resuming it through Curr()) finishes it; with FIFO the
                # one handed on must be the oldest pending one and a chain parked in a member must run oldest first
                def on_store(an, fn, node, heap, val, need=need):
                    if need and heap.direction_of(val) not in ('single', need):
                        if heap.direction_of(val) == 'mixed':
                            raise shape.Unsupported('direction of the chain parked at %s' % fn.loc(node))
                        an.problem('order', fn, node, 'the rest of the batch is parked newest first although this '
                                   'instantiation promises arrival order (FIFO): the following grants run backwards')
                a = shape.Analysis(fb, inputs, _is_helper, NEXT, ordered_finishers=('escape', 'Curr') if need else (),
                                   finishers=('Call', 'Drop', 'Curr'), on_store=on_store)
                try:
                    exits = a.check_function(f, must_return_all=False)
                except shape.Unsupported as e:
                    ctx.broken('R-SHAPE %s: %s' % (f.full, e))
                need = None
            else:
                a = shape.Analysis(fb, inputs, _is_helper, NEXT, ordered_finishers=ordered)
                try:
                    exits = a.check_function(f)
                except shape.Unsupported as e:
                    ctx.broken('R-SHAPE %s: %s' % (f.full, e))
            undecided = False
            if need and not a.problems:  # a chain that loses or cycles nodes is reported as such, not as an order issue
                for h1, rv in exits:
                    if not rv:
                        continue
                    d = h1.direction_of(rv)
                    if d in ('single', need):
                        continue
                    if d == 'mixed':
                        undecided = True
                        continue
                    a.problems.setdefault(('order', f.where), shape.Problem(
                        'order', f.where, 'the returned chain runs from the newest entry to the oldest although this '
                        'instantiation promises arrival order (FIFO): waiters are granted the lock in reverse order'))
                if undecided and not a.problems:
                    ctx.broken('R-SHAPE %s: the direction of the returned chain cannot be established' % f.full)
            n += 1
            ctx.instance(rule, key + ' :: ' + f.full[:120],
                         dict(function=f.full[:160], abstract_states=a.nstates, exits=len(exits), obligation=oblig))
            if a.nstates < 3:
                ctx.broken('R-SHAPE %s: the list under analysis was not found (no input expression matched)' % f.full)
            for p in a.problems.values():
                ctx.report(rule, key + ' ' + p.kind, p.loc, '%s (obligation: %s)' % (p.msg, oblig),
                           'function: ' + f.full[:300])
    if n < minimum_sites:
        ctx.broken('R-SHAPE: only %d list-manipulation sites found (%d expected)' % (n, minimum_sites))
    return n
