"""Coroutine-layer rules (C13, C16, C06 share them).

  R-SUSPEND     every bool-returning await_suspend returns exactly the registration outcome (true = suspended because
                registered; false = already complete, resume now): the SetCallback/TryAdd result un-negated, or
                the negated "counter reached zero" of SubEqual
  R-HANDOFF     in every await_suspend body nothing of *this (the awaiter lives in the coroutine frame) is touched
                after the coroutine may have been handed to another thread: after Submit(promise), after a successful
                SetCallback/TryAdd, after SubEqual that did NOT reach zero
  R-COUNTER     multi-await counters agree: initial n+1; SetCallbacks* subtract exactly the not-registered inputs;
                await_ready compares the acquire-read count with 1; await_suspend and every callback subtract 1
  R-HERENEXT    Here and Next of every InlineCore overrider perform the same effects (symmetric / asymmetric twins)
  R-DESTROY     a coroutine frame is destroyed only by PromiseTypeDeleter::Delete
"""
from vlib import lin, pathwalk

EFFECTS = ('Submit', 'SubEqual', 'Sub', 'DecRef', 'IncRef', 'SetResult', 'SetResultImpl', 'Store', 'Consume',
           'CallImpl', 'Done', 'TransferExecutorTo', 'Call', 'Set', 'Here', 'Next', 'Impl', 'Swap', 'Reset')


class CoroWalker(pathwalk.Walker):
    loop_bound = 1
    max_paths = 20000

    def inline(self, fn, n, st):
        g = self.fb.fn.get(n.get('ck'))
        if g is not None and g.cfg is not None and st.depth < 3 and 'virtual' not in g.flags and \
                g.n in ('Impl', 'Call') and g.qn.startswith('yaclib::'):
            return g
        return None

    def on_node(self, fn, n, st):
        k = n['k']
        if k in ('CXXMemberCallExpr', 'CallExpr', 'CXXOperatorCallExpr') and 'cn' in n:
            st.events.append(('call', n['cn'], n['i'], fn.loc(n), st.depth))
        elif k == 'MemberExpr' and n.get('ch') and st.depth == 0:
            b = fn.sn(n['ch'][0])
            while b is not None and b['k'] in ('ImplicitCastExpr', 'CXXStaticCastExpr', 'UnaryOperator'):
                b = fn.sn(b['ch'][0])
            if b is not None and b['k'] == 'CXXThisExpr' and n.get('dk') == 'Field':
                st.events.append(('this-field', n.get('mn'), fn.loc(n)))

    def on_edge(self, fn, ci, taken, st):
        c = fn.sn(ci)
        neg = False
        while c['k'] == 'UnaryOperator' and c['op'] == '!':
            neg = not neg
            c = fn.sn(c['ch'][0])
        last = c.get('cn', '').split('::')[-1]
        if last in ('SetCallback', 'SetCallbackImpl', 'TryAdd', 'SubEqual', 'AwaitLock', 'AwaitLockShared'):
            st.events.append(('outcome', last, taken != neg))


def await_suspends(fb):
    return [f for f in fb.fn.values() if f.n == 'await_suspend' and f.qn.startswith('yaclib::') and f.cfg is not None]


def check_suspend_result(ctx, fb, rule):
    n = 0
    for f in await_suspends(fb):
        if f.ret != 'bool':
            continue
        n += 1
        key = 'R-SUSPEND ' + f.qn
        ctx.instance(rule, key + ' :: ' + f.cls[:100], None)
        rets = [x for x in f.own_nodes() if x['k'] == 'ReturnStmt' and x.get('ch')]
        for r in rets:
            j, neg = f.resolve_neg(r['ch'][0])  # through `!` and named locals (const bool last = ...; return !last)
            c = f.nodes[j]
            last = c.get('cn', '').split('::')[-1]
            if c.get('v') is not None and c['k'] != 'CXXMemberCallExpr':
                # constant: `return false` (CurrentAwaiter<false>) = never suspends, `return true` after a resume call
                continue
            if last in ('SetCallback', 'TryAdd', 'AwaitLock', 'AwaitLockShared'):
                ok = not neg
            elif last == 'SubEqual':
                ok = neg
            elif last in ('await_suspend', 'AwaitUnlock', 'AwaitUnlockOn'):
                continue  # forwards to another awaiter's await_suspend, which is checked itself
            else:
                ctx.broken('R-SUSPEND: %s returns %s — form not recognised' % (f.full[:120], f.text(r['ch'][0])))
            if not ok:
                ctx.report(rule, key, f.loc(r), 'await_suspend returns the inverse of the registration outcome: the '
                           'coroutine is resumed although it was registered (double resume) or stays suspended '
                           'although the awaited object was already complete (never resumed)',
                           'awaiter: ' + f.full[:300])
        # constant returns decided by a tested registration outcome (LockStickyAwaiter)
        if any(f.sn(r['ch'][0]).get('v') is not None and f.sn(r['ch'][0])['k'] != 'CXXMemberCallExpr' for r in rets):
            w = CoroWalker(fb)
            w.on_edge = lambda fn, ci, taken, st, _w=w: _edge_lock(fn, ci, taken, st)
            for st, rv in w.run(f):
                outs = [e for e in st.events if e[0] == 'outcome']
                if outs and rv is not None and rv[0] == 'c':
                    want = outs[-1][2] if outs[-1][1] != 'SubEqual' else (not outs[-1][2])
                    if bool(rv[1]) != want:
                        ctx.report(rule, key, f.where, 'await_suspend returns %s on the path where %s %s: the inverse of '
                                   'the registration outcome' % (bool(rv[1]), outs[-1][1],
                                                                 'succeeded' if outs[-1][2] else 'failed'),
                                   'awaiter: ' + f.full[:300])
                        break
    return n


def _edge_lock(fn, ci, taken, st):
    c = fn.sn(ci)
    neg = False
    while c['k'] == 'UnaryOperator' and c['op'] == '!':
        neg = not neg
        c = fn.sn(c['ch'][0])
    last = c.get('cn', '').split('::')[-1]
    if last in ('SetCallback', 'SetCallbackImpl', 'TryAdd', 'SubEqual', 'AwaitLock', 'AwaitLockShared'):
        st.events.append(('outcome', last, taken != neg))


def check_handoff(ctx, fb, rule):
    n = 0
    for f in await_suspends(fb):
        n += 1
        key = 'R-HANDOFF ' + f.qn
        res = CoroWalker(fb).run(f)
        ctx.instance(rule, key + ' :: ' + f.cls[:100], dict(awaiter=f.full[:200], paths=len(res)))
        bad = None
        for st, _ in res:
            ev = st.events
            handed = None
            for i, e in enumerate(ev):
                if e[0] == 'call' and e[1] == 'yaclib::IExecutor::Submit' and e[4] == 0:
                    handed = handed or ('Submit', e[3])
                elif e[0] == 'outcome':
                    if e[1] in ('SetCallback', 'SetCallbackImpl', 'TryAdd', 'AwaitLock', 'AwaitLockShared') and \
                            e[2] is True:
                        handed = handed or ('successful ' + e[1], '')
                    elif e[1] == 'SubEqual' and e[2] is False:
                        handed = handed or ('SubEqual that did not reach zero', '')
                elif e[0] == 'this-field' and handed:
                    bad = (e, handed)
                    break
            if bad:
                break
        if bad:
            e, handed = bad
            ctx.report(rule, key, e[2], 'the awaiter field %s is touched after %s: the coroutine may already run on '
                       'another thread and have destroyed its frame (the awaiter lives in it)' % (e[1], handed[0]),
                       'awaiter: ' + f.full[:300])
    return n


def const_of(f, i):
    n = f.sn(i)
    return n.get('v') if n is not None else None


def check_counter(ctx, fb, rule):
    # constructors: Event{n + 1}
    cnt = 0
    for f in fb.fn.values():
        if 'ctor' not in f.flags or f.clsq not in ('yaclib::detail::MultiAwaitAwaiter',
                                                  'yaclib::detail::MultiAwaitOnAwaiter'):
            continue
        cnt += 1
        key = 'R-COUNTER %s ctor' % f.clsq
        ctx.instance(rule, key + ' :: ' + f.full[:120], None)
        ok = False
        for it in f.raw.get('inits', []):
            if f.S[it['what']].startswith('base:'):
                for d in f.descendants(it['e']):
                    x = f.nodes[d]
                    if x['k'] == 'BinaryOperator' and x['op'] == '+' and const_of(f, x['ch'][1]) == 1:
                        ok = True
                    if x['k'] == 'BinaryOperator' and x['op'] == '+' and const_of(f, x['ch'][0]) == 1:
                        ok = True
                    # constant-folded sizeof...(handles) + 1
                if not ok:
                    e = f.sn(it['e'])
                    args = e.get('args', []) if e else []
                    if args and const_of(f, args[0]) is not None:
                        # variadic form: the folded constant must be (number of handle parameters) + 1
                        nhandles = len([p for p in f.params if 'Handle' in f.locals[p]['t']])
                        ok = const_of(f, args[0]) == nhandles + 1
        if not ok:
            ctx.report(rule, key, f.where, 'the await counter is not initialised to (number of awaited objects + 1): '
                       'the +1 is the coroutine\'s own await_suspend')
    # SetCallbacksStatic / Dynamic subtract (n - wait_count)
    for f in fb.fn.values():
        if f.qn not in ('yaclib::detail::SetCallbacksStatic', 'yaclib::detail::SetCallbacksDynamic') or f.cfg is None:
            continue
        cnt += 1
        key = 'R-COUNTER ' + f.qn
        ctx.instance(rule, key + ' :: ' + f.full[:120], None)
        subs = [c for c in f.calls() if c['cn'].endswith('::fetch_sub')]
        ok = len(subs) == 1
        if ok:
            a = lin.from_ast(f, subs[0]['args'][0])  # any spelling: a named ready_count, (n - wait_count) ...
            ok = a is not None and a.c == 0 and a.t.get('wait_count') == -1 and sorted(a.t.values()) == [-1, 1] or \
                (a is not None and a.t.get('wait_count') == -1 and len(a.t) == 1 and a.c >= 1)  # sizeof...() folded
        if not ok:
            ctx.report(rule, key, f.where, 'the counter must be reduced by exactly the number of inputs that were '
                       'already complete at registration (count - wait_count)')
    # await_ready / await_suspend / callbacks
    for f in fb.fn.values():
        if f.clsq == 'yaclib::detail::MultiAwaitAwaiter' and f.n == 'await_ready':
            cnt += 1
            key = 'R-COUNTER MultiAwaitAwaiter::await_ready'
            ctx.instance(rule, key + ' :: ' + f.cls[:100], None)
            ok = False
            for x in f.own_nodes():
                if x['k'] == 'BinaryOperator' and x['op'] == '==' and const_of(f, x['ch'][1]) == 1:
                    c = f.sn(x['ch'][0])
                    if c.get('cn', '').endswith('::Get') and c.get('args') and const_of(f, c['args'][0]) in (2, 4, 5):
                        ok = True
            if not ok:
                ctx.report(rule, key, f.where, 'await_ready must compare the acquire-read counter with 1 (only the '
                           'coroutine\'s own unit left = every awaited object is complete and visible)')
        if f.n == 'await_suspend' and f.clsq in ('yaclib::detail::MultiAwaitAwaiter',
                                                  'yaclib::detail::MultiAwaitOnAwaiter'):
            cnt += 1
            key = 'R-COUNTER %s::await_suspend' % f.clsq
            ctx.instance(rule, key + ' :: ' + f.cls[:100], None)
            subs = [c for c in f.calls() if c['cn'].endswith('::SubEqual')]
            if len(subs) != 1 or const_of(f, subs[0]['args'][0]) != 1:
                ctx.report(rule, key, f.where, 'await_suspend must subtract exactly the coroutine\'s own unit (1)')
        if f.n == 'Impl' and f.clsq in ('yaclib::detail::AwaitEvent', 'yaclib::detail::AwaitOnEvent'):
            subs = [c for c in f.calls() if c['cn'].endswith('::SubEqual')]
            if f.clsq == 'yaclib::detail::AwaitOnEvent' and f.cta and f.cta[0] in ('true', '1'):
                continue
            cnt += 1
            key = 'R-COUNTER %s::Impl' % f.clsq
            ctx.instance(rule, key + ' :: ' + f.cls[:100], None)
            if len(subs) != 1 or const_of(f, subs[0]['args'][0]) != 1:
                ctx.report(rule, key, f.where, 'each completed input must subtract exactly 1')
    return cnt


def check_here_next(ctx, fb, rule):
    by_cls = {}
    for f in fb.fn.values():
        if f.n in ('Here', 'Next') and 'virtual' in f.flags and f.cfg is not None:
            by_cls.setdefault(f.cls, {})[f.n] = f
    n = 0
    for cls, d in sorted(by_cls.items()):
        if len(d) != 2:
            continue
        n += 1

        def effects(f):
            out = set()
            for st, _ in CoroWalker(fb).run(f):
                for e in st.events:
                    if e[0] == 'call':
                        last = e[1].split('::')[-1]
                        if last in ('Call', 'Curr') and f.clsq == 'yaclib::detail::PromiseType':
                            out.add('resume')  # Here resumes through Call(), Next hands the handle back (Curr())
                        elif last in EFFECTS and last not in ('Here', 'Next', 'Impl'):
                            out.add(last)
            return out
        try:
            eh, en = effects(d['Here']), effects(d['Next'])
        except pathwalk.TooManyPaths:
            continue
        key = 'R-HERENEXT ' + d['Here'].clsq
        ctx.instance(rule, key + ' :: ' + cls[:120], None)
        if eh != en:
            ctx.report(rule, key, d['Here'].where, 'Here() and Next() of the same continuation differ in effects: Here '
                       'only %s, Next only %s (a build with and one without symmetric transfer behave differently)' % (
                           sorted(eh - en), sorted(en - eh)), 'class: ' + cls[:300])
    return n


def check_destroy(ctx, fb, rule):
    n = 0
    for f in fb.fn.values():
        if not f.qn.startswith('yaclib::'):
            continue
        for c in f.calls():
            if c['cn'] in ('std::coroutine_handle::destroy', 'std::experimental::coroutine_handle::destroy'):
                n += 1
                key = 'R-DESTROY ' + f.qn
                ctx.instance(rule, key, None)
                if f.qn != 'yaclib::detail::PromiseTypeDeleter::Delete':
                    ctx.report(rule, key, f.loc(c), 'a coroutine frame is destroyed outside the reference-count '
                               'deleter: the frame (and its live locals) can be destroyed twice or while referenced')
    return n
