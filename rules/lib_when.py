"""Combinator rules shared by C09 (WhenAll / Join) and C10 (WhenAny).

  R-SETONCE    in every strategy Consume: at most one Promise::Set per path, and each is preceded on the path by
               the winning edge of an RMW election on an atomic member of the strategy; a strategy destructor sets
               the promise under _p.Valid() (or unconditionally when the strategy has no Consume-side Set)
  R-CALLBACK   every per-input callback (CombinatorCallback::Impl, SingleCombinator::Impl) performs exactly one
               Consume and then exactly one combinator DecRef, in that order, on every path
  R-SIBLING    at every registration site  if (!core.SetCallback(cb)) {…}  the "already complete" branch performs
               the same effects as the callback would (one Consume with the same index kind, one DecRef)
  R-COUNT      the combinator is created with reference count == number of inputs (both When overloads) and an
               empty dynamic input returns before anything is created
  R-LASTFAIL   Any<LastFail> packed counter constants agree (initial 2*count, failure subtracts 2 and compares
               with 2, value sets an odd value, DoneImpl tests the low bit)
  R-SAVEDERR   Any<FirstFail>: the saved error is written only by the winner of the CAS election and read only in
               the destructor
"""
from vlib import facts, pathwalk

SET = 'yaclib::Promise::Set'
RMW = ('exchange', 'compare_exchange_strong', 'compare_exchange_weak', 'fetch_sub', 'fetch_add', 'fetch_or',
       'fetch_and')


class WhenWalker(pathwalk.Walker):
    loop_bound = 1
    max_paths = 20000
    inline_helpers = True  # an election extracted into a private helper is still the election
    no_inline = ('DoneImpl', 'Consume', 'ConsumeImpl', 'Set', 'SetCore', 'Impl', 'Register')

    def on_node(self, fn, n, st):
        k = n['k']
        if k not in ('CXXMemberCallExpr', 'CallExpr', 'CXXOperatorCallExpr'):
            return
        cn = n.get('cn', '')
        loc = fn.loc(n)
        last = cn.split('::')[-1]
        if cn == SET:
            st.events.append(('set', loc))
        elif cn in ('yaclib::when::Consume', 'yaclib::when::ConsumeImpl'):
            idx = 'tpl' if n.get('cta') and n['cta'][0].isdigit() and len(n.get('args', [])) == 2 else (
                'dyn' if len(n.get('args', [])) == 3 else 'tpl')
            st.events.append(('consume', idx, loc))
        elif last == 'DecRef':
            st.events.append(('decref', fn.text(n['obj']) if 'obj' in n else '?', loc))
        elif last == 'Retire':
            st.events.append(('retire', loc))
        elif cn == 'yaclib::Promise::Valid':
            pass
        elif last in ('SetCallback',):
            st.events.append(('setcallback', n['i'], loc))
        if k == 'CXXOperatorCallExpr' and n.get('op') == '=' and n.get('args'):
            t = fn.sn(n['args'][0])
            if t is not None and t['k'] == 'MemberExpr' and t.get('mn') == 'error':
                st.events.append(('write-error', loc))

    def on_edge(self, fn, ci, taken, st):
        c = fn.sn(ci)
        neg = False
        while c['k'] == 'UnaryOperator' and c['op'] == '!':
            neg = not neg
            c = fn.sn(c['ch'][0])
        truth = taken != neg
        for j in fn.deep_descendants(c['i']):  # through named locals: const auto old = w.fetch_sub(2); if (old != 2)
            m = fn.nodes[j]
            cn = m.get('cn', '')
            last = cn.split('::')[-1]
            if m['k'] == 'CXXMemberCallExpr' and last in RMW and (cn.startswith('std::atomic') or
                                                                   cn.startswith('std::__atomic')):
                st.events.append(('election', last, truth, fn.loc(m)))
            if cn == 'yaclib::Promise::Valid':
                st.events.append(('valid', truth))
            if last == 'SetCallback' and m['i'] == c['i']:
                st.events.append(('registered', truth, m['i']))
            if cn == 'yaclib::when::Any::DoneImpl' and any(
                    fn.nodes[d].get('cn', '').split('::')[-1] in RMW for d in fn.deep_descendants(m['i'])):
                st.events.append(('election', 'DoneImpl(rmw)', truth, fn.loc(m)))


def strategies(fb, names):
    out = {}
    for f in fb.fn.values():
        if f.clsq in names and f.cfg is not None:
            out.setdefault(f.cls, []).append(f)
    return out


def check_setonce(ctx, fb, rule, strategy_names):
    strat = strategies(fb, strategy_names)
    if not strat:
        ctx.broken('no strategy instantiation of %s' % (strategy_names,))
    for cls, fs in sorted(strat.items()):
        consume_sets = False
        for f in fs:
            if f.n != 'Consume':
                continue
            key = 'R-SETONCE %s::Consume' % f.clsq
            res = WhenWalker(fb).run(f)
            ctx.instance(rule, key + ' :: ' + f.full[:150], dict(function=f.full[:200], paths=len(res)))
            for st, _ in res:
                ev = st.events
                sets = [i for i, e in enumerate(ev) if e[0] == 'set']
                if sets:
                    consume_sets = True
                if len(sets) > 1:
                    ctx.report(rule, key, ev[sets[1]][1], 'the output promise is set twice on one path',
                               'instantiation: ' + f.full[:300])
                    break
                bad = False
                for i in sets:
                    won = [e for e in ev[:i] if e[0] == 'election']
                    if not won:
                        ctx.report(rule, key, ev[i][1], 'the output promise is set without winning an atomic '
                                   'read-modify-write election: two completing inputs can both set it',
                                   'instantiation: ' + f.full[:300])
                        bad = True
                        break
                if bad:
                    break
        for f in fs:
            if 'dtor' not in f.flags:
                continue
            key = 'R-SETONCE %s::~dtor' % f.clsq
            res = WhenWalker(fb).run(f)
            ctx.instance(rule, key + ' :: ' + cls[:150], dict(function=f.full[:200], paths=len(res)))
            for st, _ in res:
                ev = st.events
                sets = [i for i, e in enumerate(ev) if e[0] == 'set']
                if len(sets) > 1:
                    ctx.report(rule, key, ev[sets[1]][1], 'the destructor sets the output promise twice')
                    break
                if sets and consume_sets and not any(e == ('valid', True) for e in ev[:sets[0]]):
                    ctx.report(rule, key, ev[sets[0]][1], 'the destructor sets the output promise without testing '
                               '_p.Valid() although Consume may already have set it')
                    break
                if not sets and not consume_sets:
                    ctx.report(rule, key, f.where, 'a strategy whose Consume never completes the output does not '
                               'complete it in its destructor either: the combinator never completes')
                    break


def check_callbacks(ctx, fb, rule):
    fs = [f for f in fb.fn.values() if f.n == 'Impl' and f.clsq in ('yaclib::when::CombinatorCallback',
                                                                    'yaclib::when::SingleCombinator')
          and f.cfg is not None]
    if not fs:
        ctx.broken('no combinator callback instantiated')
    for f in fs:
        key = 'R-CALLBACK %s::Impl' % f.clsq
        res = WhenWalker(fb).run(f)
        ctx.instance(rule, key + ' :: ' + f.cls[:150], dict(function=f.full[:200], paths=len(res)))
        for st, _ in res:
            seq = [e[0] for e in st.events if e[0] in ('consume', 'decref')]
            if seq != ['consume', 'decref']:
                ctx.report(rule, key, f.where, 'a per-input callback must consume its input exactly once and then '
                           'release the combinator exactly once (saw %s)' % seq, 'instantiation: ' + f.full[:300])
                break


def check_sibling(ctx, fb, rule):
    """registration sites in SingleCombinator::Set/SetCore, StaticCombinator::SetCore, DynamicCombinator::Set"""
    fs = [f for f in fb.fn.values() if f.clsq in ('yaclib::when::SingleCombinator', 'yaclib::when::StaticCombinator',
                                                  'yaclib::when::DynamicCombinator')
          and f.n in ('Set', 'SetCore') and f.cfg is not None]
    n = 0
    for f in fs:
        if not any(c['cn'].endswith('::SetCallback') for c in f.calls()):
            continue
        n += 1
        key = 'R-SIBLING %s::%s' % (f.clsq, f.n)
        w = WhenWalker(fb)
        w.loop_bound = 1
        res = w.run(f)
        ctx.instance(rule, key + ' :: ' + f.full[:150], dict(function=f.full[:200], paths=len(res)))
        for st, _ in res:
            ev = st.events
            # split the path at each registration outcome
            regs = [i for i, e in enumerate(ev) if e[0] == 'registered']
            for a, i in enumerate(regs):
                end = regs[a + 1] if a + 1 < len(regs) else len(ev)
                seg = [e[0] for e in ev[i + 1:end] if e[0] in ('consume', 'decref')]
                # the SetCallback call of the next iteration belongs to the next segment
                if ev[i][1] is True:
                    want = []
                else:
                    want = ['consume', 'decref']
                if seg != want:
                    ctx.report(rule, key, f.where,
                               'when the input is %s the registration site performs %s; the callback would perform '
                               '%s' % ('already complete (SetCallback returned false)' if not ev[i][1] else
                                       'registered', seg or 'nothing', want or 'nothing'),
                               'instantiation: ' + f.full[:300])
                    return n
    if n == 0:
        ctx.broken('no registration site found in the combinators')
    return n


def check_count(ctx, fb, rule):
    fs = [f for f in fb.fn.values() if f.qn == 'yaclib::when::When' and f.cfg is not None]
    if not fs:
        ctx.broken('when::When not instantiated')
    for f in fs:
        key = 'R-COUNT when::When(%s)' % ('iterator' if len(f.params) == 2 and 'unsigned long' in
                                          f.locals[f.params[1]]['t'] else 'static')
        mk = [c for c in f.calls(r'^yaclib::MakeShared$')]
        ctx.instance(rule, key + ' :: ' + f.full[:150], None)
        if not mk:
            # the empty static overload
            continue
        c = mk[0]
        a0, a1 = c['args'][0], c['args'][1]
        t0, t1 = f.sn(a0), f.sn(a1)
        same = (t0.get('v') is not None and t0.get('v') == t1.get('v')) or (
            t0['k'] == 'DeclRefExpr' and t1['k'] == 'DeclRefExpr' and t0.get('id') == t1.get('id'))
        if not same:
            ctx.report(rule, key, f.loc(c), 'the combinator\'s initial reference count (%s) differs from the number of '
                       'inputs passed to the strategy (%s): it is destroyed early or never' % (
                           f.text(a0), f.text(a1)), 'instantiation: ' + f.full[:300])
            continue
        if key.endswith('(iterator)'):
            # count == 0 returns before the combinator is made
            w = WhenWalker(fb)
            pos = None
            ok = False
            for n in f.own_nodes():
                if n['k'] == 'IfStmt' and 'cond' in n:
                    c0 = f.sn(n['cond'])
                    if c0['k'] == 'BinaryOperator' and c0['op'] == '==' and f.sn(c0['ch'][1]).get('v') == 0:
                        ok = any(f.nodes[d]['k'] == 'ReturnStmt' for d in f.descendants(n['then']))
            if not ok:
                ctx.report(rule, key, f.where, 'an empty input range must return the invalid future before a '
                           'combinator is created (a combinator with zero inputs never completes)')


def compared_constant(f, i):
    """the constant the value of expression i is compared with (== / !=), directly or through a single-assignment
    local that holds it (`const auto old = x.fetch_sub(2); if (old != 2)`)"""
    def cmp_parent(j):
        par = f.parents.get(j)
        while par is not None and f.nodes[par]['k'] in ('ImplicitCastExpr', 'ParenExpr'):
            par = f.parents.get(par)
        if par is not None and f.nodes[par]['k'] == 'BinaryOperator' and f.nodes[par]['op'] in ('==', '!='):
            for c in f.nodes[par]['ch']:
                v = f.sn(c).get('v') if f.sn(c) is not None else None
                if v is not None and f.strip(c) != f.strip(j):
                    return v
        return None
    v = cmp_parent(i)
    if v is not None:
        return v
    for vid, init in f.single_defs.items():
        if f.strip(init) == f.strip(i):
            for n in f.own_nodes():
                if n['k'] == 'DeclRefExpr' and n.get('id') == vid:
                    v = cmp_parent(n['i'])
                    if v is not None:
                        return v
    return None


def check_lastfail(ctx, fb, rule):
    cls = [c for c in strategies(fb, ('yaclib::when::Any',)).items() if c[1][0].cta and c[1][0].cta[0] in (
        '2', 'yaclib::FailPolicy::LastFail')]
    if not cls:
        ctx.broken('Any<LastFail> not instantiated')
    for name, fs in cls:
        key = 'R-LASTFAIL ' + 'yaclib::when::Any<LastFail>'
        ctx.instance(rule, key + ' :: ' + name[:150], None)
        mul = sub = cmpv = val = mask = None
        for f in fs:
            if 'ctor' in f.flags:
                for it in f.raw.get('inits', []):
                    if facts.canon_field(f.S[it['what']]).endswith('::_state'):
                        if f.sn(it['e'])['k'] == 'DeclRefExpr' or any(
                                f.sn(c)['k'] == 'DeclRefExpr' for c in f.sn(it['e']).get('ch', [])[:1]):
                            mul = 1  # initialised with the plain count
                        for d in f.descendants(it['e']):
                            n = f.nodes[d]
                            if n['k'] == 'BinaryOperator' and n['op'] == '*':
                                for c in n['ch']:
                                    if f.sn(c).get('v') is not None:
                                        mul = f.sn(c)['v']
            if f.n == 'Consume':
                for n in f.own_nodes():
                    cn = n.get('cn', '')
                    if cn.endswith('::fetch_sub') and n.get('args'):
                        sub = f.sn(n['args'][0]).get('v')
                        cmpv = compared_constant(f, n['i'])
                    if cn.endswith('::exchange') and n.get('args'):
                        val = f.sn(n['args'][0]).get('v')
            if f.n == 'DoneImpl':
                for n in f.own_nodes():
                    if n['k'] == 'BinaryOperator' and n['op'] == '&':
                        mask = f.sn(n['ch'][1]).get('v')
        if val is None and None not in (mul, sub, cmpv, mask):
            ctx.report(rule, key, fs[0].where, 'the value branch of Any<LastFail>::Consume does not store a done value '
                       '(exchange of an odd constant): a second value, or the last failure, sets the promise again')
            continue
        if None in (mul, sub, cmpv, val, mask):
            ctx.broken('Any<LastFail>: packed counter idiom not recognised (mul=%s sub=%s cmp=%s val=%s mask=%s)' % (
                mul, sub, cmpv, val, mask))
        ok = mul == sub == cmpv and (val & mask) != 0 and (sub & mask) == 0 and (mul & mask) == 0
        if not ok:
            ctx.report(rule, key, fs[0].where, 'packed counter constants disagree: initial %d*count, a failure '
                       'subtracts %d and is last when the old value == %d, a value stores %d, done-bit mask %d' % (
                           mul, sub, cmpv, val, mask))


def check_saved_error(ctx, fb, rule):
    cls = [c for c in strategies(fb, ('yaclib::when::Any',)).items() if c[1][0].cta and c[1][0].cta[0] in (
        '1', 'yaclib::FailPolicy::FirstFail')]
    if not cls:
        ctx.broken('Any<FirstFail> not instantiated')
    for name, fs in cls:
        key = 'R-SAVEDERR yaclib::when::Any<FirstFail>'
        ctx.instance(rule, key + ' :: ' + name[:150], None)
        for f in fs:
            reads = [n for n in f.own_nodes() if n['k'] == 'MemberExpr' and n.get('mn') == 'error']
            if f.n == 'Consume':
                for st, _ in WhenWalker(fb).run(f):
                    ev = st.events
                    for i, e in enumerate(ev):
                        if e[0] == 'write-error':
                            won = [x for x in ev[:i] if x[0] == 'election' and x[1].startswith('compare_exchange')
                                   and x[2] is True]
                            if not won:
                                other = [x for x in ev[:i] if x[0] == 'election']
                                ctx.report(rule, key, e[1],
                                           'the failure branch %s; it must be a compare-exchange FROM the empty state so '
                                           'that a failure never changes the word once a value (or an earlier failure) '
                                           'was recorded — otherwise the value election can be won a second time / two '
                                           'failures race on the saved error' % (
                                               'elects itself with an unconditional %s' % other[-1][1] if other else
                                               'writes the saved error without any election'),
                                           'instantiation: ' + f.full[:300])
                                return
            elif reads and 'dtor' not in f.flags and 'ctor' not in f.flags:
                ctx.report(rule, key, f.loc(reads[0]), 'the saved error is accessed outside Consume/destructor')
                return


# ---------------------------------------------------------------------------------------------------------------------
# R-POLICYFWD: the fail policy the caller selected is the policy of everything the entry point reaches
POLICY_ENUM = 'yaclib::FailPolicy'
POLICY_NAMES = {'0': 'None', '1': 'FirstFail', '2': 'LastFail'}


def check_policy_forward(ctx, fb, rule, entries, any_family):
    """Every function instantiation of the combinator layer that is parameterised by a FailPolicy (its own template
    arguments or those of its class, nested specialisations included — the extractor lists them as `pe`) must hand the
    SAME policy to every callee that is itself parameterised by one (`cpe` of the call / construct node).  A wrapper
    that drops the argument (the callee's default policy applies) or names another one compiles whenever the result
    type does not depend on the policy, and then completes the output at the wrong moment.
    `entries`: regex of the public entry points whose instantiations must be present (non-vacuity).
    `any_family`: True = only the WhenAny instantiations (strategy when::Any), False = only the others."""
    import re
    seen_entries = set()
    for f in fb.fn.values():
        if f.cfg is None or not f.pe or '/include/yaclib/' not in f.file:
            continue
        ident = ' '.join([f.qn, f.clsq] + list(f.fta) + list(f.cta))
        if bool(re.search(r'\bWhenAny\b|\bwhen::Any\b', ident)) != any_family:
            continue
        mine = {e.split('=')[1] for e in f.pe if e.split('=')[0] == POLICY_ENUM}
        if len(mine) != 1:
            continue
        p = next(iter(mine))
        sites = 0
        for n in f.own_nodes():
            theirs = {e.split('=')[1] for e in n.get('cpe', ()) if e.split('=')[0] == POLICY_ENUM}
            if not theirs:
                continue
            sites += 1
            if theirs != mine:
                ctx.report(rule, 'R-POLICYFWD %s -> %s' % (f.qn, n.get('cn') or n.get('cr') or '?'), f.loc(n),
                           '%s instantiated with FailPolicy::%s calls %s instantiated with FailPolicy::%s: the policy '
                           'the caller selected is not the one that decides when the output completes' % (
                               f.qn, POLICY_NAMES.get(p, p), n.get('cn') or n.get('cr') or 'a callee',
                               '/'.join(POLICY_NAMES.get(x, x) for x in sorted(theirs))),
                           'caller instantiation: %s' % f.full[:300])
        if sites:
            if re.search(entries, f.qn):
                seen_entries.add((f.qn, len(f.params), p))
            ctx.instance(rule, 'R-POLICYFWD %s/%d <%s>' % (f.qn, len(f.params), POLICY_NAMES.get(p, p)), None)
    return seen_entries


# ---------------------------------------------------------------------------------------------------------------------
# R-FORWARD: an input handed back as the output outside the strategy needs the policy's justification
class _WrapWalker(pathwalk.Walker):
    """paths of a public combinator wrapper; free helper templates of the same header are inlined.
    events: ('strategy', callee) a call of when::When / of a sibling overload; ('takecore', loc) the core of an input is
    taken out of its handle; ('ready', truth), ('hasvalue', truth), ('count-eq', constant, truth)"""
    loop_bound = 1
    max_paths = 20000

    def inline(self, fn, node, st):
        g = self.fb.fn.get(node.get('ck'))
        if g is None or g.cfg is None or st.depth >= 2:
            return None
        if not g.cls and g.file == fn.file and g.qn != fn.qn and not g.qn.startswith('yaclib::when::'):
            return g
        return None

    def on_node(self, fn, n, st):
        if n['k'] not in ('CallExpr', 'CXXMemberCallExpr'):
            return
        cn = n.get('cn', '')
        if cn == 'yaclib::when::When' or (st.depth == 0 and cn == fn.qn):
            st.events.append(('strategy', cn))
        elif cn.split('::')[-1] == 'GetCore':
            st.events.append(('takecore', fn.loc(n)))

    def on_edge(self, fn, ci, taken, st):
        c = fn.sn(ci)
        neg = False
        while c is not None and c['k'] == 'UnaryOperator' and c['op'] == '!':
            neg = not neg
            c = fn.sn(c['ch'][0])
        if c is None:
            return
        truth = taken != neg
        if c['k'] == 'BinaryOperator' and c['op'] in ('==', '!='):
            a, b = fn.sn(c['ch'][0]), fn.sn(c['ch'][1])
            for x, y in ((a, b), (b, a)):
                if x is not None and y is not None and y.get('v') is not None and x['k'] == 'DeclRefExpr' and \
                        x.get('id') in fn.params:
                    st.events.append(('count-eq', y['v'], truth == (c['op'] == '==')))
            return
        names = [fn.nodes[j].get('cn', '') for j in fn.deep_descendants(c['i'])] + [c.get('cn', '')]
        if any(x.split('::')[-1] == 'Ready' for x in names) and not any('operator bool' in x for x in names):
            st.events.append(('ready', truth))
        if any(x.startswith('yaclib::Result::operator bool') or x == 'yaclib::Result::operator bool' for x in names):
            st.events.append(('hasvalue', truth))


def check_any_forward(ctx, fb, rule):
    """R-FORWARD (WhenAny wrappers): a path that takes the core of an input and returns without going through
    when::When / the sibling overload makes that input the output.  That is the property's outcome only when
      * there is exactly one input (count == 1), or
      * the policy is None and the input is Ready (whatever completes first), or
      * the input is Ready with a value (first value wins under every policy);
    under FirstFail / LastFail a failed input decides nothing while other inputs can still produce a value."""
    n = 0
    for f in fb.fn.values():
        if f.qn != 'yaclib::WhenAny' or f.cfg is None or '/include/yaclib/' not in f.file:
            continue
        pol = {e.split('=')[1] for e in f.pe if e.split('=')[0] == POLICY_ENUM}
        if len(pol) != 1:
            continue
        p = POLICY_NAMES.get(next(iter(pol)), '?')
        key = 'R-FORWARD yaclib::WhenAny/%d <%s>' % (len(f.params), p)
        try:
            res = _WrapWalker(fb).run(f)
        except pathwalk.TooManyPaths as e:
            ctx.broken('%s: %s' % (f.full[:120], e))
        ctx.instance(rule, key, dict(paths=len(res)))
        n += 1
        for st, _ in res:
            ev = st.events
            take = [e for e in ev if e[0] == 'takecore']
            if not take or any(e[0] == 'strategy' for e in ev):
                continue
            single = ('count-eq', 1, True) in ev
            ready = ('ready', True) in ev
            value = ('hasvalue', True) in ev
            if single or (ready and (p == 'None' or value)):
                continue
            ctx.report(rule, key, take[0][1], 'an input is handed back as the output of WhenAny<%s> without going '
                       'through the strategy, on a path that established neither count == 1 nor that this input is '
                       'Ready%s: %s' % (p, '' if p == 'None' else ' with a value',
                                       'a failed input decides nothing under this policy while another input can '
                                       'still deliver a value' if ready else 'its outcome is not known yet'),
                       'instantiation: ' + f.full[:300])
            break
    return n


# ---------------------------------------------------------------------------------------------------------------------
# R-OUTCOME: the output is the outcome of an input
def check_outcome(ctx, fb, rule, strategy_names):
    """Every Promise::Set in a strategy hands on something taken from an input: in Consume an accessor
    (Value / Error / Exception) of the consumed Result, in the destructor an accessor of the saved failure or the
    collected values (a member).  A Set of anything else (a fresh StopTag, a default value) replaces the input's
    outcome; that the accessor matches the state is R-ACCESSOR's business."""
    n = 0
    for cls, fs in sorted(strategies(fb, strategy_names).items()):
        for f in fs:
            sets = [c for c in f.calls() if c['cn'] == SET]
            if not sets:
                continue
            key = 'R-OUTCOME %s::%s' % (f.clsq, f.n)
            ctx.instance(rule, key + ' :: ' + f.full[:140], dict(sets=len(sets)))
            n += 1
            for c in sets:
                if not c.get('args'):
                    continue  # Set() of a void promise: the value is Unit
                i = c['args'][0]
                for _ in range(8):
                    i = f.strip(i)
                    m = f.nodes[i]
                    if m['k'] == 'CallExpr' and m.get('cn') in ('std::move', 'std::forward', 'std::as_const') and \
                            m.get('args'):
                        i = m['args'][0]
                        continue
                    if m['k'] in ('MaterializeTemporaryExpr', 'CXXBindTemporaryExpr', 'ExprWithCleanups') and \
                            m.get('ch'):
                        i = m['ch'][0]
                        continue
                    break
                m = f.nodes[i]
                src = None
                if m['k'] == 'CXXMemberCallExpr' and m['cn'].split('::')[-1] in ('Value', 'Error', 'Exception', 'Ok') \
                        and m.get('obj') is not None:
                    o = f.nodes[f.resolve(m['obj'])] if f.resolve(m['obj']) is not None else None
                    for _ in range(6):
                        if o is not None and o['k'] == 'CallExpr' and o.get('cn') in (
                                'std::move', 'std::forward', 'std::as_const') and o.get('args'):
                            o = f.sn(o['args'][0])
                            continue
                        if o is not None and o['k'] == 'DeclRefExpr' and o.get('id') in f.single_defs:
                            # const auto& result = core.Get();  ->  the input core's stored Result
                            o = f.nodes[f.resolve(o['i'])] if f.resolve(o['i']) is not None else None
                            continue
                        break
                    if o is not None and o['k'] == 'DeclRefExpr' and o.get('id') in f.params:
                        src = 'input'
                    elif o is not None and o['k'] == 'MemberExpr':
                        src = 'member'
                    elif o is not None and o['k'] == 'CXXMemberCallExpr':
                        src = 'input'  # core.Get() / Retire() of an input core
                elif m['k'] == 'MemberExpr' or (m['k'] == 'DeclRefExpr' and m.get('id') not in (None,)):
                    src = 'member'  # the collected values / a local built from them
                elif m['k'] in ('CXXConstructExpr', 'CXXTemporaryObjectExpr') and m.get('args') and \
                        f.sn(m['args'][0]) is not None and f.sn(m['args'][0]).get('dn') == 'std::in_place':
                    src = 'member'  # Result{std::in_place}: the value of a void output
                if src is None:
                    ctx.report(rule, key, f.loc(c), 'the output is set to %s, which is not taken from an input (an '
                               'accessor of the consumed Result, the saved failure or the collected values): the '
                               'combinator completes with an outcome none of its inputs had' % f.text(c['args'][0])[:60],
                               'instantiation: ' + f.full[:300])
                    break
    return n


def check_firstvalue(ctx, fb, rule):
    """Any<FirstFail>: a value wins unless a value has won already — the value branch elects itself by writing the
    value state with an RMW and wins iff the OLD state differs from the value state (a failure saved earlier must not
    keep a later value out)."""
    cls = [c for c in strategies(fb, ('yaclib::when::Any',)).items() if c[1][0].cta and c[1][0].cta[0] in (
        '1', 'yaclib::FailPolicy::FirstFail')]
    for name, fs in cls:
        for f in fs:
            if f.n != 'Consume':
                continue
            key = 'R-FIRSTVALUE yaclib::when::Any<FirstFail>::Consume'
            ctx.instance(rule, key + ' :: ' + f.full[:140], None)
            ex = [n for n in f.own_nodes() if n.get('cn', '').endswith('::exchange') and n.get('args')]
            if len(ex) != 1:
                ctx.broken('Any<FirstFail>: value election idiom not recognised (%d exchanges)' % len(ex))
            stored = f.sn(ex[0]['args'][0]).get('v')
            cmpv = compared_constant(f, ex[0]['i'])
            par = f.parents.get(ex[0]['i'])
            while par is not None and f.nodes[par]['k'] in ('ImplicitCastExpr', 'ParenExpr'):
                par = f.parents.get(par)
            op = f.nodes[par]['op'] if par is not None and f.nodes[par]['k'] == 'BinaryOperator' else None
            if stored is None or cmpv is None or op is None:
                ctx.broken('Any<FirstFail>: value election idiom not recognised (stored=%s compared=%s)' % (stored,
                                                                                                          cmpv))
            if not (cmpv == stored and op == '!='):
                ctx.report(rule, key, f.loc(ex[0]), 'the value branch stores state %s and wins when the old state %s %s: '
                           'under FirstFail the first VALUE wins even if a failure was saved before it (the old state '
                           'must only be compared with the value state itself)' % (stored, op, cmpv),
                           'instantiation: ' + f.full[:300])


# ---------------------------------------------------------------------------------------------------------------------
# R-INDEX: the callback registered for input I carries index I (ordered strategies: values land in their own slot)
def check_callback_index(ctx, fb, rule):
    """StaticCombinator::GetCallbackHelper<Index, Core> (the callback SetCore<Index> registers on input number Index):
    on the ordered path — the element is taken from `callbacks` itself, the strategy stores values by index — the
    element's type is CombinatorCallback<…, Index> for exactly this Index.  Looking the callback up by anything else
    (the core type, say) compiles whenever two inputs have the same core type and makes the later input complete
    through the earlier input's callback: its value lands in the wrong slot, its own slot stays empty."""
    import re
    n = 0
    # storage whose elements all carry index 0 is the unordered one (one node per core type / per shared input),
    # whatever member it lives in: the callbacks of an ordered strategy carry their input's number
    carries = {}
    for f in fb.fn.values():
        if f.n == 'GetCallbackHelper' and f.clsq == 'yaclib::when::StaticCombinator' and f.cfg is not None and f.fta:
            m = re.search(r',\s*(\d+)>\s*&?\s*$', f.ret)
            if m is not None and m.group(1) != '0':
                carries[f.cls] = True
    for f in fb.fn.values():
        if f.n != 'GetCallbackHelper' or f.clsq != 'yaclib::when::StaticCombinator' or f.cfg is None or not f.fta:
            continue
        gets = [c for c in f.own_nodes() if c.get('cn') == 'std::get' and c.get('args')]
        if len(gets) != 1:
            ctx.broken('R-INDEX: GetCallbackHelper of %s: %d std::get calls' % (f.cls[:80], len(gets)))
        op = f.sn(gets[0]['args'][0])
        ordered = op is not None and op['k'] == 'MemberExpr' and op.get('mn') == 'callbacks' and \
            (carries.get(f.cls) or f.fta[0] == '0')
        if not ordered:
            continue
        key = 'R-INDEX StaticCombinator::GetCallbackHelper (ordered)'
        m = re.search(r',\s*(\d+)>\s*&?\s*$', f.ret)
        ctx.instance(rule, key + ' <%s> :: %s' % (f.fta[0], f.cls[:90]), None)
        n += 1
        if m is None:
            ctx.broken('R-INDEX: callback type of %s not recognised (%s)' % (f.full[:80], f.ret[-60:]))
        if m.group(1) != f.fta[0]:
            ctx.report(rule, key, f.where, 'input number %s registers the callback that carries index %s: its value / '
                       'Result is stored in slot %s and its own slot stays empty' % (f.fta[0], m.group(1), m.group(1)),
                       'instantiation: ' + f.full[:300])
    return n


# ---------------------------------------------------------------------------------------------------------------------
# R-ONENODE: a callback node is registered on at most one shared input
def check_one_node(ctx, fb, rule):
    """A SharedCore links its subscribers through InlineCore::next: one callback node can sit on one shared core's list
    only.  (a) StaticCombinator::GetCallbackHelper<Index, Core>: within one combinator instantiation two different
    shared inputs never get the same element of the callback storage; (b) SingleCombinator — which registers ITSELF
    on every input — is instantiated over a shared core type only for a single input, and never through the
    iterator form (run-time count)."""
    import re
    n = 0
    groups = {}
    for f in fb.fn.values():
        if f.n != 'GetCallbackHelper' or f.clsq != 'yaclib::when::StaticCombinator' or f.cfg is None or len(f.fta or []) < 2:
            continue
        gets = [c for c in f.own_nodes() if c.get('cn') == 'std::get' and c.get('args')]
        if len(gets) != 1:
            ctx.broken('R-ONENODE: GetCallbackHelper of %s: %d std::get calls' % (f.cls[:80], len(gets)))
        ident = (f.text(gets[0]['args'][0]), (gets[0].get('cta') or ['?'])[0])
        groups.setdefault(f.cls, {}).setdefault(ident, {})[f.fta[0]] = (f, 'SharedCore<' in f.fta[1])
    # the node an input registers is typed on that input's own core type: the callback down-casts the completing core
    # to its Core argument before it retires it — a node of another input's type reads the result as the wrong type
    import re as _re
    for f in fb.fn.values():
        if f.n != 'GetCallbackHelper' or f.clsq != 'yaclib::when::StaticCombinator' or f.cfg is None or len(f.fta or []) < 2:
            continue
        m = _re.search(r',\s*(\d+)>\s*&?\s*$', f.ret)
        if m is None:
            continue
        head = f.ret[:m.start()]
        cut = max(head.rfind(', yaclib::detail::UniqueCore<'), head.rfind(', yaclib::detail::SharedCore<'))
        if cut < 0:
            continue
        node_core = head[cut + 2:].strip()
        key = 'R-ONENODE callback core type'
        n += 1
        ctx.instance(rule, key + ' <%s> :: %s' % (f.fta[0], f.cls[:100]), None)
        if node_core.replace(' ', '') != f.fta[1].replace(' ', ''):
            ctx.report(rule, key, f.where, 'input number %s (a %s) registers a callback node typed on %s: the completing '
                       'core is down-cast to the wrong type and its Result is read as a value of another input\'s type' % (
                           f.fta[0], f.fta[1][:70], node_core[:70]), 'instantiation: ' + f.full[:300])
    for cls, idents in sorted(groups.items()):
        key = 'R-ONENODE StaticCombinator callbacks'
        n += 1
        ctx.instance(rule, key + ' :: ' + cls[:140], dict(slots=len(idents)))
        for ident, users in sorted(idents.items()):
            shared = sorted(i for i, (f, sh) in users.items() if sh)
            if shared and len(users) > 1:
                f = users[shared[0]][0]
                ctx.report(rule, key, f.where, 'inputs number %s register the same callback node (%s element %s) and %s '
                           'shared: the second push onto a shared core\'s subscriber list overwrites the node\'s next '
                           'link, so subscribers of the other input are cut off from their list or spliced into a foreign '
                           'one' % (', '.join(sorted(users)), ident[0], ident[1],
                                    'both are' if len(shared) > 1 else 'one is'), 'combinator: ' + cls[:300])
                break
    for f in fb.fn.values():
        if f.n != 'Set' or f.clsq != 'yaclib::when::SingleCombinator' or f.cfg is None:
            continue
        core = (f.cta or ['', ''])[1] if len(f.cta or []) > 1 else ''
        key = 'R-ONENODE SingleCombinator::Set'
        n += 1
        static_inputs = [p for p in f.params if 'Core<' in f.locals[p]['t']]
        iterator_form = not static_inputs
        ctx.instance(rule, key + ' :: ' + f.full[:140], dict(core=core[:80], inputs='run-time' if iterator_form else
                                                              len(static_inputs)))
        if 'SharedCore<' in core and (iterator_form or len(static_inputs) > 1):
            ctx.report(rule, key, f.where, 'the single-node combinator registers itself on %s shared inputs: one node '
                       'cannot sit on several shared cores\' subscriber lists' % (
                           'a run-time number of' if iterator_form else len(static_inputs)),
                       'instantiation: ' + f.full[:300])
    return n


# ---------------------------------------------------------------------------------------------------------------------
# R-HANDOFF: a combinator is not touched after its last input has been registered
def check_handoff_loops(ctx, fb, rule):
    """A combinator is created with one reference per input and none for the thread that runs Set(): once the last
    input has been registered (SetCallback) another thread can complete every input and delete the combinator.  In a
    registration loop the object may therefore be touched only inside the body, while an input is still unregistered:
    the loop condition, the increment and everything after the loop must work on locals."""
    n = 0
    for f in sorted(fb.fn.values(), key=lambda f: f.full):
        if f.n != 'Set' or not f.clsq.startswith('yaclib::when::') or f.cfg is None:
            continue
        for loop in [x for x in f.own_nodes() if x['k'] in ('ForStmt', 'WhileStmt', 'DoStmt')]:
            body = loop.get('body')
            if body is None:
                continue
            inside = set(f.descendants(loop['i']))
            if not any(f.nodes[d].get('cn', '').split('::')[-1] == 'SetCallback' for d in f.descendants(body)):
                continue
            key = 'R-HANDOFF %s::Set registration loop' % f.clsq
            n += 1
            ctx.instance(rule, key + ' :: ' + f.full[:120], None)
            bodyset = set(f.descendants(body)) | {body}
            ctl = [d for d in inside if d not in bodyset and f.nodes[d]['k'] == 'CXXThisExpr']
            # the init statement runs before the first registration
            init = loop['ch'][0] if loop['k'] == 'ForStmt' and loop.get('ch') and loop['ch'][0] is not None and \
                loop['ch'][0] >= 0 else None
            if init is not None:
                initset = set(f.descendants(init)) | {init}
                ctl = [d for d in ctl if d not in initset]
            after = [x['i'] for x in f.own_nodes() if x['k'] == 'CXXThisExpr' and x['i'] > loop['i']]
            if ctl:
                ctx.report(rule, key, f.loc(f.nodes[ctl[0]]), 'the loop condition / increment reads a member of the '
                           'combinator: after the last input was registered the combinator may already have been '
                           'deleted by the thread that completed it (use after free, unordered with the delete)',
                           'instantiation: ' + f.full[:300])
            elif after:
                ctx.report(rule, key, f.loc(f.nodes[after[0]]), 'the combinator is touched after the registration loop: '
                           'it may already have been deleted by the thread that completed the last input',
                           'instantiation: ' + f.full[:300])
    return n
