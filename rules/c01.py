"""C01 — a fulfilled Promise is delivered exactly once, intact (structural clauses; see DESIGN.md 4/C01)."""
from rules import lib_core, lib_order, lib_ready, lib_shape

CB = 'yaclib::detail::BaseCore::_callback'
FILES = ('include/yaclib/algo/detail/', 'src/algo/', 'include/yaclib/async/promise.hpp', 'include/yaclib/async/future.hpp',
         'include/yaclib/async/connect.hpp', 'include/yaclib/async/shared_promise.hpp', 'include/yaclib/lazy/',
         'include/yaclib/async/detail/', 'include/yaclib/algo/')


def run(ctx):
    fbs = ctx.facts(['K17', 'K20'], kinds=('probe', 'lib'), only=r'p_async\.cpp$|src/', tests=r'/test/',
                    quick_tests=r'unit/async/(future|connect)\.cpp')
    rr = ctx.rule('R-READY', 'readiness predicates are false in the abstract states Empty and Callback of the '
                  'completion word and true in Result', minimum=4)
    rw = ctx.rule('R-WORD', 'every operation on BaseCore::_callback is a role of its protocol (kResult only by an '
                  'exchange, a callback only by CAS or the pre-publication store, withdraw never over kResult)',
                  minimum=10)
    ro = ctx.rule('R-ORDER', 'role minimum orders of _callback', minimum=10)
    rc = ctx.rule('R-CASKIND', 'unique registration CAS is strong / weak only in a retry loop', minimum=3)
    rp = ctx.rule('R-PUBLISH', 'Store precedes SetResult on every path', minimum=20)
    rn = ctx.rule('R-NODISCARD', 'results of registration / publication / reset calls are used', minimum=40)
    rd = ctx.rule('R-DISPATCH.inline', 'inline dispatch exactly on the not-registered / callback-present edge',
                  minimum=5)
    rt = ctx.rule('R-DTOR', 'destructor protocol of Promise / FutureBase / Detach', minimum=6)
    rcn = ctx.rule('R-CONNECT', 'Connect: registered => released, not registered => Set from the result', minimum=4)
    rcm = ctx.rule('R-COMMIT', 'Promise::Set constructs the Result (may throw) before it gives the handle away', minimum=6)
    rsh = ctx.rule('R-SHAPE', 'SetResultImpl runs the registered callback(s) exactly once and loses none (shape analysis, all list lengths)', minimum=2)
    rhm = ctx.rule('R-HANDLEMOVE', '(shared with C03) move-assigning over a Promise / Future never releases the state it held '
                   'by a bare DecRef: the old state leaves in the right-hand side and meets its destructor (a dropped '
                   'Promise completes its Future with StopError)', minimum=3)
    rgw = ctx.rule('R-GETWAIT', 'Future::Get reads the stored Result only after Wait(*this) / on the true edge of Ready()',
                   minimum=2)
    rcf = ctx.rule('R-CASFRESH', 'every retry of a compare-exchange re-tests the refreshed expected value against the '
                   'sentinels the first attempt tested', minimum=0)
    rsa = ctx.rule('R-SETARGS', 'Set(args...) of the promise stores exactly its arguments, forwarded in order; Set() stores the value with std::in_place', minimum=3)
    for cfg, fb in sorted(fbs.items()):
        from rules import lib_promise
        if (ctx.guard(lambda: lib_promise.check_set_args(ctx, fb, rsa, ('yaclib::Promise',))) or 0) < 3:
            ctx.guard(lambda: ctx.broken('R-SETARGS: Set of the promise is not instantiated in %s' % cfg))
        ctx.guard(lambda: lib_order.check_cas_fresh(ctx, fb, rcf, lambda f: 'BaseCore' in f.qn))
        ctx.guard(lambda: lib_shape.check(ctx, fb, rsh, lambda qn: 'SetResultImpl' in qn, 2))
        ctx.guard(lambda: lib_core.check_commit(ctx, fb, rcm))
        from rules import lib_iptr
        ctx.guard(lambda: lib_iptr.check_handle_move(ctx, fb, rhm))
        if (ctx.guard(lambda: lib_core.check_get_wait(ctx, fb, rgw, ('yaclib::FutureBase',))) or 0) < 2:
            ctx.guard(lambda: ctx.broken('R-GETWAIT: FutureBase::Get not instantiated'))
        seen = set()
        for f in sorted(fb.fn.values(), key=lambda f: f.full):
            if f.qn == 'yaclib::FutureBase::Ready':
                k = '%s %s' % (cfg, f.qn)
                if k not in seen:
                    seen.add(k)
                    ctx.guard(lambda: lib_ready.check(ctx, fb, rr, f, 'R-READY ' + f.qn + ' [' + cfg + ']'))
            elif f.qn == 'yaclib::FutureBase::Get' and 'const' in f.flags and f.ret.endswith('*'):
                k = '%s %s const&' % (cfg, f.qn)
                if k not in seen:
                    seen.add(k)
                    ctx.guard(lambda: lib_ready.check(ctx, fb, rr, f, 'R-READY ' + f.qn + ' const& [' + cfg + ']', pointer=True))
        if len(seen) < 2:
            ctx.broken('FutureBase::Ready / Get() const& not instantiated in %s' % cfg)
        ctx.guard(lambda: lib_order.check(ctx, fb, cfg, [CB], rw, ro, rc))
        ctx.guard(lambda: lib_core.check_publish(ctx, fb, rp))
        ctx.guard(lambda: lib_core.check_nodiscard(ctx, fb, rn, lambda f: any(facts_rel(f, ctx).startswith(p) for p in FILES)))
        ctx.guard(lambda: lib_core.check_inline_dispatch(ctx, fb, rd))
        ctx.guard(lambda: lib_core.check_dtors(ctx, fb, rt))
        ctx.guard(lambda: lib_core.check_connect(ctx, fb, rcn))


def facts_rel(f, ctx):
    import os
    return os.path.relpath(f.file, ctx.root) if f.file.startswith(ctx.root) else f.file
