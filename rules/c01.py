"""C01 — a fulfilled Promise is delivered exactly once, intact (structural clauses; see DESIGN.md 4/C01)."""
from rules import lib_ready


def run(ctx):
    fbs = ctx.facts(['K17', 'K20'], kinds=('probe', 'lib'), only=r'p_async\.cpp$|src/')
    rr = ctx.rule('R-READY', 'readiness predicates are false in the abstract states Empty and Callback of the '
                  'completion word and true in Result', minimum=4)
    for cfg, fb in sorted(fbs.items()):
        seen = set()
        for f in sorted(fb.fn.values(), key=lambda f: f.full):
            if f.qn == 'yaclib::FutureBase::Ready':
                k = '%s %s' % (cfg, f.qn)
                if k not in seen:
                    seen.add(k)
                    lib_ready.check(ctx, fb, rr, f, 'R-READY ' + f.qn + ' [' + cfg + ']')
            elif f.qn == 'yaclib::FutureBase::Get' and 'const' in f.flags and f.ret.endswith('*'):
                k = '%s %s const&' % (cfg, f.qn)
                if k not in seen:
                    seen.add(k)
                    lib_ready.check(ctx, fb, rr, f, 'R-READY ' + f.qn + ' const& [' + cfg + ']', pointer=True)
        if len(seen) < 2:
            ctx.broken('FutureBase::Ready / Get() const& not instantiated in %s' % cfg)
