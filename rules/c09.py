"""C09 — WhenAll / Join complete once, at the right moment, with inputs in input order (structural clauses)."""
from rules import lib_accessor, lib_core, lib_order, lib_when

WHEN_FILES = ['include/yaclib/async/when/all.hpp', 'include/yaclib/async/when/all_tuple.hpp',
              'include/yaclib/async/when/join.hpp', 'include/yaclib/async/when/when.hpp']
STRATS = ('yaclib::when::All', 'yaclib::when::AllTuple', 'yaclib::when::Join')

EXEMPT = {
    ('yaclib::when::All::~All', 'Value'):
        'All<FirstFail>::~All reads Retire().Value() only under _p.Valid(): the promise is still valid iff no input '
        'failed (every failing input wins or loses the _done election, and the winner consumes _p)',
}


def run(ctx):
    fbs = ctx.facts(['K17', 'K20'], kinds=('probe',), only=r'p_when\.cpp$', tests=r'/test/',
                    quick_tests=r'unit/algo/(when_all|when_all_tuple|join|when)\.cpp|example/async/when_all\.cpp')
    ra = ctx.rule('R-ACCESSOR', 'every Result accessor call sees exactly the matching state on every CFG path',
                  minimum=12)
    rs = ctx.rule('R-SETONCE', 'the output promise is set at most once per path, only after winning an RMW election '
                  '(or in the destructor under Valid())', minimum=12)
    rcb = ctx.rule('R-CALLBACK', 'each per-input callback: one Consume then one combinator DecRef', minimum=20)
    rsb = ctx.rule('R-SIBLING', 'the already-complete registration branch does what the callback does', minimum=10)
    rcn = ctx.rule('R-COUNT', 'combinator reference count == number of inputs; empty range returns early', minimum=20)
    rw = ctx.rule('R-WORD', 'election flags are only loaded or modified by an RMW', minimum=6)
    ro = ctx.rule('R-ORDER', 'election flag orders', minimum=6)
    rc = ctx.rule('R-CASKIND', 'election CAS kinds', minimum=0)
    rnr = ctx.rule('R-NODEREUSE', 'one callback object is registered on at most one shared core (intrusive next link)',
                   minimum=4)
    ctx.assume('a Result delivered to a combinator is never Empty')
    rl = ctx.rule('R-LOOPCALLER', 'Here() of the combinator callbacks returns nullptr (they are not cores: nothing may be '
                  'handed back to the Loop with them as the caller)', minimum=20)
    rmv = ctx.rule('R-MOVEOUT.site', 'the strategies take input values through Retire(); no move-out of a possibly '
                   'shared input core', minimum=0)
    rix = ctx.rule('R-INDEX', 'ordered static combinators: input number I registers the callback carrying index I', minimum=6)
    rout = ctx.rule('R-OUTCOME', 'every Promise::Set of a strategy hands on an accessor of the consumed Result or the '
                    'collected values', minimum=6)
    rpf = ctx.rule('R-POLICYFWD', 'a function instantiated with a FailPolicy hands the same policy to every callee that '
                   'is parameterised by one (entry point -> when::When -> strategy class)', minimum=12)
    ron = ctx.rule('R-ONENODE', 'a combinator callback node is registered on at most one shared input (a shared core links its subscribers through the node\'s next pointer)', minimum=4)
    rho = ctx.rule('R-HANDOFF', 'a When* combinator is not touched after its last input has been registered: the registration loop\'s condition / increment and the code after it work on locals only', minimum=2)
    for cfg, fb in sorted(fbs.items()):
        from rules import lib_when as _lw
        if (ctx.guard(lambda: _lw.check_one_node(ctx, fb, ron)) or 0) < 2:
            ctx.guard(lambda: ctx.broken('R-ONENODE: no StaticCombinator / SingleCombinator instantiation found'))
        from rules import lib_when as _lw2, lib_handoff as _lh
        ctx.guard(lambda: _lh.check_handoff_helpers(ctx, fb, rho))
        if (ctx.guard(lambda: _lw2.check_handoff_loops(ctx, fb, rho)) or 0) < 1:
            ctx.guard(lambda: ctx.broken('R-HANDOFF: no registration loop of a When* combinator found'))
        ctx.guard(lambda: lib_when.check_policy_forward(ctx, fb, rpf, r'^yaclib::(WhenAll|Join)$', False))
        ctx.guard(lambda: lib_core.check_move_sites(ctx, fb, rmv, lambda f: 'async/when' in f.file or f.file.endswith('detail/shared_core.hpp') or f.file.endswith('detail/unique_core.hpp')))
        ctx.guard(lambda: lib_core.check_loop_caller(ctx, fb, rl, lambda f: f.clsq.startswith('yaclib::when::')))
        fns = lib_accessor.functions_with_accessors(fb, WHEN_FILES)
        if not fns:
            ctx.broken('no accessor call found in the combinator strategies (%s)' % cfg)
        ctx.guard(lambda: lib_accessor.check(ctx, fb, ra, fns, EXEMPT))
        ctx.guard(lambda: lib_core.check_node_reuse(ctx, fb, rnr, lambda f: 'async/when' in f.file))
        ctx.guard(lambda: lib_when.check_setonce(ctx, fb, rs, STRATS))
        ctx.guard(lambda: lib_when.check_callbacks(ctx, fb, rcb))
        ctx.guard(lambda: lib_when.check_sibling(ctx, fb, rsb))
        ctx.guard(lambda: lib_when.check_count(ctx, fb, rcn))
        ctx.guard(lambda: lib_when.check_outcome(ctx, fb, rout, STRATS))
        if (ctx.guard(lambda: lib_when.check_callback_index(ctx, fb, rix)) or 0) < 6:
            ctx.guard(lambda: ctx.broken('R-INDEX: no ordered StaticCombinator instantiation with a repeated input type'))
        lib_order.check(ctx, fb, cfg, ['yaclib::when::All::_done', 'yaclib::when::AllTuple::_done',
                                       'yaclib::when::Join::_done'], rw, ro, rc)
