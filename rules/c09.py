"""C09 — WhenAll / Join.  (rules are added incrementally; see DESIGN.md section 4/C09)"""
from rules import lib_accessor

WHEN_FILES = ['include/yaclib/async/when/all.hpp', 'include/yaclib/async/when/all_tuple.hpp',
              'include/yaclib/async/when/join.hpp', 'include/yaclib/async/when/when.hpp']

EXEMPT = {
    ('yaclib::when::All::~All', 'Value'):
        'All<FirstFail>::~All reads Retire().Value() only under _p.Valid(): the promise is still valid iff no input '
        'failed (every failing input wins or loses the _done election, and the winner consumes _p)',
}


def run(ctx):
    fbs = ctx.facts(['K17', 'K20'], kinds=('probe',), only=r'p_when\.cpp$')
    ra = ctx.rule('R-ACCESSOR', 'every Result accessor call sees exactly the matching state on every CFG path',
                  minimum=12)
    ctx.assume('a Result delivered to a combinator is never Empty')
    for cfg, fb in sorted(fbs.items()):
        fns = lib_accessor.functions_with_accessors(fb, WHEN_FILES)
        if not fns:
            ctx.broken('no accessor call found in the combinator strategies (%s)' % cfg)
        lib_accessor.check(ctx, fb, ra, fns, EXEMPT)
