"""R-WAITFORMS — the public Wait / WaitFor / WaitUntil overloads and WaitIterator's dispatch wait for exactly the
futures they were given and answer exactly what the core answered.

  variadic      every future parameter contributes its handle to the one WaitCore call; the result is returned as is
  (begin, end)  the count handed to WaitIterator is `end - begin` (later iterator parameter minus the earlier one, the
                earlier one being the start that is passed on)
  (begin, n)    the count parameter is passed on unchanged
  WaitIterator  the single-future shortcut (WaitCore with one handle) runs only under `count == 1`; `return true`
                without waiting only under `count == 0`
"""


def _strip(fn, i):
    n = fn.sn(i)
    while n is not None and n['k'] in ('ImplicitCastExpr', 'MaterializeTemporaryExpr', 'ExprWithCleanups', 'ParenExpr',
                                       'CXXBindTemporaryExpr', 'CXXStaticCastExpr', 'CStyleCastExpr',
                                       'CXXFunctionalCastExpr') and n.get('ch'):
        n = fn.sn(n['ch'][0])
    return n


def _ref(fn, i):
    n = _strip(fn, i)
    for _ in range(3):      # a copy of an iterator / handle: Iterator{begin}
        if n is not None and n['k'] in ('CXXConstructExpr', 'CXXTemporaryObjectExpr') and len(n.get('args', [])) == 1:
            n = _strip(fn, n['args'][0])
    return n['id'] if n is not None and n['k'] == 'DeclRefExpr' and n.get('id') is not None else None


def check_wait_forms(ctx, fb, rule):
    n = 0
    for f in sorted(fb.fn.values(), key=lambda f: f.full):
        if f.cfg is None:
            continue
        if f.qn in ('yaclib::Wait', 'yaclib::WaitFor', 'yaclib::WaitUntil'):
            key = 'R-WAITFORMS %s' % f.qn
            outer = f
            bad_hop = None
            for _ in range(2):
                calls = [c for c in f.calls() if c['cn'] in ('yaclib::detail::WaitCore', 'yaclib::detail::WaitIterator')]
                if calls:
                    break
                # a forwarding helper (detail::WaitTimed(timeout, fs...)): every parameter handed on in order, the
                # answer returned as is — then the helper is judged in the wrapper's place
                hops = [c for c in f.calls() if c['cn'].startswith('yaclib::detail::') and
                        fb.fn.get(c.get('ck')) is not None and fb.fn[c['ck']].cfg is not None]
                if len(hops) != 1 or [_ref(f, a) for a in hops[0].get('args', [])] != list(f.params):
                    break
                if f.ret != 'void':
                    rets = [x for x in f.own_nodes() if x['k'] == 'ReturnStmt' and x.get('ch')]
                    if len(rets) != 1 or (_strip(f, rets[0]['ch'][0]) or {}).get('i') != hops[0]['i']:
                        bad_hop = f
                        break
                f = fb.fn[hops[0]['ck']]
            n += 1
            ctx.instance(rule, key + ' :: ' + outer.full[:140], None)
            if bad_hop is not None:
                ctx.report(rule, key, bad_hop.where, 'the answer of the timed wait is not the answer of the wait core: '
                           '"true" no longer means that every listed future is ready', 'instantiation: ' + outer.full[:300])
                continue
            if len(calls) != 1:
                ctx.broken('R-WAITFORMS: %s does not forward to exactly one WaitCore / WaitIterator call (%d)' % (
                    f.full[:120], len(calls)))
            c = calls[0]
            if f.ret != 'void':
                rets = [x for x in f.own_nodes() if x['k'] == 'ReturnStmt' and x.get('ch')]
                if len(rets) != 1 or (_strip(f, rets[0]['ch'][0]) or {}).get('i') != c['i']:
                    ctx.report(rule, key, f.where, 'the answer of the timed wait is not the answer of the wait core: '
                               '"true" no longer means that every listed future is ready', 'instantiation: ' + f.full[:300])
                    continue
            args = c['args']
            timed = 0 if f.qn == 'yaclib::Wait' else 1
            if c['cn'].endswith('WaitCore'):
                futs = [p for p in f.params[timed:]]
                used = set()
                for a in args[1:]:
                    m = _strip(f, a)
                    if m is not None and m['k'] == 'CXXMemberCallExpr' and m['cn'].split('::')[-1] == 'GetHandle' and \
                            m.get('obj') is not None:
                        r = _ref(f, m['obj'])
                        if r is not None:
                            used.add(r)
                if used != set(futs) or len(args) - 1 != len(futs):
                    ctx.report(rule, key, f.loc(c), 'the wait core is given %d handles for %d listed futures' % (
                        len(args) - 1, len(futs)), 'instantiation: ' + f.full[:300])
            else:
                its = f.params[timed:]
                if len(args) != 3 or len(its) != 2:
                    ctx.broken('R-WAITFORMS: unexpected iterator form %s' % f.full[:120])
                start = _ref(f, args[1])
                cnt = _strip(f, args[2])
                second_is_count = f.locals[its[1]]['t'].replace('const ', '').strip() in (
                    'std::size_t', 'size_t', 'unsigned long', 'unsigned long long')
                ok = start == its[0]
                if second_is_count:
                    ok = ok and cnt is not None and cnt['k'] == 'DeclRefExpr' and cnt.get('id') == its[1]
                else:
                    ok = ok and cnt is not None and cnt['k'] in ('BinaryOperator', 'CXXOperatorCallExpr') and \
                        cnt.get('op') == '-' and [_ref(f, x) for x in (cnt.get('args') or cnt['ch'])] == [its[1], its[0]]
                if not ok:
                    ctx.report(rule, key, f.loc(c), 'the range handed to the wait core is not the range that was given '
                               '(start `%s`, count `%s`): some listed future is not waited for' % (
                                   f.text(args[1])[:30], f.text(args[2])[:50]), 'instantiation: ' + f.full[:300])
        elif f.qn == 'yaclib::detail::WaitIterator':
            key = 'R-WAITFORMS detail::WaitIterator'
            n += 1
            ctx.instance(rule, key + ' :: ' + f.full[:140], None)
            cparam = f.params[-1]

            def guard_of(node_i, value):
                """is node_i inside the then-branch of `if (count == value)`?"""
                for x in f.own_nodes():
                    if x['k'] != 'IfStmt' or x.get('cond') is None:
                        continue
                    c = _strip(f, x['cond'])
                    if c is None or c['k'] != 'BinaryOperator' or c.get('op') != '==':
                        continue
                    sides = [_strip(f, y) for y in c['ch']]
                    ids = [s_.get('id') for s_ in sides if s_ is not None and s_['k'] == 'DeclRefExpr']
                    vals = [s_.get('v') for s_ in sides if s_ is not None and s_.get('v') is not None]
                    if cparam in ids and value in vals:
                        then = x['ch'][2] if len(x['ch']) > 2 else None
                        kids = [k for k in x['ch'] if k is not None and k >= 0 and k != x['cond']]
                        then = kids[0] if kids else None
                        for k in kids:
                            if k > x['cond']:
                                then = k
                                break
                        if then is not None and (node_i == then or node_i in set(f.descendants(then))):
                            return True
                return False
            for c in f.calls():
                if c['cn'] == 'yaclib::detail::WaitCore' and len(c['args']) == 2 and not guard_of(c['i'], 1):
                    ctx.report(rule, key, f.loc(c), 'the single-future shortcut is not guarded by `count == 1`: with more '
                               'futures only the first one is waited for', 'instantiation: ' + f.full[:300])
                    break
            for r in f.own_nodes():
                if r['k'] == 'ReturnStmt' and r.get('ch') and (_strip(f, r['ch'][0]) or {}).get('k') == 'CXXBoolLiteralExpr':
                    if not guard_of(r['i'], 0):
                        ctx.report(rule, key, f.loc(r), 'WaitIterator answers without waiting outside the `count == 0` '
                                   'case', 'instantiation: ' + f.full[:300])
                        break
    return n
