"""C10 — WhenAny completes once with the right winner for each fail policy (structural clauses)."""
from rules import lib_accessor, lib_core, lib_order, lib_when

ANY_FILES = ['include/yaclib/async/when/any.hpp']

EXEMPT = {
    ('yaclib::when::Any::~Any', 'Exception'):
        'Any<FirstFail>::error is assigned only from Error()/Exception() of a failing input (those sites are checked '
        'by R-ACCESSOR and R-SAVEDERR in Consume) and the destructor reads it only while _p is still valid, i.e. when '
        'no input delivered a value and at least one failed: it never holds Value there',
}


def run(ctx):
    fbs = ctx.facts(['K17', 'K20'], kinds=('probe',), only=r'p_when\.cpp$', tests=r'/test/',
                    quick_tests=r'unit/algo/(when_any|when)\.cpp|example/async/when_any\.cpp')
    ra = ctx.rule('R-ACCESSOR', 'every Result accessor call sees exactly the matching state on every CFG path',
                  minimum=20)
    rs = ctx.rule('R-SETONCE', 'the output promise is set at most once per path, only after winning an RMW election '
                  '(or in the destructor under Valid())', minimum=10)
    rl = ctx.rule('R-LASTFAIL', 'packed counter constants of Any<LastFail> agree', minimum=2)
    re_ = ctx.rule('R-SAVEDERR', 'Any<FirstFail>: saved error written only by the CAS winner, read in the destructor',
                   minimum=2)
    rw = ctx.rule('R-WORD', 'election words are only loaded or modified by an RMW', minimum=8)
    ro = ctx.rule('R-ORDER', 'election word orders', minimum=8)
    rc = ctx.rule('R-CASKIND', 'Any<FirstFail> empty->error CAS is strong', minimum=0)
    rnr = ctx.rule('R-NODEREUSE', 'one callback object is registered on at most one shared core (intrusive next link)',
                   minimum=4)
    ctx.assume('a Result delivered to a combinator is never Empty')
    rlc = ctx.rule('R-LOOPCALLER', 'Here() of the combinator callbacks returns nullptr (they are not cores: nothing may be '
                  'handed back to the Loop with them as the caller)', minimum=10)
    rmv = ctx.rule('R-MOVEOUT.site', 'the strategies take input values through Retire(); no move-out of a possibly '
                   'shared input core', minimum=0)
    rpf = ctx.rule('R-POLICYFWD', 'a function instantiated with a FailPolicy hands the same policy to every callee that '
                   'is parameterised by one (entry point -> when::When -> strategy class)', minimum=9)
    rout = ctx.rule('R-OUTCOME', 'every Promise::Set of a strategy hands on an accessor of the consumed Result, the saved '
                    'failure or the collected values', minimum=6)
    rfv = ctx.rule('R-FIRSTVALUE', 'Any<FirstFail>: the value branch wins iff the old state is not the value state',
                   minimum=1)
    rfw = ctx.rule('R-FORWARD', 'a WhenAny wrapper hands an input back as the output outside the strategy only for a '
                   'single input, or a Ready input that (policy None) completed / (other policies) holds a value',
                   minimum=9)
    ron = ctx.rule('R-ONENODE', 'a combinator callback node is registered on at most one shared input (a shared core links its subscribers through the node\'s next pointer)', minimum=4)
    rho = ctx.rule('R-HANDOFF', 'a When* combinator is not touched after its last input has been registered: the registration loop\'s condition / increment and the code after it work on locals only', minimum=2)
    for cfg, fb in sorted(fbs.items()):
        from rules import lib_when as _lw
        if (ctx.guard(lambda: _lw.check_one_node(ctx, fb, ron)) or 0) < 2:
            ctx.guard(lambda: ctx.broken('R-ONENODE: no StaticCombinator / SingleCombinator instantiation found'))
        from rules import lib_when as _lw2, lib_handoff as _lh
        ctx.guard(lambda: _lh.check_handoff_helpers(ctx, fb, rho))
        if (ctx.guard(lambda: _lw2.check_handoff_loops(ctx, fb, rho)) or 0) < 1:
            ctx.guard(lambda: ctx.broken('R-HANDOFF: no registration loop of a When* combinator found'))
        ctx.guard(lambda: lib_when.check_policy_forward(ctx, fb, rpf, r'^yaclib::WhenAny$', True))
        ctx.guard(lambda: lib_when.check_any_forward(ctx, fb, rfw))
        ctx.guard(lambda: lib_when.check_outcome(ctx, fb, rout, ('yaclib::when::Any',)))
        ctx.guard(lambda: lib_when.check_firstvalue(ctx, fb, rfv))
        ctx.guard(lambda: lib_core.check_move_sites(ctx, fb, rmv, lambda f: 'async/when' in f.file or f.file.endswith('detail/shared_core.hpp') or f.file.endswith('detail/unique_core.hpp')))
        ctx.guard(lambda: lib_core.check_loop_caller(ctx, fb, rlc, lambda f: f.clsq.startswith('yaclib::when::')))
        fns = lib_accessor.functions_with_accessors(fb, ANY_FILES)
        if not fns:
            ctx.broken('no accessor call found in when/any.hpp (%s)' % cfg)
        ctx.guard(lambda: lib_accessor.check(ctx, fb, ra, fns, EXEMPT))
        ctx.guard(lambda: lib_core.check_node_reuse(ctx, fb, rnr, lambda f: 'async/when' in f.file))
        ctx.guard(lambda: lib_when.check_setonce(ctx, fb, rs, ('yaclib::when::Any',)))
        ctx.guard(lambda: lib_when.check_lastfail(ctx, fb, rl))
        ctx.guard(lambda: lib_when.check_saved_error(ctx, fb, re_))
        ctx.guard(lambda: lib_order.check(ctx, fb, cfg, ['yaclib::when::Any::_done', 'yaclib::when::Any::_state'], rw, ro, rc))
