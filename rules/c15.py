"""C15 — coroutine SharedMutex: writers exclude all, readers share, nobody is forgotten (structural clauses)."""
from rules import c15_inv, lib_coro, lib_exec, lib_order
from vlib import pathwalk

SM = 'yaclib::detail::SharedMutexImpl'
GUARDED = {SM + '::' + x for x in ('_readers', '_readers_size', '_readers_pass', '_writers_head', '_writers_tail',
                                   '_writers_prio')}
WORDS = [SM + '::_state', SM + '::_readers_wait', 'yaclib::detail::Spinlock::_state']
ENTRIES = ('AwaitLockShared', 'AwaitLock', 'UnlockHere', 'UnlockHereShared', 'TryLock', 'TryLockShared',
           'TryLockAwait', 'TryLockSharedAwait')


class SMWalker(lib_exec.ExecWalker):
    def on_node(self, fn, n, st):
        super().on_node(fn, n, st)
        if n['k'] == 'BinaryOperator' and n['op'] == '=':
            l = fn.sn(n['ch'][0])
            if l is not None and l['k'] == 'MemberExpr' and l['dn'] == SM + '::_writers_first':
                st.events.append(('access', l['dn'] + ' (write)', self.held(st), fn.loc(n)))

    def on_edge(self, fn, ci, taken, st):
        super().on_edge(fn, ci, taken, st)
        c = fn.sn(ci)
        neg = False
        while c['k'] == 'UnaryOperator' and c['op'] == '!':
            neg = not neg
            c = fn.sn(c['ch'][0])
        t = fn.text(c['i'])
        if c['k'] == 'BinaryOperator' and c['op'] in ('!=', '==') and 'kWriter' in t and '/' in t:
            st.events.append(('writer-present', (taken != neg) == (c['op'] == '!=')))


WIDTH = {'unsigned char': 8, 'unsigned short': 16, 'unsigned int': 32, 'unsigned long': 64, 'unsigned long long': 64,
         'int': 32, 'long': 64, 'short': 16, 'signed char': 8, 'char': 8, 'long long': 64}


def _width(t):
    t = t.replace('const ', '').replace('volatile ', '').strip()
    return WIDTH.get(t)


def check_wrap_width(ctx, fb, rule):
    """R-WRAPWIDTH: the reader hand-over is modular arithmetic — the first writer arms _readers_wait with +r, every
    leaving reader subtracts one, and "all r readers have already left" is recognised by the OLD value being -r in the
    width of that counter.  A comparison of a counter value with a negated (wrapped) quantity therefore has to be
    evaluated in the counter's own width: when one operand is widened by an implicit integral conversion and the other
    is a unary minus (or a wrapping subtraction) computed in the wider type, the two can never be equal (2^64 - r
    against a zero-extended 32-bit value) and the writer that should not suspend parks forever.  R-INV reasons over
    mathematical integers and cannot see this."""
    n = 0
    for f in fb.fn.values():
        if f.cfg is None or not f.file.endswith('coro/shared_mutex.hpp'):
            continue
        for b in f.own_nodes():
            if b['k'] != 'BinaryOperator' or b.get('op') not in ('==', '!='):
                continue
            sides = []
            for c in b['ch']:
                m = f.nodes[c]
                # strip what the usual arithmetic conversions added: the side's own ("natural") type is underneath
                while m['k'] in ('ImplicitCastExpr', 'ParenExpr') and m.get('ch') and (
                        m['k'] == 'ParenExpr' or m.get('cast') in ('IntegralCast', 'NoOp')):
                    m = f.nodes[m['ch'][0]]
                # is the value a negation (possibly truncated back by an explicit cast)?
                q = m
                while q['k'] in ('CXXStaticCastExpr', 'CStyleCastExpr', 'CXXFunctionalCastExpr', 'ParenExpr',
                                 'ImplicitCastExpr') and q.get('ch'):
                    q = f.nodes[q['ch'][0]]
                if q['k'] == 'DeclRefExpr' and q.get('id') is not None and q['id'] not in f.params:
                    # a named local: `const auto all_done = -r;` is the negation, in the local's type
                    from rules import lib_attach
                    init = lib_attach._single_def(f, q['id'])
                    if init is not None:
                        q = f.nodes[init]
                        while q['k'] in ('CXXStaticCastExpr', 'CStyleCastExpr', 'CXXFunctionalCastExpr', 'ParenExpr',
                                         'ImplicitCastExpr', 'ExprWithCleanups') and q.get('ch'):
                            q = f.nodes[q['ch'][0]]
                sides.append((m, q['k'] == 'UnaryOperator' and q.get('op') == '-'))
            neg = [i for i, (m, isneg) in enumerate(sides) if isneg]
            if not neg:
                continue
            n += 1
            key = 'R-WRAPWIDTH %s' % f.qn.split('::')[-1]
            ctx.instance(rule, key + ' @%s' % f.loc(b), None)
            wn = _width(sides[neg[0]][0].get('t', ''))
            wo = _width(sides[1 - neg[0]][0].get('t', ''))
            if wn is not None and wo is not None and wn != wo:
                ctx.report(rule, key, f.loc(b), 'a %d-bit counter value is compared with a negated quantity computed in '
                           '%d bits (%s): the wrapped value -r only exists in the counter\'s own width, so the two are '
                           'never equal — the "all readers already left" case is missed and the writer parks with '
                           'nobody left to resume it' % (wo, wn, f.text(b['i'])[:80]),
                           'instantiation: ' + f.full[:300])
    return n


def run(ctx):
    fbs = ctx.facts(['K20', 'K20n'], kinds=('probe',), only=r'p_coro\.cpp$', tests=r'/test/',
                    quick_tests=r'unit/coro/async_shared_mutex\.cpp')
    rw = ctx.rule('R-WORD', 'protocol of _state / _readers_wait / spinlock word', minimum=20)
    ro = ctx.rule('R-ORDER', 'enter >= acquire, exit >= release, reader hand-over acq_rel, spinlock acquire/release',
                  minimum=20)
    rc = ctx.rule('R-CASKIND', 'TryLock / UnlockHere CAS strong; TryLockShared weak CAS in its loop', minimum=6)
    rl = ctx.rule('R-LOCKSET', 'queue fields only under the spinlock; writes of _writers_first under it; the spinlock '
                  'is released exactly once on every path; coroutines are resumed (Run) with it released', minimum=16)
    rt = ctx.rule('R-TRYSHARED', 'TryLockShared fails iff it saw a writer and succeeds iff its CAS did', minimum=4)
    rk = ctx.rule('R-CONST', 'bit-field constants agree: kWriter == kReader << 32; the amount armed in _readers_wait '
                  'is the reader half of the value this writer\'s own _state RMW returned', minimum=3)
    rn = ctx.rule('R-EFFECT.noblock', 'no blocking call other than the spinlock', minimum=16)
    ri = ctx.rule('R-INV', 'queue accounting is an inductive invariant of every entry (A: writers list length == W - 1; '
                  'B: _writers_prio == writers ahead of the first queued reader; C: _readers_size == |_readers|; '
                  'E: readers queue only behind a writer; T: tail pointer; N: every unlinked writer is resumed or '
                  'armed, an unlock that leaves writers resumes somebody; D: reader credits; U: no underflow), '
                  'proved per path over linear pre-state expressions', minimum=32)
    rww = ctx.rule('R-WRAPWIDTH', 'a comparison of a counter value with a negated (wrapped) quantity is evaluated in the '
                   'counter\'s own width (no implicit widening on one side)', minimum=4)
    rgc = ctx.rule('R-GUARDCALLS', 'UniqueGuard / SharedGuard of the shared mutex: mode of every call into the mutex, '
                   'state transition before the call', minimum=8)
    from rules import lib_guard
    rla = ctx.rule('R-LOCKAPI', 'the public entry points do to the lock what their name says: guards built after an '
                   'acquisition adopt, TryGuard tries; an unlock awaiter that reports ready has released the lock exactly '
                   'once on that path and one that suspends has not (await_suspend hands it over); a lock awaiter calls '
                   'the entry points of its own mode', minimum=20)
    from rules import lib_lockapi
    for cfg, fb in sorted(fbs.items()):
        if (ctx.guard(lambda: lib_lockapi.check_lock_api(ctx, fb, rla)) or 0) < 20:
            ctx.guard(lambda: ctx.broken('R-LOCKAPI: lock / unlock awaiters and guard factories not instantiated in %s' % cfg))
        ctx.guard(lambda: lib_guard.check_guard_calls(ctx, fb, rgc))
        ctx.guard(lambda: lib_order.check(ctx, fb, cfg, WORDS, rw, ro, rc))
        ctx.guard(lambda: c15_inv.check(ctx, fb, cfg, ri))
        if (ctx.guard(lambda: check_wrap_width(ctx, fb, rww)) or 0) < 1:
            ctx.guard(lambda: ctx.broken('R-WRAPWIDTH: no comparison with a negated quantity found in shared_mutex.hpp'))
        fns = [f for f in fb.fn.values() if f.clsq == SM and f.cfg is not None]
        opts = {f.cls for f in fns}
        if len(opts) < 4:
            ctx.broken('SharedMutexImpl: %d option combinations instantiated in %s (4 expected)' % (len(opts), cfg))
        kr = fb.vars.get(SM + '::kReader', {}).get('v')
        kw = fb.vars.get(SM + '::kWriter', {}).get('v')
        key = 'R-CONST kReader/kWriter'
        ctx.instance(rk, key + ' [%s]' % cfg, dict(kReader=kr, kWriter=kw))
        if kr is None or kw is None:
            ctx.broken('kReader/kWriter not found')
        if kr != 1 or kw != kr << 32:
            ctx.report(rk, key, 'include/yaclib/coro/shared_mutex.hpp:1', 'kWriter must be kReader << 32 (32 bits of '
                       'readers below 32 bits of writers); found kReader=%s kWriter=%s' % (kr, kw))
        for f in sorted(fns, key=lambda f: f.full):
            tag = ' :: ' + f.cls.replace('yaclib::detail::', '')
            if f.n in ENTRIES:
                key = 'R-LOCKSET SharedMutexImpl::' + f.n
                w = SMWalker(fb, SM, GUARDED)
                w.loop_bound = 1
                try:
                    res = w.run(f)
                except pathwalk.TooManyPaths as e:
                    ctx.broken('%s: %s' % (f.full, e))
                nacc = 0
                rep = False
                blocked = None
                for st, rv in res:
                    for e in st.events:
                        if e[0] == 'access':
                            nacc += 1
                            if not e[2] and not rep:
                                rep = True
                                ctx.report(rl, key, e[3], '%s is accessed without holding the spinlock' %
                                           e[1].split('::')[-1], 'entry: ' + f.full[:200])
                        if e[0] == 'submit' and e[3] and not rep:
                            rep = True
                            ctx.report(rl, key, e[2], 'a coroutine is resumed (Submit) while the spinlock is held: it may '
                                       'immediately call back into the mutex and spin on this thread\'s lock',
                                       'entry: ' + f.full[:200])
                        if e[0] == 'unlock-not-held' and not rep:
                            rep = True
                            ctx.report(rl, key, e[1], 'the spinlock is released on a path on which it is not held')
                        if e[0] == 'block':
                            blocked = e
                    if st.data.get('held', 0) != 0 and not rep:
                        rep = True
                        ctx.report(rl, key, f.where, 'a path leaves the mutex with the spinlock still held (every later '
                                   'slow-path caller spins forever)', 'entry: ' + f.full[:200])
                ctx.instance(rl, key + tag, dict(paths=len(res), guarded_accesses=nacc))
                key = 'R-EFFECT.noblock SharedMutexImpl::' + f.n
                ctx.instance(rn, key + tag, None)
                if blocked:
                    ctx.report(rn, key, blocked[2], 'the shared mutex blocks a thread (%s)' % blocked[1])
            if f.n == 'TryLockShared':
                key = 'R-TRYSHARED SharedMutexImpl::TryLockShared'
                w = SMWalker(fb, SM, GUARDED)
                res = w.run(f)
                ctx.instance(rt, key + tag, dict(paths=len(res)))
                for st, rv in res:
                    if rv is None or rv[0] != 'c':
                        continue
                    wp = [e for e in st.events if e[0] == 'writer-present']
                    enq = [e for e in st.events if e[0] == 'branch' and any(
                        c.endswith('compare_exchange_weak') or c.endswith('compare_exchange_strong') for c in e[1])]
                    if not rv[1] and not (wp and wp[-1][1]):
                        ctx.report(rt, key, f.where, 'TryLockShared fails although it did not see a writer')
                        break
                    if rv[1] and not (enq and enq[-1][2] is True):
                        ctx.report(rt, key, f.where, 'TryLockShared succeeds without a successful CAS adding a reader')
                        break
            if f.n == 'AwaitLock':
                key = 'R-CONST amount armed in _readers_wait'
                ctx.instance(rk, key + tag, None)
                ok = False
                for c in f.own_nodes():
                    if c.get('cn', '').endswith('::fetch_add') and c.get('obj') is not None and \
                            (f.sn(c['obj']) or {}).get('dn') == SM + '::_readers_wait':
                        a = f.sn(c['args'][0])
                        if a['k'] == 'DeclRefExpr' and 'id' in a:
                            for dcl in f.own_nodes():
                                if dcl['k'] == 'DeclStmt':
                                    for v in dcl['vars']:
                                        if v['id'] == a['id'] and 'init' in v:
                                            i0 = f.sn(v['init'])
                                            if i0['k'] == 'BinaryOperator' and i0['op'] == '%' and \
                                                    'kWriter' in f.text(i0['ch'][1]):
                                                s0 = f.sn(i0['ch'][0])
                                                if s0['k'] == 'DeclRefExpr' and 'id' in s0:
                                                    for d2 in f.own_nodes():
                                                        if d2['k'] == 'DeclStmt':
                                                            for v2 in d2['vars']:
                                                                if v2['id'] == s0['id'] and 'init' in v2 and \
                                                                        f.sn(v2['init']).get('cn', '').endswith(
                                                                            '::fetch_add'):
                                                                    ok = True
                if not ok:
                    ctx.report(rk, key, f.where, 'the number of readers the first writer waits for must be s % kWriter '
                               'where s is the value returned by this writer\'s own _state.fetch_add(kWriter)')
