"""R-WORD / R-ORDER / R-CASKIND — protocol and memory-order lattice of the hand-off words.

Every atomic access to a hand-off word is classified into a ROLE by (word, operation kind, class of the value
written) — never by function name or line — and must
  * be admitted by the word's protocol at all (R-WORD: e.g. kResult may only be written by an RMW exchange),
  * carry at least the role's minimum memory order (R-ORDER; stronger orders always pass),
  * if it is a weak CAS, sit on a CFG cycle (R-CASKIND: a spurious failure must be retried, never interpreted).
The rows restate /verif/tables/atomic_roles.json (the happens-before argument of each row is written there).
"""
from vlib import atomics, pathwalk

KRESULT = 18446744073709551615  # std::numeric_limits<uintptr_t>::max()
KWRITER = 4294967296


def val(s):
    return s['value']


def is_const(s, c):
    return s['value'] == ('const', c)


def is_addr(s):
    return s['value'] is not None and s['value'][0] == 'addr'


def text_has(s, sub):
    return s['value'] is not None and sub in str(s['value'][1])


def role_callback(s, ctxinfo):
    op = s['op']
    if op == 'load':
        # a load in a function that also withdraws (CAS to kEmpty) only feeds that CAS
        if ctxinfo['fn_has'](s, lambda t: t['op'].startswith('cas') and is_const(t, 0)):
            return dict(role='withdraw-hint', min=['relaxed'])
        return dict(role='observe', min=['acquire'])
    if op.startswith('cas') and (is_addr(s) or s['value'][0] in ('param', 'local')) and not is_const(s, 0):
        return dict(role='register', min=['release', 'acquire'], weak_ok=True)
    if op.startswith('cas') and is_const(s, 0):
        return dict(role='withdraw', min=['relaxed', 'relaxed'], weak_ok=False)
    if op == 'exchange' and is_const(s, KRESULT):
        return dict(role='publish', min=['acq_rel'])
    if op == 'store' and is_addr(s):
        return dict(role='pre-publication store', min=['relaxed'])
    return None


def role_jobs(s, ctxinfo):
    op = s['op']
    if op == 'load':
        return dict(role='hint', min=['relaxed'])
    if op.startswith('cas') and is_addr(s):
        return dict(role='push', min=['acq_rel', 'relaxed'], weak_ok=True)
    if op == 'exchange' and is_const(s, 0):
        return dict(role='take-batch', min=['acquire'])
    if op.startswith('cas') and s['value'] == ('call', 'yaclib::Strand::Mark'):
        return dict(role='go-idle', min=['release', 'relaxed'], weak_ok=False)
    if op == 'exchange' and s['value'] == ('call', 'yaclib::Strand::Mark'):
        return dict(role='drain', min=['acq_rel'])
    return None


def role_head(s, ctxinfo):
    op = s['op']
    if op == 'load':
        return dict(role='observe', min=['acquire'])
    if op.startswith('cas') and s['value'][0] in ('local', 'addr', 'param'):
        return dict(role='push', min=['release', 'acquire'], weak_ok=True)
    if op == 'exchange':
        return dict(role='set', min=['acq_rel'])
    if op == 'store' and is_const(s, 0):
        return dict(role='reset (documented not thread-safe)', min=['relaxed'])
    return None


def role_sender(s, ctxinfo):
    op = s['op']
    if op == 'load':
        return dict(role='hint', min=['relaxed'])
    if op.startswith('cas') and is_const(s, 0):
        return dict(role='acquire-free', min=['acquire', 'relaxed'], weak_ok=True)
    if op.startswith('cas') and is_addr(s):
        return dict(role='enqueue', min=['release', 'relaxed'], weak_ok=True)
    if op.startswith('cas') and is_const(s, KRESULT):
        return dict(role='release-free', min=['release', 'relaxed'], weak_ok=False)
    if op == 'exchange' and is_const(s, 0):
        return dict(role='take-over', min=['acquire'])
    return None


def role_sm_state(s, ctxinfo):
    op = s['op']
    if op == 'load':
        return dict(role='hint', min=['relaxed'])
    if op == 'fetch_add' and (is_const(s, 1) or is_const(s, KWRITER)):
        return dict(role='reader-enter' if is_const(s, 1) else 'writer-enter', min=['acquire'])
    if op.startswith('cas') and (text_has(s, 'kWriter') or text_has(s, 'kReader')):
        return dict(role='writer-enter' if text_has(s, 'kWriter') else 'reader-enter', min=['acquire', 'relaxed'],
                    weak_ok=True)
    if op == 'fetch_sub' and (is_const(s, 1) or is_const(s, KWRITER)):
        return dict(role='reader-exit' if is_const(s, 1) else 'writer-exit', min=['release'])
    if op.startswith('cas') and is_const(s, 0):
        return dict(role='writer-exit', min=['release', 'relaxed'], weak_ok=False)
    return None


def role_readers_wait(s, ctxinfo):
    op = s['op']
    if op in ('fetch_add', 'fetch_sub'):
        return dict(role='writer-arms' if op == 'fetch_add' else 'reader-leaves', min=['acq_rel'])
    if op == 'store':
        return dict(role='rearm-under-lock', min=['relaxed'])
    if op == 'load':
        return dict(role='hint', min=['relaxed'])
    return None


def role_spin(s, ctxinfo):
    op = s['op']
    if op == 'exchange' and is_const(s, 1):
        return dict(role='lock', min=['acquire'])
    if op == 'load':
        return dict(role='spin', min=['relaxed'])
    if op == 'store' and is_const(s, 0):
        return dict(role='unlock', min=['release'])
    return None


def role_count(s, ctxinfo):
    op = s['op']
    fq = s['fn'].qn
    if op == 'fetch_add':
        return dict(role='increment', min=['relaxed'])
    if op == 'fetch_sub':
        if fq == 'yaclib::detail::AtomicCounter::SubEqual':
            return dict(role='decrement', min=['release'], needs_acquire_on_zero=True)
        return dict(role='same-thread-adjust', min=['relaxed'])
    if op == 'store':
        return dict(role='same-thread-adjust (Reset, documented not thread-safe)', min=['relaxed'])
    if op == 'load':
        return dict(role='read', min=['relaxed'], param_order=True)
    return None


def role_election(s, ctxinfo):
    op = s['op']
    if op == 'load':
        return dict(role='hint', min=['relaxed'])
    if op in ('exchange', 'fetch_sub', 'fetch_add') or op == 'cas_strong':
        return dict(role='elect', min=['relaxed'], weak_ok=False)
    if op == 'cas_weak':
        return dict(role='elect', min=['relaxed'], weak_ok=False)
    return None


def role_atomic_event(s, ctxinfo):
    return dict(role='event', min=['relaxed'])


WORDS = {
    'yaclib::detail::BaseCore::_callback': role_callback,
    'yaclib::Strand::_jobs': role_jobs,
    'yaclib::OneShotEvent::_head': role_head,
    'yaclib::detail::MutexImpl::_sender': role_sender,
    'yaclib::detail::SharedMutexImpl::_state': role_sm_state,
    'yaclib::detail::SharedMutexImpl::_readers_wait': role_readers_wait,
    'yaclib::detail::Spinlock::_state': role_spin,
    'yaclib::detail::AtomicCounter::count': role_count,
    'yaclib::when::All::_done': role_election,
    'yaclib::when::AllTuple::_done': role_election,
    'yaclib::when::Join::_done': role_election,
    'yaclib::when::Any::_done': role_election,
    'yaclib::when::Any::_state': role_election,
}


def resolve_param_words(fb, ss):
    """an atomic passed by reference (OneShotEvent.cpp SetImpl(self,…)): resolve the word from the call sites"""
    for s in ss:
        if '::' in s['word'] or s['word'].startswith('('):
            continue
        f = s['fn']
        # which parameter?
        pidx = None
        for k, pid in enumerate(f.params):
            if f.locals[pid]['n'] == s['word'].split('::')[-1]:
                pidx = k
        if pidx is None:
            continue
        words = set()
        for g in fb.fn.values():
            for c in g.calls():
                if c.get('ck') == f.key and len(c.get('args', [])) > pidx:
                    words.add(atomics.word_of(g, c['args'][pidx]))
        if len(words) == 1:
            s['word'] = words.pop()
            s['via_param'] = True


def check(ctx, fb, cfg, words, r_word, r_order, r_cas, in_scope=None):
    """words: iterable of word names to check (subset of WORDS)"""
    words = set(words)
    ss = atomics.sites(fb, lambda f: '/fault/' not in f.file and (in_scope is None or in_scope(f)))
    resolve_param_words(fb, ss)
    by_fn = {}
    for s in ss:
        by_fn.setdefault(s['fn'].key, []).append(s)

    def fn_has(s, pred):
        return any(pred(t) for t in by_fn[s['fn'].key] if t['word'] == s['word'] and t is not s)

    info = dict(fn_has=fn_has)
    n = 0
    for s in ss:
        w = s['word']
        if w not in words:
            continue
        f = s['fn']
        where = f.loc(s['node'])
        site = '%s %s %s in %s' % (w.split('::')[-1], s['op'], (s['value'] or ('', ''))[0], f.qn)
        role = WORDS[w](s, info)
        n += 1
        if role is None:
            ctx.instance(r_word, site + ' @' + where.split(':')[0].split('/')[-1], dict(site=site, where=where))
            ctx.report(r_word, 'R-WORD ' + site, where,
                       'operation %s (value %s) on %s is not admitted by the protocol of this hand-off word' % (
                           s['op'], s['value'], w), 'function: ' + f.full[:200])
            continue
        key = '%s role=%s in %s' % (w.split('::')[-1], role['role'], f.qn)
        ctx.instance(r_word, key, dict(word=w, role=role['role'], op=s['op'], where=where,
                                       orders=atomics.fmt_orders(s['orders'])))
        # ---- orders
        orders = s['orders']
        mins = role['min']
        if role.get('param_order') and orders and isinstance(orders[0], tuple):
            continue  # resolved at the call sites by check_counter_reads
        for o, m, what in zip(orders, mins, ('success', 'failure')):
            ctx.instance(r_order, key + (' ' + what if len(mins) > 1 else ''), None)
            if not isinstance(o, int):
                ctx.broken('R-ORDER: memory order of %s at %s is not a constant' % (site, where))
            if not atomics.at_least(o, m):
                ctx.report(r_order, 'R-ORDER ' + key + (' ' + what if len(mins) > 1 else ''), where,
                           '%s order %s is weaker than the role minimum %s (role %s of %s)' % (
                               what if len(mins) > 1 else 'memory', atomics.ORDER_NAME[o], m, role['role'], w),
                           'see tables/atomic_roles.json for the happens-before edge that is lost')
        if role.get('needs_acquire_on_zero'):
            fences = [t for t in by_fn[f.key] if t['op'] == 'fence']
            ok = atomics.at_least(orders[0], 'acq_rel') or any(
                isinstance(t['orders'][0], int) and atomics.includes_acquire(t['orders'][0]) for t in fences)
            ctx.instance(r_order, key + ' acquire-on-zero', None)
            if not ok:
                ctx.report(r_order, 'R-ORDER ' + key + ' acquire-on-zero', where,
                           'the owner that drops the last reference does not acquire the other owners\' writes '
                           '(no acquire fence and the decrement is not acq_rel)')
        # ---- CAS kind
        if s['op'].startswith('cas'):
            ctx.instance(r_cas, key, dict(site=site, where=where, kind=s['op'], in_loop=s['in_loop']))
        if s['op'] == 'cas_weak':
            if not s['in_loop']:
                ctx.report(r_cas, 'R-CASKIND ' + key, where,
                           'weak compare-exchange outside a retry loop: a spurious failure is interpreted as a '
                           'definite state')
            elif role.get('weak_ok') is False:
                ctx.report(r_cas, 'R-CASKIND ' + key, where, 'role %s requires a strong compare-exchange (its '
                           'failure is interpreted)' % role['role'])
    return n


def check_counter_reads(ctx, fb, r_order):
    """AtomicCounter::Get(order): resolve the order at every call site; a read reached from a GetRef() overrider of
    an atomically counted object decides ownership (move-from of the shared value) and must be >= acquire"""
    n = 0
    for f in fb.fn.values():
        for c in f.calls(r'^yaclib::detail::AtomicCounter::Get$'):
            args = c.get('args', [])
            o = atomics.order_of(f, args[0]) if args else 0
            where = f.loc(c)
            is_getref = f.n == 'GetRef' and 'virtual' in f.flags
            key = 'count role=%s via %s' % ('ownership-read' if is_getref else 'read', f.qn)
            n += 1
            ctx.instance(r_order, key, dict(caller=f.full[:160], where=where,
                                            order=atomics.fmt_orders([o])))
            if isinstance(o, tuple):
                continue  # order chosen by this function's caller (WaitGroup::Count(order)): user-order
            if is_getref and not atomics.at_least(o, 'acquire'):
                ctx.report(r_order, 'R-ORDER ' + key, where,
                           'reference-count read that guards moving the shared value out is %s; the other holders\' '
                           'reads (before their release decrement) must happen-before the move: needs acquire' %
                           atomics.ORDER_NAME[o], 'instantiation: ' + f.full[:200])
    return n


# ------------------------------------------------------------------------------------------------ R-CASFRESH

class _FreshWalker(pathwalk.Walker):
    """events: ('reload', var) the expected local got a fresh value (initial load / assignment / failed CAS),
               ('test', var, other-operand text, truth), ('cas-call', var, loc)"""
    loop_bound = 2
    max_paths = 20000

    def _var(self, fn, i):
        n = fn.sn(i)
        while n is not None and n['k'] in ('ImplicitCastExpr', 'CXXReinterpretCastExpr', 'CXXStaticCastExpr',
                                           'ParenExpr', 'CStyleCastExpr') and n.get('ch'):
            n = fn.sn(n['ch'][0])
        return (self._depth, n['id']) if n is not None and n['k'] == 'DeclRefExpr' and 'id' in n else None

    def on_node(self, fn, n, st):
        self._depth = st.depth
        k = n['k']
        if k == 'DeclStmt':
            for v in n.get('vars', ()):
                if 'init' in v and v.get('id', -1) >= 0:
                    st.events.append(('reload', (st.depth, v['id'])))
        elif k == 'BinaryOperator' and n.get('op') == '=':
            v = self._var(fn, n['ch'][0])
            if v is not None:
                st.events.append(('reload', v))
        elif k == 'CXXMemberCallExpr' and n.get('cn', '').split('::')[-1] in ('compare_exchange_weak',
                                                                                'compare_exchange_strong'):
            v = self._var(fn, n['args'][0]) if n.get('args') else None
            if v is not None:
                st.events.append(('cas-call', v, fn.loc(n), n['i']))

    def on_edge(self, fn, ci, taken, st):
        self._depth = st.depth
        c = fn.sn(ci)
        neg = False
        while c is not None and c['k'] == 'UnaryOperator' and c['op'] == '!':
            neg = not neg
            c = fn.sn(c['ch'][0])
        if c is None:
            return
        truth = taken != neg
        if c['k'] == 'CXXMemberCallExpr' and c.get('cn', '').split('::')[-1] in ('compare_exchange_weak',
                                                                                  'compare_exchange_strong'):
            v = self._var(fn, c['args'][0]) if c.get('args') else None
            if v is not None and not truth:
                st.events.append(('reload', v))  # a failed compare-exchange stores the current value into expected
            return
        if c['k'] == 'BinaryOperator' and c.get('op') in ('==', '!='):
            for x, y in ((c['ch'][0], c['ch'][1]), (c['ch'][1], c['ch'][0])):
                v = self._var(fn, x)
                if v is not None:
                    st.events.append(('test', v, fn.xtext(y), truth == (c['op'] == '==')))
        elif c['k'] == 'DeclRefExpr' and 'id' in c:
            st.events.append(('test', (st.depth, c['id']), 'nonzero', truth))
        elif c['k'] == 'BinaryOperator' and c.get('op') in ('<', '>', '<=', '>=', '&'):
            for x in c['ch']:
                for d in fn.descendants(x):
                    m = fn.nodes[d]
                    if m['k'] == 'DeclRefExpr' and 'id' in m:
                        st.events.append(('test', (st.depth, m['id']), fn.xtext(c['i']), truth))


def check_cas_fresh(ctx, fb, rule, scope=None):
    """R-CASFRESH (an internal-consistency rule, no table): in a compare-exchange retry loop the `expected` local is
    refreshed by every failed attempt.  Whatever the code tested about the freshly loaded value before its FIRST
    attempt (is it the result sentinel? the all-done marker? not-locked?) it must test again after every refresh
    before the next attempt — otherwise the second attempt can replace a sentinel that the first attempt was careful
    not to touch (a subscriber pushed on top of kResult is never run; a waiter added after all-done is never
    released)."""
    n = 0
    for f in sorted(fb.fn.values(), key=lambda f: f.full):
        if f.cfg is None or not f.qn.startswith('yaclib::') or '/fault/' in f.file or \
                (scope is not None and not scope(f)):
            continue
        cas = [x for x in f.own_nodes() if x['k'] == 'CXXMemberCallExpr' and
               x.get('cn', '').split('::')[-1] in ('compare_exchange_weak', 'compare_exchange_strong')]
        if not cas:
            continue
        loops = f.cfg.loops()
        if not any((f.cfg.pos_of(c['i']) or (None,))[0] in loops for c in cas):
            continue  # no retry loop
        try:
            res = _FreshWalker(fb).run(f)
        except pathwalk.TooManyPaths as e:
            ctx.broken('R-CASFRESH %s: %s' % (f.full, e))
        n += 1
        key = 'R-CASFRESH %s' % f.qn
        ctx.instance(rule, key + ' :: ' + f.full[:120], dict(function=f.full[:160], paths=len(res)))
        done = False
        for st, _ in res:
            ev = st.events
            first = {}
            for i, e in enumerate(ev):
                if e[0] != 'cas-call':
                    continue
                var = e[1]
                j = max([k for k in range(i) if ev[k][0] == 'reload' and ev[k][1] == var] or [-1])
                tests = {(x[2]) for x in ev[j + 1:i] if x[0] == 'test' and x[1] == var}
                if (var, e[3]) not in first and var not in {k[0] for k in first}:
                    first[(var, e[3])] = tests
                    continue
                base = [t for (v, _), t in first.items() if v == var][0]
                missing = base - tests
                if missing:
                    ctx.report(rule, key, e[2], 'a retry of this compare-exchange uses an expected value that was '
                               'refreshed by the failed attempt and is not tested against %s again, although the first '
                               'attempt was: the retry can overwrite that sentinel (the word then holds a list nobody '
                               'walks / a waiter nobody releases)' % ', '.join(sorted(missing)),
                               'function: ' + f.full[:300])
                    done = True
                    break
            if done:
                break
    return n


# ------------------------------------------------------------------------------------------------ relaxed decisions

class _DecisionWalker(pathwalk.Walker):
    loop_bound = 1
    max_paths = 20000

    def on_node(self, fn, n, st):
        if n['k'] != 'CXXMemberCallExpr':
            return
        cn = n.get('cn', '')
        last = cn.split('::')[-1]
        if cn == 'yaclib::detail::AtomicCounter::Get':
            args = n.get('args', [])
            o = atomics.order_of(fn, args[0]) if args else 0
            st.events.append(('get', n['i'], o, fn.loc(n), st.depth))
        elif last in ('SubEqual', 'Sub') and 'Counter' in cn or last in ('fetch_sub', 'fetch_add', 'exchange') or \
                last.startswith('compare_exchange'):
            st.events.append(('rmw', fn.loc(n)))

    def on_edge(self, fn, ci, taken, st):
        for d in fn.deep_descendants(ci):
            m = fn.nodes[d]
            if m['k'] == 'CXXMemberCallExpr' and m.get('cn') == 'yaclib::detail::AtomicCounter::Get':
                st.events.append(('decide', m['i'], taken, st.depth))


def check_relaxed_decisions(ctx, fb, r_order, scope=None):
    """a RELAXED AtomicCounter::Get() may steer a branch only if every path that follows that branch performs an
    acquiring read-modify-write afterwards (the read was a hint: `Get() == x || SubEqual(x)` where Get is false);
    a path that acts on the relaxed value alone (returns, reads results) has no happens-before edge from the
    producers' release decrements"""
    n = 0
    for f in sorted(fb.fn.values(), key=lambda f: f.full):
        if f.cfg is None or not f.qn.startswith('yaclib::') or (scope is not None and not scope(f)):
            continue
        if not any(x.get('cn') == 'yaclib::detail::AtomicCounter::Get' for x in f.own_nodes()):
            continue
        try:
            res = _DecisionWalker(fb).run(f)
        except pathwalk.TooManyPaths:
            continue
        key = 'count role=decision via %s' % f.qn
        n += 1
        ctx.instance(r_order, key, dict(caller=f.full[:160], paths=len(res)))
        rep = False
        for st, _ in res:
            ev = st.events
            for i, e in enumerate(ev):
                if e[0] != 'decide':
                    continue
                g = [x for x in ev[:i] if x[0] == 'get' and x[1] == e[1] and x[4] == e[3]]
                if not g:
                    continue
                o = g[-1][2]
                if isinstance(o, tuple) or atomics.at_least(o, 'acquire'):
                    continue
                if not any(x[0] == 'rmw' for x in ev[i + 1:]) and not rep:
                    rep = True
                    ctx.report(r_order, 'R-ORDER ' + key, g[-1][3],
                               'a relaxed counter read decides this branch and nothing acquires afterwards on the path: '
                               'the conclusion drawn from the count (everybody is done, the results may be read) has '
                               'no happens-before edge from the producers\' release decrements', 'function: ' +
                               f.full[:300])
            if rep:
                break
    return n
