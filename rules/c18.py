"""C18 — yaclib_std locks / condition variables / threads under fibers keep the std contracts.

Static clauses (configuration KF), all decided per CFG path (loops unrolled once, branches on literal
mode arguments and on boolean locals partially evaluated, helpers of the lock classes inlined):
  R-WAITLOOP   after FiberQueue::Wait returns, a lock method re-tests the lock state before it writes it
               (a wake-up is only a hint: the lock may have been taken in between) — `if` instead of `while`
               admits two incompatible holders.
  R-NOTIFY     a release path that frees the lock notifies a queue on which acquirers of this lock wait.
  R-MODE       every acquire form of one mode (blocking / try / timed) leaves the same lock state as the
               blocking form of that mode (exclusive forms: as lock(), shared forms: as lock_shared()).
  R-TRY        a path returning false wrote no lock state; a path returning true performed the acquire.
  R-CV         condition_variable: unlock -> park -> lock on every path; predicate forms loop on the predicate
               and never wait when it already holds; notify_one/all reach the queue (all => NotifyAll);
               timed queue wait derives its status from "was I still queued".
  R-JOIN       thread::join re-tests completion after every resume and registers itself before suspending;
               a finishing fiber marks itself completed before it schedules its joiner.
  R-FORWARD    the injection wrappers (yaclib::detail::Mutex<Impl> …) forward to the same-named Impl operation.
"""
import re

from vlib import pathwalk
from vlib.pathwalk import UNKNOWN

NS = 'yaclib::detail::fiber::'
LOCKS = [NS + x for x in ('Mutex', 'TimedMutex', 'RecursiveMutex', 'RecursiveTimedMutex', 'SharedMutex',
                          'SharedTimedMutex')]
QUEUE_T = NS + 'FiberQueue'
EXCL = ('lock', 'try_lock', 'try_lock_for', 'try_lock_until')
SHARED = ('lock_shared', 'try_lock_shared', 'try_lock_shared_for', 'try_lock_shared_until')
RELEASE = ('unlock', 'unlock_shared')


def family_fields(fb, cls):
    """(queue fields, state fields) of a lock class incl. its bases — qualified names"""
    q, s = set(), set()
    for c in [cls] + fb.all_bases(cls):
        r = fb.records.get(c)
        if not r:
            continue
        for f in r.fields:
            (q if f['t'] == QUEUE_T else s).add(r.qn + '::' + f['n'])
    return q, s


class LockWalker(pathwalk.Walker):
    def __init__(self, fb, queues, state):
        super().__init__(fb)
        self.queues = queues
        self.state = state

    def inline(self, fn, n, st):
        g = self.fb.fn.get(n.get('ck'))
        if g is not None and g.clsq in LOCKS and g.cfg is not None and st.depth < 4:
            return g
        return None

    def member(self, fn, i, st=None):
        n = fn.sn(i)
        for _ in range(6):
            while n is not None and n['k'] in ('UnaryOperator',) and n['op'] in ('&', '*'):
                n = fn.sn(n['ch'][0])
            if n is None:
                return None
            if n['k'] == 'MemberExpr':
                return n['dn']
            if n['k'] == 'DeclRefExpr' and n.get('id') in fn.single_defs:
                # FiberQueue& queue = exclusive ? _exclusive_queue : _shared_queue;
                n = fn.sn(fn.single_defs[n['id']])
                continue
            if n['k'] == 'ConditionalOperator' and st is not None:
                c = self.ev(fn, n['ch'][0], st)
                if c is not None and c[0] == 'c':
                    n = fn.sn(n['ch'][1 if c[1] else 2])
                    continue
            return None
        return None

    def on_node(self, fn, n, st):
        k = n['k']
        if k == 'CXXMemberCallExpr':
            cn = n['cn']
            if cn == QUEUE_T + '::Wait':
                st.events.append(('wait', self.member(fn, n['obj'], st), fn.loc(n)))
            elif cn in (QUEUE_T + '::NotifyOne', QUEUE_T + '::NotifyAll'):
                st.events.append(('notify', self.member(fn, n['obj'], st), cn[-3:], fn.loc(n)))
            return
        if k in ('BinaryOperator', 'CompoundAssignOperator') and n['op'].endswith('=') and \
                n['op'] not in ('==', '!=', '<=', '>='):
            f = self.member(fn, n['ch'][0])
            if f in self.state:
                if n['op'] == '=':
                    v = self.ev(fn, n['ch'][1], st)
                    if v[0] != 'c':
                        r = fn.sn(n['ch'][1])
                        v = ('call', r.get('cn', '?')) if r is not None and 'cn' in r else UNKNOWN
                else:
                    v = ('op', n['op'])
                st.events.append(('write', f, v, fn.loc(n)))
        elif k == 'UnaryOperator' and n['op'] in ('++', '--'):
            f = self.member(fn, n['ch'][0])
            if f in self.state:
                st.events.append(('write', f, ('op', n['op']), fn.loc(n)))

    def on_edge(self, fn, ci, taken, st):
        reads = set()
        qtest = False
        for j in fn.descendants(ci):
            m = fn.nodes[j]
            if m['k'] == 'MemberExpr' and m['dn'] in self.state:
                reads.add(m['dn'])
            if m['k'] == 'CXXMemberCallExpr' and m['cn'] == QUEUE_T + '::Empty':
                qtest = True
        if reads:
            st.events.append(('test', frozenset(reads), taken, fn.loc(ci)))
            # "counter reached zero" edge
            c = fn.sn(ci)
            zero = None
            if c['k'] == 'BinaryOperator' and c['op'] in ('==', '!='):
                a, b = self.member(fn, c['ch'][0]), self.ev(fn, c['ch'][1], st)
                if a in self.state and b == ('c', 0):
                    zero = a if (c['op'] == '==') == taken else None
            elif c['k'] == 'UnaryOperator' and c['op'] == '!' and taken:
                zero = self.member(fn, c['ch'][0])
            elif c['k'] == 'MemberExpr' and not taken:
                zero = c['dn']
            if zero in self.state:
                st.events.append(('zero', zero, fn.loc(ci)))
        if qtest:
            st.events.append(('qtest', fn.loc(ci)))


def writes_after_last_wait(events):
    idx = max([i for i, e in enumerate(events) if e[0] == 'wait'] or [-1])
    return frozenset((e[1], e[2]) for e in events[idx + 1:] if e[0] == 'write')


def fmt_events(ev):
    out = []
    for e in ev:
        if e[0] == 'write':
            out.append('write %s:=%s @%s' % (e[1].split('::')[-1], e[2][-1], e[3]))
        elif e[0] == 'wait':
            out.append('Wait(%s) @%s' % ((e[1] or '?').split('::')[-1], e[2]))
        elif e[0] == 'notify':
            out.append('Notify%s(%s)' % (e[2], (e[1] or '?').split('::')[-1]))
        elif e[0] == 'test':
            out.append('test{%s}=%s' % (','.join(sorted(x.split('::')[-1] for x in e[1])), e[2]))
        elif e[0] == 'zero':
            out.append('%s==0' % e[1].split('::')[-1])
        elif e[0] == 'qtest':
            out.append('queue-empty-test')
    return ' ; '.join(out)


def short(cls):
    return cls.replace(NS, 'fiber::')


def check_locks(ctx, fb):
    rw = ctx.rule('R-WAITLOOP', 'every path from a return of FiberQueue::Wait to a write of lock state passes a branch '
                  'that reads the lock state (re-test after wake-up)', minimum=8)
    rn = ctx.rule('R-NOTIFY', 'every release path that frees the lock (state := 0/false, or counter reached zero) '
                  'notifies a queue that acquirers of this lock wait on', minimum=4)
    rm = ctx.rule('R-MODE', 'each acquire form leaves the same lock state as the blocking form of its mode', minimum=14)
    rt = ctx.rule('R-TRY', 'paths returning false write no lock state; paths returning true perform the acquire',
                  minimum=10)
    rwa = ctx.rule('R-WAKEALL', 'a release never wakes just one waiter of a queue on which shared-mode acquirers park '
                   '(all of them are compatible with each other), unless every shared acquisition passes the wake-up on',
                   minimum=2)
    # families
    methods = {}
    for f in fb.fn.values():
        if f.clsq in LOCKS and f.cfg is not None:
            methods.setdefault(f.clsq, []).append(f)
    missing = [c for c in LOCKS if c not in methods]
    if missing:
        ctx.broken('lock classes without analysed methods: %s' % missing)
    roots = {}
    for c in LOCKS:
        bases = [b for b in fb.all_bases(c) if b in LOCKS]
        roots[c] = bases[-1] if bases else c
    families = {}
    for c, r in roots.items():
        families.setdefault(r, []).append(c)

    for root, classes in sorted(families.items()):
        most_derived = [c for c in classes if c != root] or [root]
        queues, state = set(), set()
        for c in classes:
            q, s = family_fields(fb, c)
            queues |= q
            state |= s
        if not queues or not state:
            ctx.broken('cannot classify fields of %s (queues=%s state=%s)' % (root, queues, state))
        fam = [f for c in classes for f in methods[c]]
        api = {}
        for f in fam:
            if f.n in EXCL + SHARED + RELEASE:
                api.setdefault(f.n, []).append(f)
        paths_of = {}

        def paths(f):
            if f.key not in paths_of:
                w = LockWalker(fb, queues, state)
                try:
                    paths_of[f.key] = w.run(f)
                except pathwalk.TooManyPaths as e:
                    ctx.broken('path enumeration of %s: %s' % (f.full, e))
            return paths_of[f.key]

        # queues acquirers wait on, per mode
        waitq = {'x': set(), 's': set()}
        for name, fs in api.items():
            if name in RELEASE:
                continue
            for f in fs:
                for st, _ in paths(f):
                    for e in st.events:
                        if e[0] == 'wait':
                            waitq['x' if name in EXCL else 's'].add(e[1])
        allwait = waitq['x'] | waitq['s']
        # reference effect per mode
        ref = {}
        for mode, blocking in (('x', 'lock'), ('s', 'lock_shared')):
            fs = api.get(blocking)
            if not fs:
                continue
            effs = {writes_after_last_wait(st.events) for st, _ in paths(fs[0]) if any(
                e[0] == 'write' for e in st.events)}
            if not effs:
                ctx.broken('blocking %s of %s has no acquire effect' % (blocking, root))
            # usually one effect; a lock that distinguishes cases (re-entrant owner: count + 1, first acquisition:
            # owner := me, count := 1) has one per case — every other acquisition form must offer the same cases
            ref[mode] = frozenset(effs)
        if 'x' not in ref:
            ctx.broken('%s has no lock()' % root)

        # ---------------- R-WAKEALL: a queue on which shared acquirers park is woken as a whole
        if waitq['s']:
            if None in waitq['s']:
                ctx.broken('R-WAKEALL: cannot tell on which queue a shared acquirer of %s parks' % root)
            # baton passing would be the alternative: every successful shared acquisition re-notifies the queue
            def baton(q):
                forms = [f for nm in api if nm in SHARED for f in api[nm]]
                return bool(forms) and all(
                    any(e[0] == 'notify' and e[1] == q for e in st.events)
                    for f in forms for st, rv in paths(f)
                    if any(e[0] == 'write' for e in st.events) and not (rv is not None and rv[0] == 'c' and not rv[1]))
            for name in sorted(api):
                if name not in RELEASE:
                    continue
                for f in api[name]:
                    key = 'R-WAKEALL %s::%s' % (short(f.clsq), f.n)
                    ones = sorted({(e[1], e[3]) for st, _ in paths(f) for e in st.events
                                   if e[0] == 'notify' and e[2] == 'One' and e[1] in waitq['s']})
                    ctx.instance(rwa, key, dict(shared_waiters_park_on=sorted(x.split('::')[-1] for x in waitq['s'])))
                    for q, loc in ones:
                        if baton(q):
                            continue
                        ctx.report(rwa, key, loc, 'NotifyOne on %s, a queue on which lock_shared-style acquirers park '
                                   '(%s): when several readers are blocked only one of them is woken although the lock '
                                   'is then available to all of them, and nothing wakes the others until that reader '
                                   'releases (two readers that wait for each other under the shared lock never '
                                   'finish)' % (q.split('::')[-1], ', '.join(sorted(
                                       '%s' % nm for nm in api if nm in SHARED and any(
                                           e[0] == 'wait' and e[1] == q for g in api[nm] for st, _ in paths(g)
                                           for e in st.events)))))
                        break

        for name in sorted(api):
            for f in api[name]:
                key_base = '%s::%s' % (short(f.clsq), f.n)
                pl = paths(f)
                if name in RELEASE:
                    # ---------------- R-NOTIFY
                    freeing = False
                    for st, _ in pl:
                        ev = st.events
                        freed = [e for e in ev if (e[0] == 'write' and e[2] == ('c', 0)) or e[0] == 'zero']
                        if not freed:
                            continue
                        freeing = True
                        nq = [e for e in ev if e[0] == 'notify']
                        good = [e for e in nq if e[1] in waitq['x']]
                        alt = [e for e in nq if e[1] in allwait] and any(e[0] == 'qtest' for e in ev)
                        if not good and not alt:
                            ctx.report(rn, 'R-NOTIFY ' + key_base, f.where,
                                       'a path that frees the lock notifies no queue on which a blocked locker '
                                       'waits (lost wake-up)', 'path: ' + fmt_events(ev))
                            break
                    if freeing:
                        ctx.instance(rn, key_base, dict(method=f.full, where=f.where, paths=len(pl),
                                                        waited_queues=sorted(x or '?' for x in allwait)))
                    continue
                mode = 'x' if name in EXCL else 's'
                # ---------------- R-WAITLOOP
                nwait = 0
                bad = None
                for st, _ in pl:
                    ev = st.events
                    for i, e in enumerate(ev):
                        if e[0] != 'wait':
                            continue
                        nwait += 1
                        for e2 in ev[i + 1:]:
                            if e2[0] in ('test', 'wait'):
                                break
                            if e2[0] == 'write':
                                bad = bad or (e, e2, ev)
                                break
                if nwait:
                    sites = sorted({e[2] for st, _ in pl for e in st.events if e[0] == 'wait'})
                    for s in sites:
                        ctx.instance(rw, '%s wait@%s' % (key_base, s.split(':')[0].split('/')[-1]),
                                     dict(method=f.full, wait_site=s))
                    if bad:
                        ctx.report(rw, 'R-WAITLOOP ' + key_base, bad[0][2],
                                   'lock state is written after FiberQueue::Wait returns without re-testing it: '
                                   'a woken locker can take a lock that was re-acquired meanwhile (two holders)',
                                   'path: ' + fmt_events(bad[2]))
                # ---------------- R-MODE / R-TRY
                if mode not in ref:
                    ctx.broken('%s has shared-mode method %s but no lock_shared()' % (root, name))
                nm = nt = 0
                rep_m = rep_t = False
                seen_effs = set()
                for st, rv in pl:
                    eff = writes_after_last_wait(st.events)
                    allw = frozenset((e[1], e[2]) for e in st.events if e[0] == 'write')
                    if f.ret == 'void':
                        success = True
                    elif rv is not None and rv[0] == 'c':
                        success = bool(rv[1])
                    else:
                        success = None
                    if success is True or (success is None and eff):
                        nm += 1
                        seen_effs.add(eff)
                        if eff not in ref[mode] and not rep_m:
                            rep_m = True
                            ctx.report(rm, 'R-MODE ' + key_base, f.where,
                                       '%s acquisition leaves lock state {%s}; the blocking %s form leaves {%s}' % (
                                           'exclusive' if mode == 'x' else 'shared',
                                           ', '.join('%s:=%s' % (a.split('::')[-1], b[-1]) for a, b in sorted(eff)),
                                           'lock()' if mode == 'x' else 'lock_shared()',
                                           ' | '.join(', '.join('%s:=%s' % (a.split('::')[-1], b[-1])
                                                                for a, b in sorted(r)) for r in sorted(ref[mode],
                                                                                                        key=sorted))),
                                       'path: ' + fmt_events(st.events))
                    if f.ret == 'bool' and success is not None:
                        nt += 1
                        if success is False and allw and not rep_t:
                            rep_t = True
                            ctx.report(rt, 'R-TRY ' + key_base, f.where, 'a path returning false has written lock '
                                       'state', 'path: ' + fmt_events(st.events))
                        if success is True and not eff and not rep_t:
                            rep_t = True
                            ctx.report(rt, 'R-TRY ' + key_base, f.where, 'a path returning true did not acquire',
                                       'path: ' + fmt_events(st.events))
                if nm and not rep_m and seen_effs and not ref[mode] <= seen_effs:
                    miss = sorted(ref[mode] - seen_effs, key=sorted)[0]
                    ctx.report(rm, 'R-MODE ' + key_base, f.where,
                               'the blocking %s form acquires in %d different ways (one of them leaves {%s}) but this '
                               'form never does that: a case lock() handles (the owner re-entering) is acquired here '
                               'with the effect of another case — ownership levels are lost or invented' % (
                                   'lock()' if mode == 'x' else 'lock_shared()', len(ref[mode]),
                                   ', '.join('%s:=%s' % (a.split('::')[-1], b[-1]) for a, b in sorted(miss))),
                               'method: ' + f.full)
                if nm:
                    ctx.instance(rm, key_base + ('<%s>' % ','.join(f.fta)[:40] if f.fta else ''),
                                 dict(method=f.full, mode=mode, success_paths=nm))
                if nt:
                    ctx.instance(rt, key_base + ('<%s>' % ','.join(f.fta)[:40] if f.fta else ''),
                                 dict(method=f.full, decided_paths=nt))


class EvWalker(pathwalk.Walker):
    """records calls by qualified callee name and branch conditions that contain given calls"""

    def __init__(self, fb, inline_pred=None, cond_calls=()):
        super().__init__(fb)
        self.inline_pred = inline_pred
        self.cond_calls = cond_calls

    def inline(self, fn, n, st):
        if self.inline_pred:
            g = self.fb.fn.get(n.get('ck'))
            if g is not None and g.cfg is not None and st.depth < 3 and self.inline_pred(g):
                return g
        return None

    def on_inline(self, fn, n, g, st):
        st.events.append(('call', n['cn'], n['i'], fn.loc(n), st.depth))

    def on_node(self, fn, n, st):
        if 'cn' in n and n['k'] != 'CXXNewExpr':
            st.events.append(('call', n['cn'], n['i'], fn.loc(n), st.depth))
        if n['k'] == 'BinaryOperator' and n['op'] == '=':
            l = fn.sn(n['ch'][0])
            if l is not None and l['k'] == 'MemberExpr':
                st.events.append(('write', l['dn'], self.ev(fn, n['ch'][1], st), fn.loc(n)))

    def on_edge(self, fn, ci, taken, st):
        for j in fn.descendants(ci):
            m = fn.nodes[j]
            if 'cn' in m and m['cn'] in self.cond_calls:
                st.events.append(('test', m['cn'], taken))


def check_cv(ctx, fb):
    rc = ctx.rule('R-CV', 'condition variable shape: unlock -> park -> lock; predicate loop; notify reaches the queue; '
                  'timed status from Erase()', minimum=10)
    CV = NS + 'ConditionVariable'
    fns = [f for f in fb.fn.values() if f.clsq == CV]
    # --- WaitImpl
    impls = [f for f in fns if f.n == 'WaitImpl']
    if not impls:
        ctx.broken('ConditionVariable::WaitImpl not instantiated')
    for f in impls:
        key = 'R-CV WaitImpl<%s>' % (f.fta[0].split('::')[-1][:30] if f.fta else '')
        ctx.instance(rc, key, dict(method=f.full))
        for st, _ in EvWalker(fb).run(f):
            seq = [e[1] for e in st.events if e[0] == 'call']
            order = [('U' if c == 'std::unique_lock::unlock' else 'W' if c == QUEUE_T + '::Wait' else
                      'L' if c == 'std::unique_lock::lock' else '') for c in seq]
            s = ''.join(order)
            if s != 'UWL':
                ctx.report(rc, key, f.where, 'wait does not release the mutex, park, and re-acquire in that order '
                           '(saw %r)' % s)
                break
    # --- predicate forms
    preds = [f for f in fns if f.n == 'WaitImplWithPredicate']
    if len(preds) < 2:
        ctx.broken('predicate wait forms not instantiated')
    for f in preds:
        key = 'R-CV WaitImplWithPredicate<%s>' % (f.fta[0].split('::')[-1][:30] if f.fta else '')
        ctx.instance(rc, key, dict(method=f.full))
        timed = not f.fta[0].endswith('NoTimeoutTag')
        inl = lambda g: g.qn in (CV + '::WaitImpl', QUEUE_T + '::Wait')  # noqa: E731
        for st, rv in EvWalker(fb, inline_pred=inl).run(f):
            s = ''
            for e in st.events:
                if e[0] != 'call' or e[4] != 0:
                    continue
                if e[1].endswith('::operator()') and '(lambda' in fb_callee_record(fb, f, e[2]):
                    s += 'p'
                elif e[1] == CV + '::WaitImpl':
                    s += 'w'
            if not re.fullmatch(r'(pw)*p+', s):
                ctx.report(rc, key, f.where, 'predicate wait does not follow  while(!pred()) wait;  (saw %r: p = '
                           'predicate evaluated, w = wait)' % s)
                break
    # --- notify
    for name, need in (('notify_one', ('One', 'All')), ('notify_all', ('All',))):
        fs = [f for f in fns if f.n == name]
        if not fs:
            ctx.broken('ConditionVariable::%s missing' % name)
        key = 'R-CV ' + name
        ctx.instance(rc, key, dict(method=fs[0].full))
        for st, _ in EvWalker(fb).run(fs[0]):
            got = [e[1][-3:] for e in st.events if e[0] == 'call' and e[1].startswith(QUEUE_T + '::Notify')]
            if not any(g in need for g in got):
                ctx.report(rc, key, fs[0].where, '%s does not reach FiberQueue::Notify%s' % (name, '/'.join(need)))
                break
    # --- queue wait forms
    ws = [f for f in fb.fn.values() if f.qn == QUEUE_T + '::Wait']
    enum = fb.enums.get('yaclib::detail::WaitStatus')
    if not enum or len(ws) < 3:
        ctx.broken('FiberQueue::Wait overloads / WaitStatus enum not found (%d overloads)' % len(ws))
    for f in ws:
        ptype = f.locals[f.params[0]]['t'] if f.params else ''
        if 'NoTimeoutTag' in ptype:
            key = 'R-CV FiberQueue::Wait(NoTimeout)'
            ctx.instance(rc, key, dict(method=f.full))
            for st, rv in EvWalker(fb).run(f):
                seq = [e[1].split('::')[-1] for e in st.events if e[0] == 'call']
                if 'PushBack' not in seq or 'Suspend' not in seq or seq.index('PushBack') > seq.index('Suspend'):
                    ctx.report(rc, key, f.where, 'the fiber is not queued before it suspends (saw %s)' % seq)
                elif rv != ('c', enum['Ready']):
                    ctx.report(rc, key, f.where, 'untimed wait must report Ready')
        elif 'time_point' in ptype:
            key = 'R-CV FiberQueue::Wait(time_point)'
            ctx.instance(rc, key, dict(method=f.full))
            seqs = set()
            for st, rv in EvWalker(fb).run(f):
                seqs.add(tuple(e[1].split('::')[-1] for e in st.events if e[0] == 'call' and e[1].split('::')[-1] in
                               ('PushBack', 'SleepPreemptive', 'Erase')))
            if seqs != {('PushBack', 'SleepPreemptive', 'Erase')}:
                ctx.report(rc, key, f.where, 'timed wait must queue the fiber, sleep, then test whether it is still '
                           'queued (saw %s)' % sorted(seqs))
            # status = Erase() ? Timeout : Ready
            ok = False
            for n in f.nodes:
                if n['k'] == 'ReturnStmt' and n.get('ch'):
                    c = f.sn(n['ch'][0])
                    if c['k'] == 'ConditionalOperator':
                        cond, a, b = c['ch']
                        cn = f.sn(cond)
                        src = None
                        if cn['k'] == 'DeclRefExpr' and 'id' in cn:
                            for d in f.nodes:
                                if d['k'] == 'DeclStmt':
                                    for v in d['vars']:
                                        if v['id'] == cn['id'] and 'init' in v:
                                            src = f.sn(v['init'])
                        elif 'cn' in cn:
                            src = cn
                        if src is not None and src.get('cn', '').endswith('Node::Erase'):
                            ok = f.sn(a).get('v') == enum['Timeout'] and f.sn(b).get('v') == enum['Ready']
                        else:
                            ok = False
                    else:
                        ctx.broken('FiberQueue::Wait(time_point) returns through an unrecognised form at %s' %
                                   f.loc(n))
            if not ok:
                ctx.report(rc, key, f.where, 'timed wait status is not  Erase() ? Timeout : Ready  (a fiber still '
                           'queued after the sleep timed out; one removed by a notify is Ready)')
        else:
            key = 'R-CV FiberQueue::Wait(duration)'
            ctx.instance(rc, key, dict(method=f.full))
            calls = [c['cn'] for c in f.calls()]
            if QUEUE_T + '::Wait' not in calls or not any(c.endswith('SystemClock::now') for c in calls):
                ctx.report(rc, key, f.where, 'relative wait must forward to the absolute form with now() + duration')


def fb_callee_record(fb, f, node_i):
    return f.nodes[node_i].get('cr', '')


def check_join(ctx, fb):
    rj = ctx.rule('R-JOIN', 'join registers itself then suspends and re-tests completion after every resume; Exit '
                  'marks completed before scheduling the joiner', minimum=2)
    T = NS + 'Thread'
    FB = NS + 'FiberBase'
    SUSP = 'yaclib::fault::Scheduler::Suspend'
    join = [f for f in fb.fn.values() if f.qn == T + '::join']
    if not join:
        ctx.broken('fiber Thread::join not found')
    f = join[0]
    ctx.instance(rj, 'R-JOIN Thread::join', dict(method=f.full))
    w = EvWalker(fb, cond_calls=(FB + '::GetState',))
    w.loop_bound = 1
    nsusp = 0
    for st, _ in w.run(f):
        ev = st.events
        for i, e in enumerate(ev):
            if e[0] == 'call' and e[1] == SUSP:
                nsusp += 1
                before = [x[1] for x in ev[:i] if x[0] == 'call']
                if FB + '::SetJoiningFiber' not in before:
                    ctx.report(rj, 'R-JOIN Thread::join', f.loc(f.nodes[e[2]]), 'suspends without registering as '
                               'the joining fiber first (never woken)')
                for x in ev[i + 1:]:
                    if x[0] == 'test' or (x[0] == 'call' and x[1] == SUSP):
                        break
                    if x[0] == 'call' and x[1] == T + '::AfterJoinOrDetach':
                        ctx.report(rj, 'R-JOIN Thread::join', f.loc(f.nodes[e[2]]),
                                   'join proceeds after a resume without re-testing that the thread completed')
                        break
    if nsusp == 0:
        ctx.broken('Thread::join never suspends: idiom not recognised')
    ex = [g for g in fb.fn.values() if g.qn == FB + '::Exit']
    if not ex:
        ctx.broken('FiberBase::Exit not found')
    g = ex[0]
    ctx.instance(rj, 'R-JOIN FiberBase::Exit', dict(method=g.full))
    comp = fb.enums.get(NS + 'FiberState', {}).get('Completed')
    found = False
    for st, _ in EvWalker(fb).run(g):
        ev = st.events
        for i, e in enumerate(ev):
            if e[0] == 'call' and e[1].endswith('ScheduleFiber'):
                found = True
                if not any(x[0] == 'write' and x[1] == FB + '::_state' and x[2] == ('c', comp) for x in ev[:i]):
                    ctx.report(rj, 'R-JOIN FiberBase::Exit', g.where, 'the joiner is scheduled before the fiber is '
                               'marked Completed (join re-test would suspend again, forever)')
    if not found:
        ctx.report(rj, 'R-JOIN FiberBase::Exit', g.where, 'a finishing fiber never schedules its joining fiber')


WRAPPERS = {
    'yaclib::detail::Mutex': ('lock', 'try_lock', 'unlock'),
    'yaclib::detail::TimedMutex': ('try_lock_for', 'try_lock_until'),
    'yaclib::detail::RecursiveMutex': (),
    'yaclib::detail::RecursiveTimedMutex': (),
    'yaclib::detail::SharedMutex': ('lock_shared', 'try_lock_shared', 'unlock_shared'),
    'yaclib::detail::SharedTimedMutex': ('try_lock_for', 'try_lock_until', 'try_lock_shared_for',
                                          'try_lock_shared_until'),
    'yaclib::detail::ConditionVariable': ('notify_one', 'notify_all', 'wait', 'wait_for', 'wait_until'),
}


def check_forward(ctx, fb):
    rf = ctx.rule('R-FORWARD', 'each injection-wrapper method calls the same-named operation of Impl exactly once on '
                  'every path', minimum=20)
    n = 0
    for f in fb.fn.values():
        if f.clsq in WRAPPERS and f.n in EXCL + SHARED + RELEASE + WRAPPERS['yaclib::detail::ConditionVariable']:
            if f.cfg is None:
                continue
            key = 'R-FORWARD %s::%s%s' % (f.clsq, f.n, '/%d' % len(f.params))
            ctx.instance(rf, key, dict(method=f.full))
            for st, _ in EvWalker(fb).run(f):
                impl = [e for e in st.events if e[0] == 'call' and e[1].startswith(NS) and
                        e[1].split('::')[-1] in EXCL + SHARED + RELEASE + WRAPPERS['yaclib::detail::ConditionVariable']]
                names = [e[1].split('::')[-1] for e in impl]
                if names != [f.n]:
                    ctx.report(rf, key, f.where, 'wrapper %s forwards to %s' % (f.n, names or 'nothing'))
                elif f.ret != 'void' and f.n.startswith('try_lock'):
                    # the wrapper answers what Impl answered: every return hands back the forwarded call itself or the
                    # local it was stored in — never a value combined with something else (try_lock() || true)
                    call = [c for c in f.calls() if c.get('cr', '').startswith('yaclib::detail::') and
                            c['cn'].split('::')[-1] == f.n][0]
                    holders = {v['id'] for d in f.own_nodes() if d['k'] == 'DeclStmt' for v in d['vars']
                               if 'init' in v and (v['init'] == call['i'] or call['i'] in set(f.descendants(v['init'])))}
                    for r in [x for x in f.own_nodes() if x['k'] == 'ReturnStmt' and x.get('ch')]:
                        e = f.sn(r['ch'][0])
                        while e is not None and e['k'] in ('ImplicitCastExpr', 'ParenExpr', 'ExprWithCleanups',
                                                           'MaterializeTemporaryExpr', 'CXXConstructExpr') and \
                                (e.get('ch') or e.get('args')):
                            e = f.sn((e.get('args') or e.get('ch'))[0])
                        ok = e is not None and (e['i'] == call['i'] or (e['k'] == 'DeclRefExpr' and e.get('id') in holders))
                        if not ok:
                            ctx.report(rf, key, f.loc(r), 'wrapper %s does not return what Impl::%s answered (%s): a '
                                       'failed acquisition can be reported as a success' % (
                                           f.n, f.n, f.text(r['ch'][0])[:60]))
                            break
                    break


class _SlotWalker(pathwalk.Walker):
    """events: ('empty', truth) a branch on BiList::Empty(); ('erase', nargs, loc) an erase on the sleep list;
    ('moved-all', loc) PushAll(std::move(slot)) — every sleeper of a slot goes to the run queue"""
    loop_bound = 1

    def on_node(self, fn, n, st):
        if n['k'] == 'CXXMemberCallExpr':
            last = n['cn'].split('::')[-1]
            if last == 'erase' and n.get('obj') is not None:
                o = fn.sn(n['obj'])
                while o is not None and o['k'] in ('ImplicitCastExpr', 'UnaryOperator') and o.get('ch'):
                    o = fn.sn(o['ch'][0])
                if o is not None and o['k'] == 'MemberExpr' and o.get('mn') == '_sleep_list':
                    st.events.append(('erase', len(n.get('args', [])), fn.loc(n)))
            elif last == 'PushAll':
                st.events.append(('moved-all', fn.loc(n)))

    def on_edge(self, fn, ci, taken, st):
        c = fn.sn(ci)
        neg = False
        while c is not None and c['k'] == 'UnaryOperator' and c['op'] == '!':
            neg = not neg
            c = fn.sn(c['ch'][0])
        if c is None:
            return
        names = [fn.nodes[j].get('cn', '') for j in fn.deep_descendants(c['i'])] + [c.get('cn', '')]
        if any(x.endswith('BiList::Empty') for x in names):
            st.events.append(('empty', taken != neg))


def check_sleep_slots(ctx, fb, rule):
    """R-SLEEPSLOT: the scheduler keeps its sleepers in slots (one list per wake-up time).  A slot may be erased from
    the sleep list only when nobody sleeps in it any more: on a path that saw its list Empty(), or (the range erase of
    WakeUpNeeded) after every sleeper of the erased slots was moved to the run queue.  Erasing a slot that still holds
    a fiber destroys the only link to it: its sleep / timed wait never ends and join() on it never returns."""
    n = 0
    for f in fb.fn.values():
        if f.cfg is None or f.clsq != 'yaclib::fault::Scheduler':
            continue
        if not any(c['cn'].split('::')[-1] == 'erase' for c in f.calls()):
            continue
        res = _SlotWalker(fb).run(f)
        sites = sorted({e[2] for st, _ in res for e in st.events if e[0] == 'erase'})
        for site in sites:
            key = 'R-SLEEPSLOT %s erase@%s' % (f.qn.split('::')[-1], site.rsplit(':', 1)[-1] if False else f.n)
            ctx.instance(rule, 'R-SLEEPSLOT %s' % f.qn, dict(site=site))
            n += 1
            for st, _ in res:
                ev = st.events
                for i, e in enumerate(ev):
                    if e[0] != 'erase' or e[2] != site:
                        continue
                    ok = ('empty', True) in ev[:i] if e[1] == 1 else any(x[0] == 'moved-all' for x in ev[:i]) or \
                        not any(x[0] == 'erase' for x in ev[:i + 1] if False)
                    if e[1] != 1:
                        # range erase: allowed when the function moves whole slots to the run queue (PushAll); a path
                        # that erases without having moved anything erases the empty range [begin, begin)
                        ok = any(c['cn'].split('::')[-1] == 'PushAll' for c in f.calls())
                    if not ok:
                        ctx.report(rule, 'R-SLEEPSLOT %s' % f.qn, site, 'a slot of the sleep list is erased on a path that '
                                   'did not see its list Empty(): another fiber sleeping until the same instant is cut '
                                   'off — its sleep_until / timed wait never ends and join() on it never returns')
                        break
                else:
                    continue
                break
    return n


def run(ctx):
    fbs = ctx.facts(['KF'], kinds=('lib', 'probe'), only=r'p_std\.cpp$|src/fault/fiber/', tests=r'/test/')
    fb = fbs['KF']
    ctx.assume('fibers are cooperative: a lock method is pre-empted only inside FiberQueue::Wait / InjectFault')
    ctx.assume('acquire/release API names are those of the std contracts (lock, try_lock*, lock_shared*, unlock*)')
    ctx.guard(lambda: check_locks(ctx, fb))
    ctx.guard(lambda: check_cv(ctx, fb))
    ctx.guard(lambda: check_join(ctx, fb))
    ctx.guard(lambda: check_forward(ctx, fb))
    rsl = ctx.rule('R-SLEEPSLOT', 'a slot of the scheduler\'s sleep list is erased only when nobody sleeps in it (Empty() seen '
                   'on the path) or after its sleepers were moved to the run queue', minimum=2)
    ctx.guard(lambda: check_sleep_slots(ctx, fb, rsl))
    rtls = ctx.rule('R-TLS', 'thread-local pointers are per fiber: fiber::GetImpl / Set go through GetTLS / SetTLS of the '
                    'current fiber, whose values live in the fiber object (_tls) and nowhere with static storage',
                    minimum=4)
    from rules import lib_tls
    if (ctx.guard(lambda: lib_tls.check_tls(ctx, fb, rtls)) or 0) < 4:
        ctx.guard(lambda: ctx.broken('R-TLS: the thread-local proxy functions were not found'))
    rodr = ctx.rule('R-ODR', 'every inline / constexpr library function used by the yaclib_std wrappers is defined in the '
                    'translation unit that uses it (otherwise that part of the API does not link)', minimum=1)
    from rules import lib_core
    ctx.guard(lambda: lib_core.check_undefined_inline(ctx, fb, rodr))
