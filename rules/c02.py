"""C02 — a pipeline computes what its steps say: routing, recovery, unwrapping (structural clauses).

  R-ACCESSOR  in every Core::CallResolveState instantiation each Result accessor sees exactly its state
  R-DISPATCH  in every Core::CallResolveState instantiation each input state reaches exactly one of
              {invoke the functor (CallResolveAsync), pass through (Done)}; the invoking state is a single state K
              and the pass-through paths carry the other states
  R-TRY       every invocation of the stored functor is (transitively) inside a try block whose catch-all handler
              stores current_exception() through Done / Promise::Set
  R-HEAD      a returned Task, however it was built, can be started by the step (see lib_head)
"""
from rules import lib_accessor, lib_head
from vlib import facts, pathwalk

CORE = 'include/yaclib/algo/detail/core.hpp'


class DispatchWalker(lib_accessor.AccWalker):
    def __init__(self, fb, enum):
        super().__init__(fb, enum)

    def on_node(self, fn, n, st):
        super().on_node(fn, n, st)
        if n['k'] == 'CXXMemberCallExpr' and n['cn'] in ('yaclib::detail::Core::CallResolveAsync',
                                                         'yaclib::detail::Core::Done'):
            # the Result under dispatch is the first parameter of CallResolveState
            key = ('l', st.depth, fn.params[0])
            st.events.append((n['cn'].split('::')[-1], self.get_set(st, key), fn.loc(n),
                              self.arg_class(fn, n, st, key)))

    def arg_class(self, fn, n, st, key):
        """what a dispatch action is given: 'whole' (the Result under dispatch itself), 'V' / 'X' / 'R' (the matching
        alternative taken out of it: r.Value() / .Exception() / .Error() / std::get<T>(r.Internal())), or 'other'"""
        if not n.get('args'):
            return 'other'
        i = n['args'][0]
        for _ in range(8):
            i = fn.strip(i)
            m = fn.nodes[i]
            if m['k'] == 'CallExpr' and m.get('cn') in lib_accessor.TRANSPARENT and m.get('args'):
                i = m['args'][0]
                continue
            if m['k'] in ('MaterializeTemporaryExpr', 'CXXBindTemporaryExpr', 'ExprWithCleanups') and m.get('ch'):
                i = m['ch'][0]
                continue
            break
        m = fn.nodes[i]
        if self.obj(fn, i, st) == key:
            return 'whole'
        if m['k'] == 'CXXMemberCallExpr' and m.get('obj') is not None and self.obj(fn, m['obj'], st) == key:
            for name, letter in lib_accessor.ACC.items():
                if self.is_result_method(m, name):
                    return letter
        if m['k'] == 'CallExpr' and m.get('cn') == 'std::get' and m.get('args') and m.get('cta'):
            inner = fn.sn(m['args'][0])
            while inner is not None and inner['k'] == 'CallExpr' and inner.get('cn') in lib_accessor.TRANSPARENT:
                inner = fn.sn(inner['args'][0])
            if inner is not None and inner['k'] == 'CXXMemberCallExpr' and inner['cn'].endswith('::Internal') and \
                    self.obj(fn, inner['obj'], st) == key:
                t = m['cta'][0]
                return 'X' if 'exception_ptr' in t else 'R'
        return 'other'


def check_dispatch(ctx, fb, rd, rcls=None):
    enum = fb.enums.get(lib_accessor.STATE_ENUM)
    fs = [f for f in fb.fn.values() if f.qn == 'yaclib::detail::Core::CallResolveState' and f.cfg is not None]
    if not fs:
        ctx.broken('Core::CallResolveState not instantiated')
    for f in fs:
        w = DispatchWalker(fb, enum)
        res = w.run(f)
        inv, pas = set(), set()
        bad = None
        for st, _ in res:
            ev = [e for e in st.events if e[0] in ('CallResolveAsync', 'Done')]
            if len(ev) != 1:
                bad = 'a path performs %d dispatch actions (expected exactly one of invoke / pass-through)' % len(ev)
                break
            (inv if ev[0][0] == 'CallResolveAsync' else pas).update(ev[0][1])
            # what is handed on: the functor gets the matching alternative (or the whole Result), and a skipped
            # callback passes its input through unchanged — the same alternative of the same Result, or all of it
            states, cls = ev[0][1], ev[0][3]
            if cls == 'other' or (cls != 'whole' and set(states) != {cls}):
                bad = '%s on input state(s) {%s} is given %s instead of %s' % (
                    'the functor' if ev[0][0] == 'CallResolveAsync' else 'the pass-through (skipped callback)',
                    ','.join(sorted(states)),
                    'something that is not taken from the input Result' if cls == 'other' else 'alternative ' + cls,
                    'the input Result / its matching alternative: the failure (or value) does not pass through '
                    'unchanged')
                break
        key = 'R-DISPATCH Core::CallResolveState'
        ctx.instance(rd, key + ' :: ' + f.cls[:150], dict(function=f.full[:200], invoke_on=''.join(sorted(inv)),
                                                           pass_on=''.join(sorted(pas))))
        if bad is None:
            if len(inv) != 1:
                bad = 'the functor is invoked on states {%s}: a callback runs on exactly one kind of input' % \
                      ','.join(sorted(inv))
            elif inv & pas:
                bad = 'state %s is both invoked and passed through' % ','.join(sorted(inv & pas))
            elif inv | pas != lib_accessor.ALL:
                bad = 'states {%s} reach neither the functor nor the pass-through' % \
                      ','.join(sorted(lib_accessor.ALL - inv - pas))
        if bad:
            ctx.report(rd, key, f.where, bad, 'instantiation: ' + f.full[:300])
            continue
        # ---- the invoking state is the one the callback was written for (decided from the callback's own signature,
        # not from the library's classification): a callback whose parameter is the value type runs on Value, one taking
        # E on Error, one taking exception_ptr on Exception
        if rcls is None:
            continue
        want = callback_class(fb, f)
        if want is None:
            continue
        key = 'R-DISPATCH.class Core::CallResolveState'
        ctx.instance(rcls, key + ' :: ' + f.cls[:150], dict(callback_takes=want[1][:80], must_run_on=want[0],
                                                             runs_on=''.join(sorted(inv))))
        if inv != {want[0]}:
            names = dict(V='Value', R='Error', X='Exception')
            ctx.report(rcls, key, f.where, 'a callback that takes %s (%s) is invoked on state %s and skipped on %s: the '
                       'run-time dispatch classifies it differently from its signature (and from the deduction of the '
                       'step\'s type)' % (want[1][:80], dict(V='the value', R='the error', X='the exception')[want[0]],
                                         '/'.join(names.get(x, x) for x in sorted(inv)), names[want[0]]),
                       'instantiation: ' + f.full[:300])


def _norm(t):
    t = t.strip()
    for _ in range(3):
        for suf in (' &&', ' &', '&&', '&'):
            if t.endswith(suf):
                t = t[:-len(suf)].strip()
        if t.startswith('const '):
            t = t[6:].strip()
        if t.endswith(' const'):
            t = t[:-6].strip()
    return t


def callback_class(fb, f):
    """('V'|'R'|'X', parameter type) from the signature of the callback stored in this Core instantiation, or None
    when it does not name one of the three kinds exactly (conversions, generic lambdas, Result callbacks)"""
    cta = f.cta or []
    if len(cta) < 4:
        return None
    arg, err, func = _norm(cta[1]), _norm(cta[2]), _norm(cta[3])
    if not func.startswith('(lambda at '):
        return None
    cls = '(lambda ' + func[len('(lambda at '):]
    sigs = set()
    for g in fb.lambda_ops(cls):
        sigs.add(tuple(_norm(g.locals[p]['t']) for p in g.params))
    if len(sigs) != 1:
        return None
    sig = next(iter(sigs))
    if len(sig) == 0:
        return ('V', 'nothing')
    if len(sig) != 1:
        return None
    p = sig[0]
    if p == arg or (arg == 'void' and p == 'yaclib::Unit'):
        return ('V', p)
    if p == err:
        return ('R', p)
    if p in ('std::exception_ptr', 'std::__exception_ptr::exception_ptr'):
        return ('X', p)
    return None


def check_invoke_once(ctx, fb, rule):
    """R-INVOKE: a step invokes its callback exactly once when it runs it, and completes with what the callback
    returned (Unit for a void callback): per instantiation of Core::CallResolveVoid / CallResolveAsync."""
    n = 0
    for f in fb.fn.values():
        if f.cfg is None or not f.file.endswith('algo/detail/core.hpp'):
            continue
        if f.qn == 'yaclib::detail::Core::CallResolveVoid':
            key = 'R-INVOKE Core::CallResolveVoid'
            invs = functor_invocations(f)
            if not invs:
                # the invocation may have been extracted into a private helper of the same class
                for c in f.calls():
                    g = fb.fn.get(c.get('ck'))
                    if g is not None and g.cfg is not None and g.clsq == f.clsq and not g.n.startswith('CallResolve') \
                            and g.n not in ('Done', 'CallImpl', 'SetResult'):
                        invs += functor_invocations(g)
                        f_ret_helper = g
            ctx.instance(rule, key + ' :: ' + f.cls[:120], dict(invocations=len(invs), returns=f.ret[:60]))
            n += 1
            if len(invs) != 1:
                ctx.report(rule, key, f.where, 'the stored callback is invoked %d times by one run of the step' %
                           len(invs), 'instantiation: ' + f.full[:300])
                continue
            t = invs[0].get('t', '')
            rets = [x for x in f.own_nodes() if x['k'] == 'ReturnStmt' and x.get('ch')]
            if t == 'void':
                if f.ret != 'yaclib::Unit':
                    ctx.report(rule, key, f.where, 'a void callback that ran must complete the step with Unit (a '
                               'value); it completes with %s' % f.ret, 'instantiation: ' + f.full[:300])
            elif invs[0]['i'] < len(f.nodes) and f.nodes[invs[0]['i']] is invs[0]:
                direct = [r for r in rets if invs[0]['i'] in [f.strip(r['ch'][0])] + list(f.descendants(r['ch'][0]))]
                if len(rets) != 1 or not direct:
                    ctx.report(rule, key, f.where, 'the step must complete with what its callback returned',
                               'instantiation: ' + f.full[:300])
        elif f.qn == 'yaclib::detail::Core::CallResolveAsync':
            key = 'R-INVOKE Core::CallResolveAsync'
            calls = [c for c in f.calls() if c['cn'] == 'yaclib::detail::Core::CallResolveVoid']
            ctx.instance(rule, key + ' :: ' + f.cls[:120], dict(invocations=len(calls)))
            n += 1
            if len(calls) != 1:
                ctx.report(rule, key, f.where, 'the callback is run %d times by one run of the step' % len(calls),
                           'instantiation: ' + f.full[:300])
    if n < 20:
        ctx.broken('R-INVOKE: only %d CallResolveVoid / CallResolveAsync instantiations' % n)


def in_try_with_catch_all(fn, i, bad_handlers=None):
    """is node i lexically inside the try block of a CXXTryStmt that has a catch(...) handler storing
    current_exception()?  Handlers of that try statement that complete the step with anything else than
    current_exception() (and do not rethrow) are appended to bad_handlers: they turn some thrown types into a
    different state than Exception."""
    par = fn.parents
    cur = i
    while cur in par:
        p = par[cur]
        n = fn.nodes[p]
        if n['k'] == 'CXXTryStmt':
            ch = n.get('ch', [])
            if ch and ch[0] == cur:  # came from the try block, not from a handler
                ok = False
                others = []
                for h in ch[1:]:
                    hn = fn.nodes[h]
                    if hn['k'] == 'CXXCatchStmt':
                        ds = [fn.nodes[d] for d in fn.descendants(h)]
                        calls = [d.get('cn', '') for d in ds]
                        rethrow = any(d['k'] == 'CXXThrowExpr' and not [c for c in d.get('ch', []) if c >= 0]
                                      for d in ds)
                        if 'std::current_exception' in calls:
                            ok = True
                        elif not rethrow:
                            others.append(h)
                if ok:
                    if bad_handlers is not None:
                        bad_handlers.extend(others)
                    return True
        cur = p
    return False


def functor_invocations(fn):
    """call nodes that invoke the user's functor: callee object is FuncCore::State::storage or a local moved
    from it"""
    out = []
    moved = set()
    for n in fn.own_nodes():
        if n['k'] == 'DeclStmt':
            for v in n['vars']:
                if 'init' in v and any(fn.nodes[d].get('dn', '').endswith('State::storage')
                                       for d in fn.descendants(v['init'])):
                    moved.add(v['id'])
    for n in fn.own_nodes():
        if n['k'] not in ('CXXOperatorCallExpr', 'CallExpr', 'CXXMemberCallExpr'):
            continue
        if n['k'] == 'CXXOperatorCallExpr' and n.get('op') == '()':
            tgt = n['args'][0]
        elif n['k'] == 'CallExpr' and 'cn' not in n and n.get('ch'):
            tgt = n['ch'][0]  # call through a function pointer / reference
            if fn.nodes[fn.strip(tgt)]['k'] == 'CXXPseudoDestructorExpr':
                continue  # storage.~Storage() of a function-pointer functor: a no-op, not an invocation
        else:
            continue
        hit = False
        for d in fn.descendants(tgt):
            m = fn.nodes[d]
            if m.get('dn', '').endswith('State::storage') or (m['k'] == 'DeclRefExpr' and m.get('id') in moved):
                hit = True
        if hit:
            out.append(n)
    return out


def check_try(ctx, fb, rt):
    by_cls = {}
    for f in fb.fn.values():
        if f.clsq in ('yaclib::detail::Core', 'yaclib::detail::PromiseCore'):
            by_cls.setdefault(f.cls, []).append(f)
    if not by_cls:
        ctx.broken('no Core/PromiseCore instantiation')
    ninv = 0
    for cls, fs in sorted(by_cls.items()):
        keys = {f.key: f for f in fs}
        need = {}  # function key -> reason chain (needs a protecting caller)
        for f in fs:
            for n in functor_invocations(f):
                ninv += 1
                bad = []
                if not in_try_with_catch_all(f, n['i'], bad):
                    need.setdefault(f.key, f.loc(n))
                for h in bad:
                    ctx.report(rt, 'R-TRY %s typed handler' % f.qn, f.loc(f.nodes[h]),
                               'a handler of the try block around the callback completes the step without '
                               'current_exception(): exceptions of that type do not become the Exception state',
                               'class: %s' % cls[:300])
        if not need:
            if any(functor_invocations(f) for f in fs):
                ctx.instance(rt, 'R-TRY ' + cls[:160], dict(cls=cls[:200], protected='at the invocation'))
            continue
        # propagate to callers inside the class
        changed = True
        unprotected_entry = None
        seen = set()
        work = list(need)
        while work:
            k = work.pop()
            if k in seen:
                continue
            seen.add(k)
            g = keys[k]
            callers = []
            for f in fs:
                for n in f.own_nodes():
                    if n.get('ck') == k:
                        callers.append((f, n))
            if g.n in ('Call', 'Drop', 'Here', 'Next') and 'virtual' in g.flags:
                unprotected_entry = (g, need.get(k))
                break
            if not callers:
                # not called inside the class: instantiated but unused helper
                continue
            for f, n in callers:
                bad = []
                if not in_try_with_catch_all(f, n['i'], bad):
                    need.setdefault(f.key, f.loc(n))
                    work.append(f.key)
                for h in bad:
                    ctx.report(rt, 'R-TRY %s typed handler' % f.qn, f.loc(f.nodes[h]),
                               'a handler of the try block around the callback completes the step without '
                               'current_exception(): exceptions of that type do not become the Exception state',
                               'class: %s' % cls[:300])
        ctx.instance(rt, 'R-TRY ' + cls[:160], dict(cls=cls[:200], protected='by a caller\'s try block'))
        if unprotected_entry:
            g, loc = unprotected_entry
            ctx.report(rt, 'R-TRY %s' % g.qn, g.where,
                       'the stored functor can be invoked from %s with no enclosing try/catch(...) that stores '
                       'current_exception(): a throwing callback escapes a noexcept chain (terminate) instead of '
                       'becoming the Exception state' % g.n, 'class: %s\nunprotected call at: %s' % (cls[:300], loc))
    if ninv == 0:
        ctx.broken('R-TRY: no functor invocation recognised (idiom changed)')


def check_entries(ctx, fb, re_):
    """Call() and Drop() of every Core route their input through CallImpl (the dispatch); neither completes the
    step directly: a stopped executor must not bypass callbacks that take Result / the error"""
    n = 0
    for f in fb.fn.values():
        if f.clsq != 'yaclib::detail::Core' or f.n not in ('Call', 'Drop') or 'virtual' not in f.flags:
            continue
        n += 1
        key = 'R-DISPATCH.entry Core::%s' % f.n
        ctx.instance(re_, key + ' :: ' + f.cls[:140], None)
        own = f.own_nodes()
        direct = [x for x in own if x.get('cn') in ('yaclib::detail::Core::Done', 'yaclib::detail::ResultCore::Store',
                                                    'yaclib::detail::BaseCore::SetResultImpl')]
        via = [x for x in own if x.get('cn') == 'yaclib::detail::Core::CallImpl']
        if direct or len(via) < 1:
            ctx.report(re_, key, f.loc(direct[0]) if direct else f.where,
                       '%s() completes the step without going through the callback dispatch (CallImpl): a callback '
                       'that takes Result or the error type is skipped on this path' % f.n,
                       'instantiation: ' + f.full[:300])
        if f.n == 'Drop' and via:
            arg = via[0]['args'][0] if via[0].get('args') else None
            if arg is None or not any('yaclib::StopTag' in f.nodes[d].get('t', '') for d in f.descendants(arg)):
                ctx.report(re_, key, f.loc(via[0]), 'a dropped step must dispatch Result{StopTag}',
                           'instantiation: ' + f.full[:300])
    if n < 100:
        ctx.broken('Core::Call/Drop instantiations not found (%d)' % n)


def _variant_alts(t):
    """alternatives of 'std::variant<A, B<x, y>, C>'"""
    if not t.startswith('std::variant<'):
        return None
    body = t[len('std::variant<'):-1]
    out, depth, cur = [], 0, ''
    for ch in body:
        if ch == '<':
            depth += 1
        elif ch == '>':
            depth -= 1
        if ch == ',' and depth == 0:
            out.append(cur.strip())
            cur = ''
        else:
            cur += ch
    out.append(cur.strip())
    return out


def check_result(ctx, fb, rule):
    """R-RESULT: the carrier itself.  Result<V,E>::State() is the variant index cast to ResultState, so the order of
    the variant alternatives must be the order of the enumerators (Value: V/Unit, Exception: exception_ptr, Error: E,
    Empty: monostate); every constructor initialises the alternative of its parameter kind; every accessor takes the
    alternative of its name; operator bool is State() == Value; Get() maps Value -> Value(), Exception -> rethrow,
    Error -> throw ResultError, anything else -> throw ResultEmpty."""
    enum = fb.enums.get('yaclib::ResultState')
    if not enum:
        ctx.broken('ResultState not found')
    n = 0
    for r in sorted(fb.records.values(), key=lambda r: r.name):
        if r.qn != 'yaclib::Result' or not r.fields:
            continue
        alts = _variant_alts(r.fields[0]['t'])
        if not alts or len(alts) != 4:
            ctx.broken('R-RESULT: storage of %s is not a 4-alternative variant (%s)' % (r.name, r.fields[0]['t'][:80]))
        n += 1
        key = 'R-RESULT %s' % 'yaclib::Result'
        ctx.instance(rule, key + ' :: ' + r.name[:100], dict(alternatives=alts, enum=enum))
        E = r.ta[1] if len(r.ta) > 1 else None
        kinds = []
        for a in alts:
            if 'exception_ptr' in a:
                kinds.append('Exception')
            elif a == 'std::monostate':
                kinds.append('Empty')
            elif E is not None and a == E:
                kinds.append('Error')
            else:
                kinds.append('Value')
        want = [k for k, v in sorted(enum.items(), key=lambda kv: kv[1])]
        if kinds != want:
            ctx.report(rule, key + ' alternative order', '%s:%s' % (facts.rel(r.file), r.line),
                       'State() casts the variant index to ResultState, but the alternatives are ordered %s while the '
                       'enumerators are ordered %s: states are reported under the wrong name' % (kinds, want),
                       'instantiation: ' + r.name)
        for f in fb.fn.values():
            if f.cls != r.name:
                continue
            if 'ctor' in f.flags and len(f.params) == 1:
                pt = f.locals[f.params[0]]['t']
                kind = 'Exception' if 'exception_ptr' in pt else 'Error' if (pt == E or pt == 'yaclib::StopTag') \
                    else None
                if kind is None:
                    continue
                for it in f.raw.get('inits', []):
                    txt = f.text(it['e'])
                    got = None
                    for d in f.descendants(it['e']):
                        t = f.nodes[d].get('t', '')
                        if t.startswith('std::in_place_type_t<') or t.startswith('const std::in_place_type_t<'):
                            inner = t[t.index('<') + 1:-1]
                            got = 'Exception' if 'exception_ptr' in inner else 'Error' if inner == E else \
                                'Empty' if inner == 'std::monostate' else 'Value'
                    if got is not None and got != kind:
                        ctx.report(rule, key + ' constructor', f.where, 'Result(%s) initialises the %s alternative '
                                   '(expected %s)' % (pt, got, kind), 'instantiation: ' + f.full[:200] + ' ' + txt[:80])
            if f.n in ('Value', 'Exception', 'Error') and f.cfg is not None:
                gets = [x for x in f.own_nodes() if x.get('cn') == 'std::get' and x.get('cta')]
                for g in gets:
                    a = g['cta'][0]
                    got = 'Exception' if 'exception_ptr' in a else 'Error' if a == E else \
                        'Empty' if a == 'std::monostate' else 'Value'
                    if got != f.n:
                        ctx.report(rule, key + ' accessor', f.where, 'Result::%s() returns the %s alternative' % (
                            f.n, got), 'instantiation: ' + f.full[:200])
    if n < 3:
        ctx.broken('R-RESULT: fewer than 3 Result instantiations')
    return n


def run(ctx):
    fbs = ctx.facts(['K17', 'K20'], kinds=('probe', 'lib'), only=r'p_async\.cpp$|p_coro\.cpp$|src/', tests=r'/test/',
                    quick_tests=r'unit/async/(future|future_functor|future_inline|make_future|make_task)\.cpp')
    re_ = ctx.rule('R-DISPATCH.entry', 'Call()/Drop() of every Core reach completion only through CallImpl; Drop '
                   'dispatches Result{StopTag}', minimum=200)
    ra = ctx.rule('R-ACCESSOR', 'every Result accessor call in Core sees exactly the matching state', minimum=100)
    rd = ctx.rule('R-DISPATCH', 'each input state reaches exactly one of invoke / pass-through; invoke on one state',
                  minimum=100)
    rt = ctx.rule('R-TRY', 'every functor invocation is inside try/catch(...) storing current_exception()',
                  minimum=100)
    rh = ctx.rule('R-HEAD', 'a returned Task of any head kind can be started by the step (see C12)', minimum=20)
    ctx.assume('a Result delivered to a step is never Empty')
    rmv = ctx.rule('R-MOVEOUT.site', 'a step takes the result of a flattened inner future by move only when that future '
                   'is statically unique or provably the last observer', minimum=0)
    rres = ctx.rule('R-RESULT', 'Result<V,E>: variant alternative order == ResultState enumerator order; constructors and '
                    'accessors take the alternative of their kind', minimum=6)
    rinv = ctx.rule('R-INVOKE', 'a step that runs its callback invokes it exactly once and completes with what it '
                    'returned (Unit for a void callback)', minimum=40)
    rcls = ctx.rule('R-DISPATCH.class', 'the state on which a step invokes its callback is the one the callback\'s own '
                    'signature names (value type -> Value, E -> Error, exception_ptr -> Exception), also when the error '
                    'type converts to the value type', minimum=60)
    from rules import lib_core
    for cfg, fb in sorted(fbs.items()):
        ctx.guard(lambda: check_result(ctx, fb, rres))
        ctx.guard(lambda: lib_core.check_move_sites(ctx, fb, rmv, lambda f: f.file.endswith('algo/detail/core.hpp')))
        fns = [f for f in lib_accessor.functions_with_accessors(fb, [CORE])]
        ctx.guard(lambda: lib_accessor.check(ctx, fb, ra, fns))
        ctx.guard(lambda: check_dispatch(ctx, fb, rd, rcls))
        ctx.guard(lambda: check_invoke_once(ctx, fb, rinv))
        ctx.guard(lambda: check_entries(ctx, fb, re_))
        ctx.guard(lambda: check_try(ctx, fb, rt))
        ctx.guard(lambda: lib_head.check(ctx, fb, cfg, rh, None))
