"""C04 — no data races: structural clauses R-WORD / R-ORDER / R-CASKIND over every hand-off word
(configurations K17, K20, K20n where yaclib_std::atomic is std::atomic)."""
from rules import lib_order


def run(ctx):
    fbs = ctx.facts(['K17', 'K20', 'K20n'], kinds=('lib', 'probe'), tests=r'/test/')
    rw = ctx.rule('R-WORD', 'every atomic operation on a hand-off word is one of the roles its protocol admits '
                  '(classified by word, operation kind and class of the written value)', minimum=40)
    ro = ctx.rule('R-ORDER', 'the resolved memory order of each site is at least its role minimum in the lattice '
                  'relaxed < {acquire, release} < acq_rel < seq_cst', minimum=50)
    rc = ctx.rule('R-CASKIND', 'every weak compare-exchange lies on a CFG cycle and its role admits weak', minimum=5)
    ctx.assume('the role table (tables/atomic_roles.json, restated in rules/lib_order.py) is necessary, not '
               'sufficient: each row names the plain access that loses its only ordering edge when weakened')
    rodr = ctx.rule('R-ODR', '(cross-reference, all non-fault units) every inline / constexpr library function that is used is '
                    'defined in the unit that uses it', minimum=3)
    from rules import lib_core
    rcf = ctx.rule('R-CASFRESH', 'in a compare-exchange retry loop every attempt re-tests the refreshed expected value '
                   'against what the first attempt tested (sentinels are never overwritten by a retry)', minimum=6)
    from rules import c11
    rwr = ctx.rule('R-WAITRETURN', 'a multi-future wait returns only with last-one evidence obtained through the '
                   'counter\'s acquiring RMW (or after the untimed wait): that RMW is the only edge that makes the Results '
                   'visible to the waiter and keeps the stack event alive for the producers', minimum=4)
    rev = ctx.rule('R-EVENT', '(shared with C11) the event a blocked waiter owns on its stack: the setter\'s last access is '
                   'the unlock of _m (notify under the mutex), _is_ready only under _m, Wait re-tests after a wake-up',
                   minimum=3)
    tot = 0
    rho = ctx.rule('R-HANDOFF', 'a When* combinator is not touched after its last input has been registered: the registration loop\'s condition / increment and the code after it work on locals only', minimum=2)
    for cfg, fb in sorted(fbs.items()):
        from rules import lib_when as _lw2, lib_handoff as _lh
        ctx.guard(lambda: _lh.check_handoff_helpers(ctx, fb, rho))
        if (ctx.guard(lambda: _lw2.check_handoff_loops(ctx, fb, rho)) or 0) < 1 and cfg == 'K17':
            ctx.guard(lambda: ctx.broken('R-HANDOFF: no registration loop of a When* combinator found'))
        if cfg != 'K20n':
            ctx.guard(lambda: c11.check_wait_return(ctx, fb, rwr))
            ctx.guard(lambda: c11.check_mutex_event(ctx, fb, rev, cfg))
        ctx.guard(lambda: lib_order.check_cas_fresh(ctx, fb, rcf))
        ctx.guard(lambda: lib_core.check_undefined_inline(ctx, fb, rodr))
        words = lib_order.WORDS.keys()
        if cfg == 'K17':
            words = [w for w in words if 'Mutex' not in w and 'Spinlock' not in w]
        tot += lib_order.check(ctx, fb, cfg, words, rw, ro, rc)
        ctx.guard(lambda: lib_order.check_counter_reads(ctx, fb, ro))
        ctx.guard(lambda: lib_order.check_relaxed_decisions(ctx, fb, ro))
