"""C12 — a Task does nothing until started, then behaves like the eager pipeline (structural clauses)."""
from rules import lib_head


def run(ctx):
    fbs = ctx.facts(['K17', 'K20', 'K20n'], kinds=('probe', 'lib'), only=r'p_async\.cpp$|p_coro\.cpp$|src/')
    rh = ctx.rule('R-HEAD', 'every Task-head kind, partially evaluated with its construction-time fields, reaches its '
                  'own work when started through Here/Next, without touching the null caller slot or reading the '
                  'starter as a completed core', minimum=30)
    for cfg, fb in sorted(fbs.items()):
        lib_head.check(ctx, fb, cfg, rh, None)
