"""C12 — a Task does nothing until started, then behaves like the eager pipeline (structural clauses).

  R-HEAD        every head kind can be started through Here/Next (see lib_head)
  R-START       both detail::Start overloads: the chain is rewound first (MoveToCaller), the executor is bound to
                and the job submitted is the value MoveToCaller returned (the head, not the tail)
  R-REWIND      MoveToCaller clears every next link it walks and returns the last core
  R-LAZYATTACH  attaching a step to a Task links it (callback->next = caller) and uses the pre-publication plain
                store; it never registers with a CAS, never runs or submits anything
  R-NOSTART     Task factories (Schedule, LazyContract, MakeTask) submit / call / publish nothing
  R-CANCEL      ~Task cancels exactly a valid, not completed task; Cancel starts the chain on the stopped inline
                executor; Detach/ToFuture start through detail::Start
"""
from rules import lib_core, lib_head
from vlib import pathwalk

EXEC = 'yaclib::detail::BaseCore::_executor'


def _through_deref(fn, i):
    """the expression under dereferences: `BaseCore& caller = *MoveToCaller(head)` names the same core"""
    n = fn.sn(i)
    while n is not None and n['k'] == 'UnaryOperator' and n.get('op') == '*':
        n = fn.sn(n['ch'][0])
    return n


class StartWalker(pathwalk.Walker):
    def on_node(self, fn, n, st):
        k = n['k']
        loc = fn.loc(n)
        if k == 'BinaryOperator' and n['op'] == '=':
            l = fn.sn(n['ch'][0])
            r = _through_deref(fn, n['ch'][1])
            if l is not None and l['k'] == 'DeclRefExpr' and r is not None and \
                    r.get('cn') == 'yaclib::detail::MoveToCaller':
                st.events.append(('rewind', fn.locals[l['id']]['n'], loc))
        elif k == 'DeclStmt':
            for v in n['vars']:
                if 'init' in v and (_through_deref(fn, v['init']) or {}).get('cn') == 'yaclib::detail::MoveToCaller':
                    st.events.append(('rewind', fn.locals[v['id']]['n'], loc))
        elif k == 'CXXOperatorCallExpr' and n.get('op') == '=' and n.get('args'):
            t = fn.sn(n['args'][0])
            if t is not None and t['k'] == 'MemberExpr' and t['dn'] == EXEC:
                st.events.append(('bind', fn.text(t['ch'][0]), loc))
        elif k == 'CXXMemberCallExpr' and n['cn'] == 'yaclib::IExecutor::Submit':
            st.events.append(('submit', fn.text(n['args'][0]).lstrip('*'), loc))
        elif k == 'CXXMemberCallExpr' and n.get('obj') is not None and n.get('args'):
            # binding through a helper of the core: head->SetExecutor(e) where the helper stores its parameter into
            # this->_executor
            g = self.fb.fn.get(n.get('ck'))
            if g is not None and g.cfg is not None and 'virtual' not in g.flags and \
                    any('IExecutor' in g.locals[p]['t'] for p in g.params):
                from rules import c05
                if c05.executor_writes(g):
                    st.events.append(('bind', fn.text(n['obj']).lstrip('*'), loc))


def check_start(ctx, fb, rs):
    fs = [f for f in fb.by_qn('yaclib::detail::Start') if f.cfg is not None]
    if len(fs) != 2:
        ctx.broken('detail::Start overloads: %d found, 2 expected' % len(fs))
    for f in fs:
        key = 'R-START detail::Start(%s)' % ('head, executor' if len(f.params) == 2 else 'head')
        res = StartWalker(fb).run(f)
        ctx.instance(rs, key, dict(function=f.full, paths=len(res)))
        for st, _ in res:
            ev = st.events
            rew = [i for i, e in enumerate(ev) if e[0] == 'rewind']
            sub = [i for i, e in enumerate(ev) if e[0] == 'submit']
            bind = [i for i, e in enumerate(ev) if e[0] == 'bind']
            msg = None
            if len(rew) != 1 or len(sub) != 1:
                msg = 'Start must rewind the chain once (MoveToCaller) and submit exactly one job'
            elif rew[0] > sub[0] or ev[sub[0]][1] != ev[rew[0]][1]:
                msg = 'the job submitted is not the head returned by MoveToCaller: the last step is started instead ' \
                      'of the first one'
            elif len(f.params) == 2 and (len(bind) != 1 or bind[0] < rew[0] or bind[0] > sub[0] or
                                         ev[bind[0]][1] != ev[rew[0]][1]):
                msg = 'the executor passed to ToFuture(e)/Detach(e)/Cancel must be bound to the head returned by ' \
                      'MoveToCaller before it is submitted (it is bound to %s)' % (
                          'the tail (before the rewind)' if bind and bind[0] < rew[0] else 'nothing / something else')
            if msg:
                ctx.report(rs, key, f.where, msg)
                break


def check_rewind(ctx, fb, rr):
    fs = [f for f in fb.by_qn('yaclib::detail::MoveToCaller') if f.cfg is not None]
    if not fs:
        ctx.broken('MoveToCaller not found')
    f = fs[0]
    key = 'R-REWIND detail::MoveToCaller'
    ctx.instance(rr, key, None)
    clears = [n for n in f.own_nodes() if n['k'] == 'BinaryOperator' and n['op'] == '=' and
              (f.sn(n['ch'][0]) or {}).get('mn') == 'next' and f.sn(n['ch'][1]).get('v') == 0]
    loops = f.cfg.loops()
    if not clears or not all(f.cfg.pos_of(c['i']) and f.cfg.pos_of(c['i'])[0] in loops for c in clears):
        ctx.report(rr, key, f.where, 'every next link walked must be cleared (a core whose next stays set is treated as a '
                   'lazy chain again / walked twice)')
    rets = [n for n in f.own_nodes() if n['k'] == 'ReturnStmt']
    if not rets or f.text(rets[0]['ch'][0]) != 'head':
        ctx.report(rr, key, f.where, 'MoveToCaller must return the core it stopped at (the head of the chain)')


def check_lazy_attach(ctx, fb, rl):
    n = 0
    for f in fb.by_qn('yaclib::detail::SetCallback'):
        if f.cfg is None or not f.fta:
            continue
        try:
            bits = int(f.fta[0])
        except ValueError:
            continue
        if not bits & 128:
            continue
        n += 1
        key = 'R-LAZYATTACH detail::SetCallback<Lazy>'
        ctx.instance(rl, key + ' :: ' + f.full[:120], None)
        names = [c['cn'].split('::')[-1] for c in f.calls()]
        bad = [x for x in names if x in ('SetInline', 'SetInlineImpl', 'SetCallback', 'SetCallbackImpl', 'Loop',
                                         'Submit', 'Call', 'SetResult')]
        links = [x for x in f.own_nodes() if x['k'] == 'BinaryOperator' and x['op'] == '=' and
                 (f.sn(x['ch'][0]) or {}).get('mn') == 'next']
        if bad:
            ctx.report(rl, key, f.where, 'attaching a step to a Task performs %s: a lazy pipeline must not register with '
                       'a CAS, run or submit anything before it is started' % bad[0], 'instantiation: ' + f.full[:300])
        elif 'StoreCallback' not in names or not links:
            ctx.report(rl, key, f.where, 'a lazy step must be linked (callback->next = caller) and stored with the '
                       'pre-publication store', 'instantiation: ' + f.full[:300])
    if n < 5:
        ctx.broken('lazy SetCallback instantiations missing (%d)' % n)


def check_nostart(ctx, fb, rn):
    n = 0
    for f in fb.fn.values():
        if f.qn not in ('yaclib::detail::Schedule', 'yaclib::MakeTask', 'yaclib::Schedule', 'yaclib::LazyContract') or \
                f.cfg is None:
            continue
        n += 1
        key = 'R-NOSTART ' + f.qn
        ctx.instance(rn, key + ' :: ' + f.full[:120], None)
        bad = [c for c in f.calls() if c['cn'].split('::')[-1] in ('Submit', 'Call', 'Loop', 'SetInline', 'SetResult',
                                                                   'Start', 'Here', 'Next')]
        if bad:
            ctx.report(rn, key, f.loc(bad[0]), 'a Task factory performs %s: something runs before the task is started' %
                       bad[0]['cn'].split('::')[-1], 'instantiation: ' + f.full[:300])
    if n < 6:
        ctx.broken('Task factories not instantiated (%d)' % n)


def check_cancel(ctx, fb, rc):
    for f in fb.by_qn('yaclib::Task::~Task'):
        if f.cfg is None:
            continue
        key = 'R-CANCEL Task::~Task'
        res = lib_core.CoreWalker(fb).run(f)
        ctx.instance(rc, key + ' :: ' + f.cls[:80], dict(paths=len(res)))
        for st, _ in res:
            ev = st.events
            calls = [e[1].split('::')[-1] for e in ev if e[0] == 'call']
            valid = [e for e in ev if e[0] == 'valid']
            cancelled = 'Cancel' in calls
            ready_tested = 'Ready' in calls
            if cancelled and not (valid and valid[0][1]):
                ctx.report(rc, key, f.where, 'an invalid (moved-from) Task is cancelled')
                break
            if cancelled and not ready_tested:
                ctx.report(rc, key, f.where, 'a Task is cancelled without testing whether it already completed: '
                           'cancelling a completed task restarts its chain and overwrites the stored result')
                break
        names = [c['cn'].split('::')[-1] for c in f.calls()]
        if 'Cancel' not in names:
            ctx.report(rc, key, f.where, 'a valid, never started Task is destroyed without cancelling its chain (captured '
                       'functors leak, continuations never complete)')
    for f in fb.by_qn('yaclib::Task::Cancel'):
        key = 'R-CANCEL Task::Cancel'
        ctx.instance(rc, key + ' :: ' + f.cls[:80], None)
        det = [c for c in f.calls() if c['cn'] == 'yaclib::Task::Detach']
        ok = False
        for c in det:
            for d in f.descendants(c['i']):
                x = f.nodes[d]
                if x.get('cn') == 'yaclib::MakeInline' and any('StopTag' in f.nodes[y].get('t', '')
                                                                for y in f.descendants(x['i'])):
                    ok = True
        if not ok:
            ctx.report(rc, key, f.where, 'Cancel must start the chain on the stopped inline executor '
                       '(MakeInline(StopTag{})) so that every step is Dropped and sees StopError')
    for f in fb.fn.values():
        if f.qn in ('yaclib::Task::Detach', 'yaclib::Task::ToFuture') and f.cfg is not None:
            key = 'R-CANCEL %s(%s)' % (f.qn, 'e' if f.params else '')
            ctx.instance(rc, key + ' :: ' + f.cls[:80], None)
            w = lib_core.CoreWalker(fb)
            w.inline_helpers = True  # the release / StoreCallback part may live in a private helper of Task
            for pst, _ in w.run(f):
                names = [e[1] for e in pst.events if e[0] == 'call']
                starts = [i for i, c in enumerate(names) if c == 'yaclib::detail::Start']
                nargs = [len(f.nodes[e[2]].get('args', [])) for e in pst.events
                         if e[0] == 'call' and e[1] == 'yaclib::detail::Start' and e[2] < len(f.nodes) and
                         f.nodes[e[2]].get('cn') == 'yaclib::detail::Start']
                if len(starts) != 1 or (nargs and (nargs[0] == 2) != bool(f.params)):
                    ctx.report(rc, key, f.where, 'the task must be started through detail::Start with%s the given '
                               'executor' % ('' if f.params else 'out'))
                    break
                if f.n == 'Detach':
                    last = [c.split('::')[-1] for c in names]
                    if 'StoreCallback' not in last or last.index('StoreCallback') > starts[0]:
                        ctx.report(rc, key, f.where,
                                   'the Drop continuation must be stored before the chain is started')
                        break


def run(ctx):
    fbs = ctx.facts(['K17', 'K20', 'K20n'], kinds=('probe', 'lib'), only=r'p_async\.cpp$|p_coro\.cpp$|src/', tests=r'/test/',
                    quick_tests=r'unit/async/(task|make_task)\.cpp')
    rh = ctx.rule('R-HEAD', 'every Task-head kind, partially evaluated with its construction-time fields, reaches its '
                  'own work when started through Here/Next, without touching the null caller slot or reading the '
                  'starter as a completed core', minimum=30)
    rs = ctx.rule('R-START', 'Start: rewind, bind the executor to the head, submit the head', minimum=2)
    rr = ctx.rule('R-REWIND', 'MoveToCaller clears the links and returns the head', minimum=1)
    rl = ctx.rule('R-LAZYATTACH', 'lazy attach links and plain-stores, nothing runs', minimum=10)
    rn = ctx.rule('R-NOSTART', 'Task factories start nothing', minimum=10)
    rc = ctx.rule('R-CANCEL', 'destructor / Cancel / Detach / ToFuture protocol', minimum=10)
    rd = ctx.rule('R-ROUTE.drop', '(shared with C05) a cancelled head (ReadyCore, coroutine PromiseType, PromiseCore) '
                  'stores StopTag on every path of Drop()', minimum=6)
    rhm = ctx.rule('R-HANDLEMOVE', '(shared with C03) move-assigning over a Task never releases the chain it held by a '
                   'bare DecRef: the chain leaves in the right-hand side and is cancelled by its destructor', minimum=1)
    raf = ctx.rule('R-ATTACHFORM', '(shared with C05) Task::Then(e, f) / Then(f) / ThenInline(f) build the lazy form of the '
                   'step their eager sibling builds: same executor argument, same Call bit, plus Lazy', minimum=3)
    rgw = ctx.rule('R-GETWAIT', '(shared with C01) Task::Get reads the Result only through a waiting Get: never by '
                   'Touch() / ResultCore::Get on a chain that was only just started', minimum=1)
    from rules import lib_attach
    for cfg, fb in sorted(fbs.items()):
        ctx.guard(lambda: lib_attach.check_attach_forms(ctx, fb, raf, 'yaclib::Task', 3))
        if (ctx.guard(lambda: lib_core.check_get_wait(ctx, fb, rgw, ('yaclib::Task',))) or 0) < 1:
            ctx.guard(lambda: ctx.broken('R-GETWAIT: Task::Get not instantiated in %s' % cfg))
        ctx.guard(lambda: lib_head.check(ctx, fb, cfg, rh, None))
        from rules import lib_iptr
        ctx.guard(lambda: lib_iptr.check_handle_move(ctx, fb, rhm))
        ctx.guard(lambda: check_start(ctx, fb, rs))
        ctx.guard(lambda: check_rewind(ctx, fb, rr))
        ctx.guard(lambda: check_lazy_attach(ctx, fb, rl))
        ctx.guard(lambda: check_nostart(ctx, fb, rn))
        ctx.guard(lambda: check_cancel(ctx, fb, rc))
        from rules import c05
        if c05.check_drop_stop(ctx, fb, rd) < (3 if cfg != 'K17' else 2):
            ctx.broken('Drop() of PromiseCore / PromiseType / ReadyCore not found in %s' % cfg)
