"""Guards of the coroutine mutexes (C14, C15).

R-GUARDSTATE  the packed word of detail::GuardState (pointer | owns-bit): every member function is summarised
              (vlib/symexec.py) into closed terms for (new own word, new word of `other`, returned value) and the
              terms are evaluated on the finite abstraction {null, P, Q} x {owns, not owns}; they must equal the
              reference row of the operation table below (what std::unique_lock-like ownership requires):
                 GuardState(ptr, owns)   word = ptr | owns
                 GuardState(other&&)     word = other;  other loses the owns bit (keeps the pointer)
                 Swap / operator=(&&)    the two words are exchanged
                 Ptr                     word & ~1            Owns   (word & 1) != 0
                 LockState               word |= 1,  returns the pointer
                 UnlockState             word &= ~1, returns the pointer
                 ReleaseState            word = 0,   returns the old pointer
R-GUARDCALLS  Guard<M, Shared>: every call into the mutex M made by a member of the guard is the *Shared variant iff
              Shared; Lock/TryLock set the state before calling (TryLock resets it on failure), the Unlock* forms
              clear it before calling, Release never unlocks, the destructor unlocks iff the guard owns (R-GUARD),
              the constructors own according to their tag (defer: no, adopt: yes, try_to_lock: the TryLock outcome)
"""
import itertools

from vlib import symexec
from vlib.symexec import Unrecognised

GS = 'yaclib::detail::GuardState'
P, Q = 0x1000, 0x2000
MASK = (1 << 64) - 1


def _is_state(fn, n):
    if n['k'] != 'MemberExpr' or n.get('mn') != '_state' or not n.get('dn', '').startswith(GS + '::'):
        return False
    b = fn.sn(n['ch'][0]) if n.get('ch') else None
    while b is not None and b['k'] in ('ImplicitCastExpr', 'UnaryOperator') and b.get('ch'):
        b = fn.sn(b['ch'][0])
    return b is None or b['k'] == 'CXXThisExpr'


class GuardSum(symexec.Summariser):
    def __init__(self, fb, f, syms=None):
        if syms is None:
            syms = {}
            k = 0
            for pid in f.params:
                t = f.locals[pid]['t']
                syms[pid] = 'other' if 'GuardState' in t else 'p%d' % k
                k += 1
        super().__init__(fb, syms, _is_state, GuardSum.call)

    def lvalue(self, fn, i):
        j = fn.strip(i)
        n = fn.nodes[j]
        # other._state : the word of the GuardState passed by reference
        if n['k'] == 'MemberExpr' and n.get('mn') == '_state' and n.get('ch'):
            b = fn.sn(n['ch'][0])
            while b is not None and b['k'] in ('ImplicitCastExpr',) and b.get('ch'):
                b = fn.sn(b['ch'][0])
            if b is not None and b['k'] == 'DeclRefExpr' and b.get('id') in self.param_syms:
                return ('param', b['id'])
        return super().lvalue(fn, i)

    def expr(self, fn, i, p):
        j = fn.strip(i)
        n = fn.nodes[j]
        if n['k'] == 'InitListExpr' and len([c for c in n.get('ch', []) if c >= 0]) == 1:
            return self.expr(fn, [c for c in n['ch'] if c >= 0][0], p)
        if n['k'] == 'DeclRefExpr' and 'id' not in n and isinstance(n.get('v'), int):
            return ('const', n['v'])  # kMask
        if n['k'] == 'UnaryOperator' and n.get('op') == '~':
            return ('bitnot', self.expr(fn, n['ch'][0], p))
        if n['k'] in ('CXXReinterpretCastExpr',) and n.get('ch'):
            return self.expr(fn, n['ch'][0], p)
        return super().expr(fn, i, p)

    @staticmethod
    def call(self, fn, n, p):
        cn = n.get('cn', '')
        if cn == 'std::swap' and len(n.get('args', [])) == 2:
            la, lb = self.lvalue(fn, n['args'][0]), self.lvalue(fn, n['args'][1])
            if la is None or lb is None:
                raise Unrecognised('std::swap of %s' % fn.text(n['i']))
            a, b = self.read(fn, la, p), self.read(fn, lb, p)
            self.write(fn, la, b, p)
            self.write(fn, lb, a, p)
            return ('const', 0)
        if cn == 'std::move' and n.get('args'):
            return self.expr(fn, n['args'][0], p)
        if cn == 'std::exchange' and len(n.get('args', [])) == 2:
            lv = self.lvalue(fn, n['args'][0])
            if lv is None:
                raise Unrecognised('std::exchange on %s' % fn.text(n['args'][0]))
            old = self.read(fn, lv, p)
            self.write(fn, lv, self.expr(fn, n['args'][1], p), p)
            return old
        g = self.fb.fn.get(n.get('ck'))
        if g is not None and g.clsq == GS and g.raw.get('body') is not None:
            syms = {}
            for pid, a in zip(g.params, n.get('args', [])):
                la = self.lvalue(fn, a)
                if la is not None and la[0] == 'param':
                    syms[pid] = self.param_syms[la[1]]
                else:
                    syms[pid] = self.expr(fn, a, p)
            sub = GuardSum(self.fb, g, syms)
            q = p.fork()
            q.returned = False
            q.ret = None
            res = sub.stmt(g, g.raw['body'], [q])
            if len(res) != 1:
                raise Unrecognised('branching callee %s' % g.qn)
            r = res[0]
            p.value, p.value_written, p.ref_writes = r.value, r.value_written, r.ref_writes
            return r.ret if r.ret is not None else ('const', 0)
        raise Unrecognised('call to %s at %s' % (cn or '?', fn.loc(n)))


def ev(t, env):
    """evaluate a closed term on concrete numbers"""
    if t is None:
        return None
    k = t[0]
    if k == 'const':
        return int(t[1]) & MASK
    if k == 'sym':
        if t[1] not in env:
            raise Unrecognised('free symbol %s' % t[1])
        return env[t[1]]
    if k == 'not':
        return 0 if ev(t[1], env) else 1
    if k == 'conv':
        return ev(t[2], env)
    if k == 'op':
        op = t[1]
        a, b = ev(t[2], env), ev(t[3], env)
        if op == '|':
            return a | b
        if op == '&':
            return a & b
        if op == '^':
            return a ^ b
        if op == '+':
            return (a + b) & MASK
        if op == '-':
            return (a - b) & MASK
        if op == '==':
            return int(a == b)
        if op == '!=':
            return int(a != b)
        if op == '&&':
            return int(bool(a) and bool(b))
        if op == '||':
            return int(bool(a) or bool(b))
        raise Unrecognised('operator %s' % op)
    if k == 'bitnot':
        return ~ev(t[1], env) & MASK
    raise Unrecognised('term %r' % (t,))


REF = {
    # name: (value'(v, o, p0, p1), other'(…), ret(…))  — None: unchanged / no result
    'Ptr': (None, None, lambda v, o, a, b: v & ~1 & MASK),
    'Owns': (None, None, lambda v, o, a, b: int(v & 1 != 0)),
    'LockState': (lambda v, o, a, b: v | 1, None, lambda v, o, a, b: v & ~1 & MASK),
    'UnlockState': (lambda v, o, a, b: v & ~1 & MASK, None, lambda v, o, a, b: v & ~1 & MASK),
    'ReleaseState': (lambda v, o, a, b: 0, None, lambda v, o, a, b: v & ~1 & MASK),
    'Swap': (lambda v, o, a, b: o, lambda v, o, a, b: v, None),
    'operator=': (lambda v, o, a, b: o, lambda v, o, a, b: v, None),
    'ctor(ptr,owns)': (lambda v, o, a, b: a | b, None, None),
    'ctor(move)': (lambda v, o, a, b: o, lambda v, o, a, b: o & ~1 & MASK, None),
}


def check_guard_state(ctx, fb, rule):
    fns = [f for f in fb.fn.values() if f.clsq == GS and f.raw.get('body') is not None]
    if len(fns) < 8:
        ctx.broken('R-GUARDSTATE: only %d GuardState member functions found' % len(fns))
    n = 0
    for f in sorted(fns, key=lambda f: (f.line, f.full)):
        name = f.n
        if 'ctor' in f.flags:
            if len(f.params) == 2:
                name = 'ctor(ptr,owns)'
            elif len(f.params) == 1:
                name = 'ctor(move)'
            else:
                continue  # default constructor: _state = 0 by its member initialiser
        if 'dtor' in f.flags:
            continue
        if name not in REF:
            ctx.broken('R-GUARDSTATE: GuardState::%s (%s) has no reference row' % (f.n, f.where))
        key = 'R-GUARDSTATE GuardState::' + name
        try:
            s = GuardSum(fb, f)
            paths = [symexec.Path()]
            if 'ctor' in f.flags:
                # constructor initialisers: _state{expr}
                for it in f.raw.get('inits', []):
                    what = f.S[it['what']]
                    if what.endswith('::_state') or what.endswith('_state'):
                        for p in paths:
                            p.value = s.expr(f, it['e'], p)
                            p.value_written = True
            paths = s.stmt(f, f.raw['body'], paths)
        except Unrecognised as e:
            ctx.broken('R-GUARDSTATE: body of %s (%s) is outside the recognised normal forms: %s' % (f.full, f.where, e))
        n += 1
        ctx.instance(rule, key, dict(method=f.full, where=f.where, paths=len(paths)))
        rv, ro, rr = REF[name]
        bad = None
        for v, o, a, b in itertools.product((0, P, P | 1, Q | 1), (0, Q, Q | 1, P | 1), (0, P), (0, 1)):
            env = {'v': v, 'other': o, 'p0': a, 'p1': b}
            try:
                live = [p for p in paths if all(ev(c, env) for c in p.cond)]
                if len(live) != 1:
                    raise Unrecognised('%d paths match one input' % len(live))
                p = live[0]
                got_v = ev(p.value, env) if p.value_written else v
                got_o = ev(p.ref_writes['other'], env) if 'other' in p.ref_writes else o
                got_r = ev(p.ret, env) if (p.ret is not None and rr is not None) else None
            except Unrecognised as e:
                ctx.broken('R-GUARDSTATE: %s: %s' % (f.full, e))
            want_v = rv(v, o, a, b) if rv else v
            want_o = ro(v, o, a, b) if ro else o
            want_r = rr(v, o, a, b) if rr else None
            if (got_v, got_o) != (want_v, want_o) or (rr is not None and bool(want_r) != bool(got_r) and name == 'Owns') \
                    or (rr is not None and name != 'Owns' and got_r != want_r):
                bad = 'word=%#x other=%#x args=(%#x,%d): word %#x (expected %#x), other %#x (expected %#x), returns ' \
                      '%s (expected %s)' % (v, o, a, b, got_v, want_v, got_o, want_o,
                                            None if got_r is None else hex(got_r),
                                            None if want_r is None else hex(want_r))
                break
        if bad:
            ctx.report(rule, key, f.where, 'GuardState::%s does not follow its row of the ownership table: %s — a guard '
                       'built on it unlocks a lock it does not hold, keeps one it gave away, or forgets its mutex' % (
                           name, bad), 'function: ' + f.full)
    return n


def check_guard_calls(ctx, fb, rule):
    """Guard<M, Shared>: calls into M are the Shared variants iff Shared; state transitions precede the mutex calls"""
    from rules import lib_core
    n = 0
    for f in sorted(fb.fn.values(), key=lambda f: f.full):
        if f.clsq != 'yaclib::detail::Guard' or f.cfg is None:
            continue
        shared = len(f.cta) >= 2 and f.cta[1] in ('true', '1')
        key = 'R-GUARDCALLS Guard::%s' % ('~Guard' if 'dtor' in f.flags else f.n)
        w = lib_core.CoreWalker(fb)
        w.inline_helpers = True
        try:
            res = w.run(f)
        except Exception as e:  # noqa: BLE001
            ctx.broken('R-GUARDCALLS %s: %s' % (f.full, e))
        n += 1
        ctx.instance(rule, key + ' :: ' + f.cls[-60:], dict(function=f.full[:160], shared=shared, paths=len(res)))
        rep = None
        for st, rv in res:
            calls = [(e[1], e[3]) for e in st.events if e[0] == 'call']
            names = [c.split('::')[-1] for c, _ in calls]
            # calls into the mutex: member functions of M (not of Guard / GuardState / std)
            mcalls = [(c, l) for c, l in calls if not c.startswith('yaclib::detail::Guard') and
                      not c.startswith('std::') and c.split('::')[-1] in (
                          'Lock', 'LockShared', 'TryLock', 'TryLockShared', 'Unlock', 'UnlockShared', 'UnlockOn',
                          'UnlockOnShared', 'UnlockHere', 'UnlockHereShared')]
            for c, l in mcalls:
                if c.split('::')[-1].endswith('Shared') != shared:
                    rep = (l, 'a %s guard calls %s on its mutex: it releases / acquires the lock in the wrong mode' % (
                        'shared' if shared else 'unique', c.split('::')[-1]))
            base = f.n if 'dtor' not in f.flags else '~'
            if base in ('Unlock', 'UnlockOn', 'UnlockHere'):
                if 'UnlockState' not in names or not mcalls or names.index('UnlockState') > [
                        i for i, (c, _) in enumerate(calls) if (c, _) in mcalls][0]:
                    rep = rep or (f.where, '%s must clear the owns bit (UnlockState) and then unlock the mutex' % base)
            if base == 'Lock' and ('LockState' not in names or not mcalls):
                rep = rep or (f.where, 'Lock must set the owns bit (LockState) and lock the mutex')
            if base == 'Release' and (mcalls or 'ReleaseState' not in names):
                rep = rep or (f.where, 'Release must forget the mutex without unlocking it')
            if base == 'TryLock' and (rv is None or rv[0] != 'c') and 'UnlockState' not in names:
                rep = rep or (f.where, 'TryLock returns the outcome without resetting the state on failure: a failed '
                              'TryLock leaves the guard claiming ownership (its destructor unlocks a lock it does not '
                              'hold)')
            if base == 'TryLock' and rv is not None and rv[0] == 'c':
                if not rv[1] and 'UnlockState' not in names:
                    rep = rep or (f.where, 'a failed TryLock leaves the guard claiming ownership')
                if rv[1] and 'UnlockState' in names:
                    rep = rep or (f.where, 'a successful TryLock clears the owns bit')
        if rep:
            ctx.report(rule, key, rep[0], rep[1], 'instantiation: ' + f.full[:300])
    return n
