"""C08 — FairThreadPool: accepted jobs all run, rejected ones drop, Wait means done (structural clauses)."""
from rules import lib_exec, lib_list


def run(ctx):
    fbs = ctx.facts(['K17', 'KF'], kinds=('lib',), only=r'src/runtime/|src/util/intrusive_list')
    rl = ctx.rule('R-LINEAR', 'Submit ends the job by exactly one of Call/Drop/enqueue on every path; every dequeued '
                  'node is finished exactly once; Drop only behind the stop condition', minimum=3)
    rk = ctx.rule('R-LOCKSET', '_jobs and _jobs_count are only touched with _m held; jobs are Called/Dropped with _m '
                  'released; lock acquisitions are paired on every path', minimum=6)
    rd = ctx.rule('R-DRAIN', 'a worker returns only after seeing the queue empty under the same lock hold; the '
                  'stopped bit is set only by Stop(unique_lock&&)', minimum=2)
    rc = ctx.rule('R-COUNT', 'packed job counter: unit == 1 << NoJobs shift, flag bits below it, +unit exactly on '
                  'the accepted path, -unit after every Called job before the count is read again, no other writer',
                  minimum=8)
    rwk = ctx.rule('R-WAKE', 'condition-variable discipline: Submit notifies after the enqueue; setting the stopped bit '
                   'is followed by notify_all; a worker sleeps only after seeing the queue empty and the pool not '
                   'stopped under the same lock hold', minimum=6)
    rsf = ctx.rule('R-STOPFINAL', 'stopped is final: the member WasStop() reads is only bit-set / counted, or assigned on a '
                   'path that established !WasStop()', minimum=2)
    rff = ctx.rule('R-FIFO', 'Submit appends at the back of the queue the workers pop from the front', minimum=2)
    rja = ctx.rule('R-JOINALL', 'Wait() joins every worker and none is detached', minimum=2)
    rls = ctx.rule('R-LISTSPEC', 'detail::List implements the sequence it stands for (PushBack appends, PushFront '
                   'prepends, PopFront removes the first, Empty, move constructor) and re-establishes its '
                   'representation invariant: abstract interpretation over an explicit heap, lengths 0..4 + small-model '
                   'argument', minimum=24)
    for cfg, fb in sorted(fbs.items()):
        P = 'yaclib::FairThreadPool'
        ctx.guard(lambda: lib_exec.check_pool_wake(ctx, fb, rwk, rff, rja))
        ctx.guard(lambda: lib_exec.check_stop_final(ctx, fb, rsf))
        ctx.guard(lambda: lib_list.check_list_spec(ctx, fb, rls))
        ctx.guard(lambda: lib_exec.check_pool_count(ctx, fb, rc))
        ctx.guard(lambda: lib_exec.check_submit_linear(ctx, fb, rl, lambda f: f.clsq == P))
        deq = [f for f in fb.fn.values() if f.clsq == P and f.n in ('Loop', 'HardStop') and f.cfg is not None]
        if len(deq) != 2:
            ctx.broken('FairThreadPool::Loop/HardStop not found in %s' % cfg)
        ctx.guard(lambda: lib_exec.check_dequeue(ctx, fb, rl, deq))
        ctx.guard(lambda: lib_exec.check_pool_lockset(ctx, fb, rk, rd))
