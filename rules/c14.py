"""C14 — coroutine Mutex: mutual exclusion and no lost wake-up (structural clauses; K20, K20n, all four options)."""
from rules import lib_core, lib_coro, lib_exec, lib_order, lib_shape, lib_guard
from vlib import pathwalk

SENDER = 'yaclib::detail::MutexImpl::_sender'
RECEIVER = 'yaclib::detail::MutexImpl::_receiver'
HOLDER_SIDE = {'TryUnlockAwait', 'BatchingPossible', 'UnlockHereAwait', 'AwaitUnlock', 'AwaitUnlockOn', 'GetHead'}
M = 'yaclib::detail::MutexImpl'


class MutexWalker(pathwalk.Walker):
    loop_bound = 1

    def inline(self, fn, n, st):
        g = self.fb.fn.get(n.get('ck'))
        if g is not None and g.cfg is not None and st.depth < 2 and g.clsq == M and g.n in ('GetHead',
                                                                                           'TryUnlockAwait'):
            return g
        return None

    def on_inline(self, fn, n, g, st):
        st.events.append(('call', g.qn, fn.loc(n)))

    def on_node(self, fn, n, st):
        k = n['k']
        loc = fn.loc(n)
        if k == 'BinaryOperator' and n['op'] == '=':
            l = fn.sn(n['ch'][0])
            if l is not None and l['k'] == 'MemberExpr':
                if l['dn'] == RECEIVER:
                    st.events.append(('write-receiver', loc))
                elif l.get('mn') == 'next':
                    st.events.append(('write-next', fn.text(l['ch'][0]), loc))
        elif k == 'MemberExpr' and n['dn'] in (RECEIVER, SENDER):
            st.events.append(('field', n['mn'], loc))
        elif k in ('CXXMemberCallExpr', 'CallExpr') and 'cn' in n:
            cn = n['cn']
            last = cn.split('::')[-1]
            if last in ('compare_exchange_weak', 'compare_exchange_strong') and len(n.get('args', [])) >= 2:
                des = fn.sn(n['args'][1])
                kind = 'enqueue' if des.get('v') is None else ('to-%d' % (0 if des['v'] == 0 else 1))
                st.events.append(('cas-call', kind, loc))
            if cn == 'yaclib::IExecutor::Submit':
                st.events.append(('submit', fn.text(n['args'][0]), loc))
            elif last == 'Curr':
                st.events.append(('transfer', fn.text(n['obj']), loc))
            elif last in ('wait', 'join', 'sleep_for', 'lock') and not cn.startswith('yaclib::detail::MutexImpl'):
                st.events.append(('block', cn, loc))

    def on_edge(self, fn, ci, taken, st):
        c = fn.sn(ci)
        neg = False
        while c['k'] == 'UnaryOperator' and c['op'] == '!':
            neg = not neg
            c = fn.sn(c['ch'][0])
        truth = taken != neg
        last = c.get('cn', '').split('::')[-1]
        if last in ('compare_exchange_weak', 'compare_exchange_strong'):
            des = fn.sn(c['args'][1])
            kind = 'enqueue' if des.get('v') is None else ('to-%d' % (0 if des['v'] == 0 else 1))
            st.events.append(('cas', kind, truth))
        elif c['k'] == 'BinaryOperator' and c['op'] in ('==', '!='):
            t = fn.text(c['i'])
            if '_receiver' in t:
                st.events.append(('receiver-null', truth == (c['op'] == '==')))


def run(ctx):
    fbs = ctx.facts(['K20', 'K20n'], kinds=('probe',), only=r'p_coro\.cpp$', tests=r'/test/',
                    quick_tests=r'unit/coro/async_mutex\.cpp')
    rw = ctx.rule('R-WORD', 'protocol of MutexImpl::_sender', minimum=12)
    ro = ctx.rule('R-ORDER', 'lock CAS >= acquire, release CAS >= release, enqueue >= release, take-over >= acquire',
                  minimum=12)
    rc = ctx.rule('R-CASKIND', 'TryLock / release CAS strong; weak CAS only in AwaitLock\'s retry loop', minimum=6)
    rt = ctx.rule('R-TRYLOCK', 'TryLockAwait succeeds iff its strong CAS from not-locked succeeded; AwaitLock returns '
                  'false iff it took the free lock and true iff it enqueued itself with next written first', minimum=4)
    rr = ctx.rule('R-RECEIVER', '_receiver is touched only by holder-side functions; the release CAS only when '
                  '_receiver is null', minimum=8)
    rh = ctx.rule('R-HANDOFF', 'the waiter list head is advanced before the next holder is submitted/transferred and '
                  'no mutex field is touched afterwards', minimum=6)
    rn = ctx.rule('R-EFFECT.noblock', 'no blocking call in the mutex', minimum=8)
    rf = ctx.rule('R-FIFO', 'GetHead reverses the LIFO list exactly in the FIFO instantiations', minimum=4)
    rg = ctx.rule('R-GUARD', 'a guard unlocks in its destructor iff it owns the lock', minimum=2)
    rs = ctx.rule('R-SUSPEND', 'lock awaiters: await_suspend == AwaitLock outcome', minimum=4)
    rsh = ctx.rule('R-SHAPE', 'GetHead neither loses, duplicates nor cycles the waiters it takes over (shape analysis '
                   'over list segments, all lengths)', minimum=4)
    rcf = ctx.rule('R-CASFRESH', 'every retry of a compare-exchange re-tests the refreshed expected value against the '
                   'sentinels the first attempt tested', minimum=0)
    rgs = ctx.rule('R-GUARDSTATE', 'every GuardState member function follows its row of the ownership table '
                   '(summaries evaluated on {null,P,Q} x {owns, not})', minimum=8)
    rgc = ctx.rule('R-GUARDCALLS', 'Guard<M,Shared>: mode of every call into the mutex, state transition before the '
                   'call, TryLock resets on failure, Release never unlocks', minimum=8)
    rla = ctx.rule('R-LOCKAPI', 'the public entry points do to the lock what their name says: guards built after an '
                   'acquisition adopt, TryGuard tries; an unlock awaiter that reports ready has released the lock exactly '
                   'once on that path and one that suspends has not (await_suspend hands it over); a lock awaiter calls '
                   'the entry points of its own mode', minimum=20)
    from rules import lib_lockapi
    for cfg, fb in sorted(fbs.items()):
        if (ctx.guard(lambda: lib_lockapi.check_lock_api(ctx, fb, rla)) or 0) < 20:
            ctx.guard(lambda: ctx.broken('R-LOCKAPI: lock / unlock awaiters and guard factories not instantiated in %s' % cfg))
        ctx.guard(lambda: lib_guard.check_guard_state(ctx, fb, rgs))
        ctx.guard(lambda: lib_guard.check_guard_calls(ctx, fb, rgc))
        ctx.guard(lambda: lib_order.check_cas_fresh(ctx, fb, rcf, lambda f: 'MutexImpl' in f.qn))
        ctx.guard(lambda: lib_shape.check(ctx, fb, rsh, lambda qn: 'MutexImpl' in qn, 4))
        ctx.guard(lambda: lib_order.check(ctx, fb, cfg, [SENDER], rw, ro, rc))
        fns = [f for f in fb.fn.values() if f.clsq == M and f.cfg is not None]
        opts = {f.cls for f in fns}
        if len(opts) < 4:
            ctx.broken('MutexImpl: %d option combinations instantiated in %s (4 expected)' % (len(opts), cfg))
        for f in sorted(fns, key=lambda f: f.full):
            tag = ' :: ' + f.cls.replace('yaclib::detail::', '')
            res = None
            if f.n in ('TryLockAwait', 'AwaitLock'):
                key = 'R-TRYLOCK MutexImpl::' + f.n
                res = MutexWalker(fb).run(f)
                ctx.instance(rt, key + tag, dict(paths=len(res)))
                for st, rv in res:
                    if rv is None or rv[0] != 'c':
                        continue
                    ev = st.events
                    cas = [e for e in ev if e[0] == 'cas']
                    if f.n == 'TryLockAwait':
                        if bool(rv[1]) and not (cas and cas[-1] == ('cas', 'to-0', True)):
                            ctx.report(rt, key, f.where, 'TryLock reports success without a successful CAS from the '
                                       'not-locked value')
                            break
                    else:
                        last = cas[-1] if cas else None
                        if not rv[1] and last != ('cas', 'to-0', True):
                            ctx.report(rt, key, f.where, 'AwaitLock says "not suspended, lock acquired" on a path that '
                                       'did not win the free-lock CAS (two holders)')
                            break
                        if rv[1]:
                            if last != ('cas', 'enqueue', True):
                                ctx.report(rt, key, f.where, 'AwaitLock says "suspended" without having enqueued the '
                                           'coroutine (never resumed)')
                                break
                            i = max(j for j, e in enumerate(ev) if e[0] == 'cas')
                            prev_cas = [j for j, e in enumerate(ev[:i]) if e[0] == 'cas']
                            lo = prev_cas[-1] if prev_cas else -1
                            if not any(e[0] == 'write-next' for e in ev[lo + 1:i]):
                                ctx.report(rt, key, f.where, 'the waiter is published without its next link having '
                                           'been written in this iteration (the list is corrupted)')
                                break
            if f.n == 'TryLockAwait':
                rets = [x for x in f.own_nodes() if x['k'] == 'ReturnStmt' and x.get('ch')]
                ok = False
                for r in rets:
                    for d in f.descendants(r['ch'][0]):
                        x = f.nodes[d]
                        if x.get('cn', '').endswith('::compare_exchange_strong') and f.sn(x['args'][1]).get('v') == 0:
                            ok = True
                if not ok:
                    ctx.report(rt, 'R-TRYLOCK MutexImpl::TryLockAwait', f.where, 'TryLock must report the outcome of a '
                               'strong CAS from the not-locked value to locked-without-waiters')
            # who touches _receiver
            touches = [n for n in f.own_nodes() if n['k'] == 'MemberExpr' and n['dn'] == RECEIVER]
            if touches:
                key = 'R-RECEIVER MutexImpl::' + f.n
                ctx.instance(rr, key + tag, None)
                if f.n not in HOLDER_SIDE:
                    ctx.report(rr, key, f.loc(touches[0]), '_receiver (the holder\'s private batch) is accessed by %s, '
                               'which does not run as the lock holder: unsynchronised access' % f.n)
            if f.n == 'TryUnlockAwait':
                key = 'R-RECEIVER release CAS in TryUnlockAwait'
                res = MutexWalker(fb).run(f)
                ctx.instance(rr, key + tag, None)
                for st, rv in res:
                    ev = st.events
                    for i, e in enumerate(ev):
                        if e[0] == 'cas-call' and e[1] == 'to-1':
                            if not any(x == ('receiver-null', True) for x in ev[:i]):
                                ctx.report(rr, key, f.where, 'the lock is released to "not locked" although the holder '
                                           'still has private waiters in _receiver (they are never resumed)')
                                break
                    if rv is not None and rv[0] == 'c' and rv[1] and not any(
                            e[0] == 'cas-call' and e[1] == 'to-1' for e in ev):
                        ctx.report(rr, key, f.where, 'TryUnlockAwait reports "unlocked" without a successful release '
                                   'CAS')
                        break
            if f.n in ('UnlockHereAwait', 'AwaitUnlock', 'AwaitUnlockOn'):
                key = 'R-HANDOFF MutexImpl::' + f.n
                res = MutexWalker(fb).run(f)
                ctx.instance(rh, key + tag, dict(paths=len(res)))
                for st, rv in res:
                    ev = st.events
                    bad = None
                    for i, e in enumerate(ev):
                        is_next = (e[0] == 'submit' and e[1].lstrip('*') == 'next') or \
                                  (e[0] == 'transfer' and e[1] == 'next') or \
                                  (e[0] == 'submit' and f.n == 'AwaitUnlock' and 'curr' in e[1])
                        if not is_next:
                            continue
                        if not any(x[0] == 'write-receiver' for x in ev[:i]):
                            bad = ('the next holder is resumed before the holder\'s waiter list head (_receiver) was '
                                   'advanced: the next holder may unlock and read a stale head', e[2])
                        late = [x for x in ev[i + 1:] if x[0] in ('field', 'write-receiver')]
                        if late and bad is None:
                            bad = ('a mutex field (%s) is touched after the next holder was resumed: it may already '
                                   'have changed it' % late[0][1], late[0][2])
                        if bad:
                            break
                    if bad:
                        ctx.report(rh, key, bad[1], bad[0], 'instantiation: ' + f.full[:200])
                        break
            key = 'R-EFFECT.noblock MutexImpl::' + f.n
            ctx.instance(rn, key + tag, None)
            if res is None:
                res = MutexWalker(fb).run(f)
            blk = [e for st, _ in res for e in st.events if e[0] == 'block']
            if blk:
                ctx.report(rn, key, blk[0][2], 'the coroutine mutex blocks a thread (%s)' % blk[0][1])
            if f.n == 'GetHead':
                key = 'R-FIFO MutexImpl::GetHead'
                fifo = f.cta and f.cta[0] in ('true', '1')
                reverses = any(n['k'] == 'BinaryOperator' and n['op'] == '=' and
                               (g.sn(n['ch'][0]) or {}).get('mn') == 'next'
                               for g in lib_core.with_helpers(fb, f) for n in g.own_nodes())
                ctx.instance(rf, key + tag, dict(fifo=bool(fifo), reverses=reverses))
                # FIFO=false promises no order (reversing there as well is allowed); that the FIFO=true chain really
                # runs oldest-first is decided by R-SHAPE (direction of the returned chain)
                if fifo and not reverses:
                    ctx.report(rf, key, f.where, 'GetHead does not reverse the LIFO arrival list although FIFO=True')
        # guards
        for f in fb.fn.values():
            if f.qn == 'yaclib::detail::Guard::~Guard' and f.cfg is not None:
                key = 'R-GUARD Guard::~Guard'
                res = lib_core.CoreWalker(fb).run(f)
                ctx.instance(rg, key + ' :: ' + f.cls[:80], None)
                for st, _ in res:
                    owns = [e for e in st.events if e[0] == 'valid']
                    unl = [e for e in st.events if e[0] == 'call' and e[1].endswith('::UnlockHere')]
                    if not owns or bool(unl) != owns[-1][1]:
                        ctx.report(rg, key, f.where, 'the guard must unlock in its destructor exactly when it owns the '
                                   'lock')
                        break
        ctx.guard(lambda: lib_coro.check_suspend_result(ctx, fb, rs))
