"""R-DEADLINE — WaitUntil hands its time_point, unchanged, to the blocking primitive.

"false only after the deadline has passed" is stated on the caller's clock.  The blocking primitives honour that only
when they get the time_point itself (condition_variable::wait_until re-reads Clock::now() after every wake-up); a
deadline that was converted into a duration on the way is measured on steady_clock once, so with any clock that is not
in lockstep with it (a stepped system_clock, a simulated clock) the wait gives up before the deadline.

Decided per instantiation of a function called WaitUntil whose first parameter is a std::chrono::time_point: in the
call graph below it (library functions only) every blocking timed call  —  Event::Wait(token, t), cv.wait_until,
cv.wait_for  —  is reached with a time_point of the caller's Clock, at least one is reached, and every hop passes the
parameter itself (no arithmetic on the way).
"""
import re

TIMED = ('Wait', 'wait_until', 'wait_for', 'TimedWait')


def _strip(fn, n):
    while n is not None and n['k'] in ('ImplicitCastExpr', 'MaterializeTemporaryExpr', 'ExprWithCleanups',
                                       'CXXBindTemporaryExpr', 'ParenExpr') and n.get('ch'):
        n = fn.sn(n['ch'][0])
    if n is not None and n['k'] == 'CXXConstructExpr' and len(n.get('args', [])) == 1:   # copy of the time_point
        return _strip(fn, fn.sn(n['args'][0]))
    return n


def _clock(t):
    m = re.search(r'time_point<\s*([^,>]+(?:<[^>]*>)?)', t or '')
    return m.group(1).strip() if m else None


def _is_time(t):
    return 'std::chrono::time_point<' in (t or '') or 'std::chrono::duration<' in (t or '')


def check_deadline(ctx, fb, rule, minimum=1):
    n = 0
    for f in sorted(fb.fn.values(), key=lambda f: f.full):
        if f.n != 'WaitUntil' or f.cfg is None or not f.params or not f.qn.startswith('yaclib::'):
            continue
        t0 = f.locals[f.params[0]]['t']
        if 'time_point<' not in t0:
            continue
        clock = _clock(t0)
        key = 'R-DEADLINE %s(%s)' % (f.qn, clock)
        n += 1
        reached, seen, problems = [], set(), []
        work = [(f, {f.params[0]})]           # function, ids of the locals that hold the caller's deadline
        while work:
            g, carriers = work.pop()
            if (g.key, tuple(sorted(carriers))) in seen:
                continue
            seen.add((g.key, tuple(sorted(carriers))))
            # single-definition locals initialised from a carrier carry it too
            for d in g.own_nodes():
                if d['k'] == 'DeclStmt':
                    for v in d['vars']:
                        if 'init' in v:
                            s = _strip(g, g.sn(v['init']))
                            if s is not None and s['k'] == 'DeclRefExpr' and s.get('id') in carriers:
                                carriers = carriers | {v['id']}
            for c in g.calls():
                args = c.get('args', [])
                last = c['cn'].split('::')[-1]
                timeargs = [(k, a) for k, a in enumerate(args) if _is_time(g.sn(a).get('t'))]
                if not timeargs:
                    continue
                callee = fb.fn.get(c.get('ck'))
                lib_callee = callee is not None and callee.cfg is not None and callee.qn.startswith('yaclib::')
                blocking = last in TIMED and (not lib_callee or last in ('wait_until', 'wait_for'))
                if not lib_callee and not blocking:
                    continue          # chrono arithmetic, clock reads, ...: judged where their result is passed on
                for k, a in timeargs:
                    s = _strip(g, g.sn(a))
                    ty = g.sn(a).get('t') or ''
                    is_carrier = s is not None and s['k'] == 'DeclRefExpr' and s.get('id') in carriers
                    if not is_carrier:
                        if 'time_point<' in ty or 'duration<' in ty:
                            problems.append((g.loc(c), 'passes %s to %s instead of the caller\'s time_point: the deadline '
                                             'is recomputed or converted on the way (%s)' % (g.text(a)[:80], c['cn'], ty[:80])))
                        continue
                    if blocking:
                        reached.append((c['cn'], ty, g.loc(c)))
                    elif lib_callee and k < len(callee.params):
                        if callee.cls and c['k'] == 'CXXOperatorCallExpr':
                            continue
                        work.append((callee, {callee.params[k]}))
                    if lib_callee and last in TIMED and callee is not None and not blocking:
                        pass
        ctx.instance(rule, key + ' :: ' + f.full[:140], dict(function=f.full[:200], blocking_calls=[r[0] for r in reached],
                                                             functions_followed=len(seen)))
        for loc, msg in problems:
            ctx.report(rule, key, loc, 'WaitUntil %s; with a clock that does not run in lockstep with steady_clock the '
                       'call returns false before the deadline has passed' % msg, 'entry: ' + f.full[:300])
        if problems:
            continue
        bad = [r for r in reached if 'time_point<' not in r[1] or _clock(r[1]) != clock]
        for r in bad:
            ctx.report(rule, key, r[2], 'the blocking call %s is reached with %s, not with the caller\'s time_point on %s' %
                       (r[0], r[1][:80], clock), 'entry: ' + f.full[:300])
        if not reached:
            ctx.broken('R-DEADLINE: no blocking timed wait is reached from %s with the caller\'s deadline' % f.full[:200])
    if n < minimum:
        ctx.broken('R-DEADLINE: only %d WaitUntil instantiations found (%d expected)' % (n, minimum))
    return n
