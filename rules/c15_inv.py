"""C15 / R-INV — the queue accounting of SharedMutexImpl is an inductive invariant.

Abstract state (vlib/lin.py: linear expressions over the pre-state, facts, Farkas-style proofs by enumeration):

  W, R      writer / reader half of _state           L   length of the intrusive writers list (_writers_head.next…)
  P         _writers_prio                            RL  length of _readers        Q  _readers_size
  PASS      _readers_pass                            tail: does _writers_tail point to the last list node (or the
                                                     head of an empty list)

Invariant (assumed in the pre-state of every entry, proved in every post-state, per option combination):

  A  W >= 1 => L == W - 1 ;  W == 0 => L == 0        every writer but the owner / armed first one is in the list
  B  FIFO:  P == K <= L  and  (RL == 0 => P == L);  !FIFO: P == 0   where the ghost K counts the listed writers that
     are ahead of the first queued reader (append: +1 iff no reader is queued; unlink: -1 unless 0; readers
     resumed: K := L)
  C  Q == RL
  E  W == 0 => RL == 0                               readers queue only behind a writer
  T  tail valid, no half-done append, an appended node has next == nullptr
  N  every node unlinked from the writers list is resumed on this path or stored in _writers_first with
     _readers_wait armed to the number of readers resumed; an unlock that leaves W >= 1 resumes somebody
  D  credits: a path that leaves W == 0 adds exactly (R - RL) to PASS (the registered readers that are not queued);
     a path that leaves W >= 1 adds nothing; AwaitLockShared returns false iff it consumed one credit and returns
     true iff it queued the caller
  U  no counter is decremented below zero, no pop from an empty list
  V  try operations: a failing TryLock / TryLockShared never modified _state on its path (no transient registration);
     a succeeding one registered exactly one writer / reader
  R  reader exit / first-writer arming: UnlockHereShared removes one reader, touches _readers_wait only when a writer
     is registered (fetch_sub(1), once) and resumes _writers_first exactly when that returned 1; the first writer
     arms _readers_wait with exactly R, and does not suspend when R == 0

The code is walked path by path (pathwalk) with inlining of the private helpers; pointer values into the writers
list are abstract (`n1`, `n2` = first/second node, `popped`, `curr`, `head`, `first`, `tail`).  Anything the abstract
evaluator does not understand is analysis-broken (exit 2), never a pass.
"""
import copy

from vlib import pathwalk
from vlib.lin import Facts, Infeasible, LinExpr, lift

SM = 'yaclib::detail::SharedMutexImpl'
KW = 1 << 32
UNKNOWN = pathwalk.UNKNOWN
COUNTERS = {'_writers_prio': 'P', '_readers_size': 'Q', '_readers_pass': 'PASS'}
ENTRIES = ('AwaitLockShared', 'AwaitLock', 'UnlockHere', 'UnlockHereShared', 'TryLock', 'TryLockShared',
           'TryLockAwait', 'TryLockSharedAwait')


class Unrecognised(Exception):
    pass


class G:
    """ghost state of one path (copied on write)"""

    def __init__(self):
        self.facts = Facts()
        self.v = {}  # W R L P Q RL PASS -> LinExpr
        self.tail = 'ok'  # ok | behind (linked, tail not advanced) | stale
        self.curr_null = False
        self.first = None
        self.popped = 0
        self.popped_run = 0
        self.popped_first = 0
        self.runs = []  # tags
        self.rw = []  # (op, value)
        self.lists = {}  # local list name -> LinExpr length
        self.moved = None  # length of _readers when it was moved out
        self.readers_run = 0
        self.pushed = []
        self.cas = {}  # node -> (expected value, desired value, local key or None)
        self.problems = []  # (clause, message, loc)
        self.nfresh = 0
        self.trace = []
        self.state_writes = []  # locations of operations that changed _state on this path

    def copy(self):
        g = copy.copy(self)
        g.v = dict(self.v)
        g.runs = list(self.runs)
        g.rw = list(self.rw)
        g.lists = dict(self.lists)
        g.pushed = list(self.pushed)
        g.cas = dict(self.cas)
        g.problems = list(self.problems)
        g.trace = list(self.trace)
        g.state_writes = list(self.state_writes)
        return g


def lin_of(v):
    if v[0] == 'c':
        return LinExpr(int(v[1]))
    if v[0] == 'lin':
        return v[1]
    return None


class InvWalker(pathwalk.Walker):
    loop_bound = 1
    max_paths = 5000

    def __init__(self, fb, fifo):
        super().__init__(fb)
        self.fifo = fifo

    # ------------------------------------------------------------ ghost access
    def g(self, st):
        return st.data['g']

    def gw(self, st):
        """writable ghost state"""
        st.data = copy.copy(st.data)
        g = st.data['g'].copy()
        st.data['g'] = g
        return g

    def fresh_word(self, st):
        g = self.gw(st)
        g.nfresh += 1
        return ('word', LinExpr.sym('w%d' % g.nfresh), LinExpr.sym('r%d' % g.nfresh))

    # ------------------------------------------------------------ inlining
    def inline(self, fn, n, st):
        g = self.fb.fn.get(n.get('ck'))
        if g is not None and g.cfg is not None and g.clsq == SM and g.n != 'Run' and st.depth < 4 and \
                'ctor' not in g.flags:
            return g
        return None

    # ------------------------------------------------------------ evaluator
    def field(self, fn, i):
        """name of the SharedMutexImpl field a (stripped) expression denotes, else None"""
        n = fn.sn(i)
        while n is not None and n['k'] in ('ImplicitCastExpr', 'CXXStaticCastExpr') and n.get('ch'):
            n = fn.sn(n['ch'][0])
        if n is not None and n['k'] == 'MemberExpr' and n.get('dn', '').startswith(SM + '::'):
            return n['dn'][len(SM) + 2:]
        return None

    def ev(self, fn, i, st):
        i = fn.strip(i)
        if i is None or i < 0:
            return UNKNOWN
        n = fn.nodes[i]
        k = n['k']
        if k == 'CXXNullPtrLiteralExpr' or (n.get('cast') == 'NullToPointer'):
            return ('p', 'null')
        if 'v' in n and k != 'DeclRefExpr':
            return ('c', n['v'])
        if k == 'DeclRefExpr':
            if 'id' in n:
                v = st.locals.get((st.depth, n['id']))
                if v is not None:
                    return v
                t = n.get('t', '')
                if t.startswith('yaclib::detail::BaseCore') or t.startswith('yaclib::detail::Node'):
                    return ('ref', 'curr') if '*' not in t else UNKNOWN
            if 'v' in n:
                return ('c', n['v'])
            return UNKNOWN
        if k in ('ImplicitCastExpr', 'CXXStaticCastExpr', 'CStyleCastExpr', 'CXXFunctionalCastExpr'):
            return self.ev(fn, n['ch'][0], st)
        g = self.g(st)
        if k == 'MemberExpr':
            dn = n.get('dn', '')
            if dn.startswith(SM + '::'):
                f = dn[len(SM) + 2:]
                if f in COUNTERS:
                    return ('lin', g.v[COUNTERS[f]])
                if f == '_writers_first':
                    return ('p', 'first')
                if f == '_writers_tail':
                    return ('p', 'tail')
                if f == '_writers_head':
                    return ('ref', 'head')
                if f == '_readers':
                    return ('listref', '_readers')
                return UNKNOWN
            if dn == 'yaclib::detail::Node::next' and n.get('ch'):
                b = self.ev(fn, n['ch'][0], st)
                if b == ('ref', 'head'):
                    d = g.facts.decide_eq0(g.v['L'])
                    return ('p', 'null') if d is True else ('p', 'n1')
                if b == ('p', 'n1'):
                    d = g.facts.decide_eq0(g.v['L'] - 1)
                    return ('p', 'null') if d is True else ('p', 'n2')
                return UNKNOWN
            return UNKNOWN
        if k == 'UnaryOperator':
            op = n['op']
            if op == '&':
                v = self.ev(fn, n['ch'][0], st)
                if v[0] == 'ref':
                    return ('p', v[1])
                return UNKNOWN
            if op == '*':
                v = self.ev(fn, n['ch'][0], st)
                if v[0] == 'p':
                    return ('ref', v[1])
                return UNKNOWN
            if op == '!':
                v = self.ev(fn, n['ch'][0], st)
                return ('c', 0 if v[1] else 1) if v[0] == 'c' else UNKNOWN
            if op == '-':
                v = lin_of(self.ev(fn, n['ch'][0], st))
                return ('lin', -v) if v is not None else UNKNOWN
            return UNKNOWN
        if k == 'BinaryOperator':
            op = n['op']
            if op in ('&&', '||'):
                sc = st.data.get(('sc', st.depth, i))
                if sc is not None:
                    return ('c', sc)
                return self.ev(fn, n['ch'][1], st)
            if op in ('==', '!=', '<', '>', '<=', '>='):
                c = self.cond(fn, i, st)
                if c is None:
                    return UNKNOWN
                d = self.decide(g.facts, c)
                return ('c', int(d)) if d is not None else UNKNOWN
            a, b = self.ev(fn, n['ch'][0], st), self.ev(fn, n['ch'][1], st)
            if op in ('+', '-'):
                if a[0] == 'word' and b[0] == 'c':
                    kk = int(b[1]) if op == '+' else -int(b[1])
                    if kk % KW == 0:
                        return ('word', a[1] + kk // KW, a[2])
                    if abs(kk) < KW:
                        return ('word', a[1], a[2] + kk)
                    return UNKNOWN
                la, lb = lin_of(a), lin_of(b)
                if la is not None and lb is not None:
                    r = la + lb if op == '+' else la - lb
                    return ('c', r.c) if r.is_const() else ('lin', r)
                return UNKNOWN
            if op in ('/', '%') and b == ('c', KW):
                if a[0] == 'word':
                    return ('lin', a[1] if op == '/' else a[2])
                if a[0] == 'c':
                    return ('c', a[1] // KW if op == '/' else a[1] % KW)
            return UNKNOWN
        if k in ('CallExpr', 'CXXMemberCallExpr', 'CXXOperatorCallExpr', 'CXXConstructExpr', 'CXXTemporaryObjectExpr'):
            v = st.data.get(('ret', st.depth, i))
            return v if v is not None else UNKNOWN
        return UNKNOWN

    # a condition in linear form: list of (rel, expr) conjuncts, rel in '==', '!=', '>=' (expr rel 0)
    def cond(self, fn, i, st):
        n = fn.sn(i)
        if n is None:
            return None
        if n['k'] in ('CallExpr', 'CXXMemberCallExpr') and n.get('cn', '').endswith('::Empty'):
            ln = self.list_len(fn, n, st)
            return [('==', ln)] if ln is not None else None
        if n['k'] != 'BinaryOperator' or n['op'] not in ('==', '!=', '<', '>', '<=', '>='):
            v = self.ev(fn, i, st)
            if v[0] == 'p':  # pointer used as a truth value
                g = self.g(st)
                if v[1] == 'n1':
                    return [('!=', g.v['L'])]
                if v[1] == 'n2':
                    return [('!=', g.v['L'] - 1)]
                if v[1] == 'null':
                    return [('!=', LinExpr(0))]
                return None
            la = lin_of(v)
            if la is not None and n.get('t') != 'bool':
                return [('!=', la)]
            return None
        op = n['op']
        a, b = self.ev(fn, n['ch'][0], st), self.ev(fn, n['ch'][1], st)
        g = self.g(st)
        # pointers against nullptr
        for x, y in ((a, b), (b, a)):
            if x[0] == 'p' and y == ('p', 'null') and op in ('==', '!='):
                if x[1] == 'n1':
                    return [(op, g.v['L'])]
                if x[1] == 'n2':
                    return [(op, g.v['L'] - 1)]
                if x[1] == 'null':
                    return [(op, LinExpr(0))]
                return None
        if a[0] == 'word' or b[0] == 'word':
            if b[0] == 'word' and a[0] != 'word':
                a, b = b, a
                op = {'<': '>', '>': '<', '<=': '>=', '>=': '<='}.get(op, op)
            if b[0] == 'c':
                bw, br = int(b[1]) // KW, int(b[1]) % KW
            elif b[0] == 'word':
                bw, br = b[1], b[2]
            else:
                return None
            if op == '==':
                return [('==', a[1] - bw), ('==', a[2] - br)]
            if op == '>=' and b[0] == 'c' and br == 0:
                return [('>=', a[1] - bw)]
            if op == '<' and b[0] == 'c' and br == 0:
                return [('>=', lift(bw) - a[1] - 1)]
            return None
        la, lb = lin_of(a), lin_of(b)
        if la is None or lb is None:
            return None
        d = la - lb
        if op in ('==', '!='):
            return [(op, d)]
        if op == '>=':
            return [('>=', d)]
        if op == '>':
            return [('>=', d - 1)]
        if op == '<=':
            return [('>=', -d)]
        if op == '<':
            return [('>=', -d - 1)]
        return None

    @staticmethod
    def decide1(facts, rel, e):
        if rel == '==':
            return facts.decide_eq0(e)
        if rel == '!=':
            d = facts.decide_eq0(e)
            return None if d is None else not d
        if facts.prove_ge0(e):
            return True
        if facts.prove_ge0(-e - 1):
            return False
        return None

    def decide(self, facts, conj):
        res = [self.decide1(facts, r, e) for r, e in conj]
        if all(x is True for x in res):
            return True
        if any(x is False for x in res):
            return False
        return None

    @staticmethod
    def learn1(facts, rel, e, truth):
        if rel == '==':
            return facts.learn_eq0(e) if truth else facts.learn_ne0(e)
        if rel == '!=':
            return facts.learn_ne0(e) if truth else facts.learn_eq0(e)
        return facts.learn_ge0(e) if truth else facts.learn_ge0(-e - 1)

    def learn(self, facts, conj, truth):
        if truth:
            for r, e in conj:
                facts = self.learn1(facts, r, e, True)
            return facts
        open_ = [(r, e) for r, e in conj if self.decide1(facts, r, e) is not True]
        if len(open_) == 1:
            return self.learn1(facts, open_[0][0], open_[0][1], False)
        if not open_:
            raise Infeasible()
        return facts

    def list_len(self, fn, n, st):
        obj = n.get('obj')
        v = self.ev(fn, obj, st) if obj is not None else UNKNOWN
        g = self.g(st)
        if v == ('listref', '_readers'):
            return g.v['RL']
        if v[0] == 'list':
            return g.lists.get(v[1])
        return None

    # ------------------------------------------------------------ case splits for conditions used as values
    def split(self, fn, n, st):
        if n['k'] == 'ImplicitCastExpr' and n.get('cast') == 'IntegralCast' and n.get('ch'):
            c = fn.sn(n['ch'][0])
            if c is not None and c.get('t') == 'bool' and 'v' not in c:
                conj = self.cond(fn, c['i'], st)
                if conj is None:
                    return None
                if self.decide(self.g(st).facts, conj) is not None:
                    return None
                alts = []
                for truth in (True, False):
                    s2 = st.copy()
                    g = self.gw(s2)
                    try:
                        g.facts = self.learn(g.facts, conj, truth)
                    except Infeasible:
                        continue
                    if self.decide(g.facts, conj) is None:
                        return None  # not representable: leave it unknown
                    alts.append(s2)
                return alts
        return None

    # ------------------------------------------------------------ effects of calls
    def call_value(self, fn, n, st):
        cn = n.get('cn', '')
        last = cn.split('::')[-1]
        loc = fn.loc(n)
        obj = n.get('obj')
        f = self.field(fn, obj) if obj is not None else None
        args = n.get('args', [])
        if f == '_state' and last in ('fetch_add', 'fetch_sub', 'load', 'store', 'exchange', 'compare_exchange_strong',
                                      'compare_exchange_weak'):
            g = self.gw(st)
            old = ('word', g.v['W'], g.v['R'])
            if last == 'load':
                return self.fresh_word(st)
            if last in ('fetch_add', 'fetch_sub'):
                a = self.ev(fn, args[0], st)
                if a[0] != 'c':
                    raise Unrecognised('%s: _state.%s of a non-constant' % (loc, last))
                kk = int(a[1]) if last == 'fetch_add' else -int(a[1])
                if kk % KW == 0:
                    self.add(g, 'W', kk // KW, loc, 'the writer count')
                else:
                    self.add(g, 'R', kk, loc, 'the reader count')
                g.trace.append('%s _state.%s(%s)' % (loc, last, 'kWriter' if kk % KW == 0 else 'kReader'))
                g.state_writes.append(loc)
                return old
            if last.startswith('compare_exchange'):
                exp = self.ev(fn, args[0], st)
                des = self.ev(fn, args[1], st)
                an = fn.sn(args[0])
                key = (st.depth, an['id']) if an is not None and an['k'] == 'DeclRefExpr' and 'id' in an else None
                g.cas[(st.depth, n['i'])] = (exp, des, key, loc)
                return UNKNOWN
            raise Unrecognised('%s: _state.%s is not part of the modelled protocol' % (loc, last))
        if f == '_readers_wait':
            g = self.gw(st)
            a = self.ev(fn, args[0], st) if args else UNKNOWN
            g.rw.append((last, a, loc))
            st.data[('rwcall', st.depth, n['i'])] = last
            return UNKNOWN
        if f == '_readers' and last in ('PushBack', 'PushFront'):
            g = self.gw(st)
            a = self.ev(fn, args[0], st)
            g.pushed.append(a)
            g.v['RL'] = g.v['RL'] + 1
            g.trace.append('%s _readers.%s' % (loc, last))
            return UNKNOWN
        if last == 'Empty' and cn.startswith('yaclib::detail::'):
            conj = self.cond(fn, n['i'], st)
            if conj is not None:
                d = self.decide(self.g(st).facts, conj)
                if d is not None:
                    return ('c', int(d))
            return UNKNOWN
        if last == 'PopFront' and cn.startswith('yaclib::detail::'):
            v = self.ev(fn, obj, st) if obj is not None else UNKNOWN
            g = self.gw(st)
            if v[0] == 'list' and v[1] in g.lists:
                ln = g.lists[v[1]]
                if not g.facts.prove_ge0(ln - 1):
                    g.problems.append(('U', 'PopFront on a reader batch that may be empty', loc))
                g.lists[v[1]] = ln - 1
                return ('ref', 'reader')
            raise Unrecognised('%s: PopFront on an unmodelled list' % loc)
        if cn == 'std::move' and args:
            return self.ev(fn, args[0], st)
        if n['k'] in ('CXXConstructExpr', 'CXXTemporaryObjectExpr') and \
                cn in ('yaclib::detail::Stack::Stack', 'yaclib::detail::List::List'):
            if args:
                v = self.ev(fn, args[0], st)
                if v == ('listref', '_readers'):
                    g = self.gw(st)
                    name = 'L%d' % (len(g.lists) + 1)
                    g.lists[name] = g.v['RL']
                    g.moved = g.v['RL']
                    g.v['RL'] = LinExpr(0)
                    g.v['K'] = g.v['L']  # ghost K: no reader is queued any more, every listed writer is ahead
                    g.trace.append('%s readers moved out' % loc)
                    return ('list', name)
                raise Unrecognised('%s: list constructed from an unmodelled source' % loc)
            g = self.gw(st)
            name = 'L%d' % (len(g.lists) + 1)
            g.lists[name] = LinExpr(0)
            return ('list', name)
        if cn == SM + '::Run':
            g = self.gw(st)
            a = self.ev(fn, args[0], st) if args else UNKNOWN
            tag = a[1] if a[0] == 'p' else '?'
            g.runs.append((tag, loc))
            if tag == 'popped':
                g.popped_run += 1
            if tag == 'reader':
                g.readers_run += 1
            g.trace.append('%s Run(%s)' % (loc, tag))
            return UNKNOWN
        return UNKNOWN

    def add(self, g, name, k, loc, what):
        if k < 0 and not g.facts.prove_ge0(g.v[name] + k):
            g.problems.append(('U', '%s can be decremented below zero here' % what, loc))
        g.v[name] = g.v[name] + k

    # ------------------------------------------------------------ effects of statements
    def on_node(self, fn, n, st):
        k = n['k']
        if k == 'ReturnStmt':
            return
        loc = fn.loc(n)
        if k in ('BinaryOperator', 'CompoundAssignOperator') and n['op'] in ('=', '+=', '-='):
            lhs = fn.sn(n['ch'][0])
            if lhs is None or lhs['k'] != 'MemberExpr':
                return
            dn = lhs.get('dn', '')
            if dn.startswith(SM + '::'):
                f = dn[len(SM) + 2:]
                if f in COUNTERS:
                    g = self.gw(st)
                    name = COUNTERS[f]
                    rv = lin_of(self.ev(fn, n['ch'][1], st))
                    if rv is None:
                        raise Unrecognised('%s: value assigned to %s is not linear in the modelled state' % (loc, f))
                    new = rv if n['op'] == '=' else (g.v[name] + rv if n['op'] == '+=' else g.v[name] - rv)
                    if not g.facts.prove_ge0(new):
                        g.problems.append(('U', '%s can become negative (unsigned wrap-around) here' % f, loc))
                    g.v[name] = g.facts.norm(new)
                    g.trace.append('%s %s %s %r' % (loc, f, n['op'], rv))
                elif f == '_writers_first' and n['op'] == '=':
                    g = self.gw(st)
                    v = self.ev(fn, n['ch'][1], st)
                    g.first = v[1] if v[0] == 'p' else '?'
                    if g.first == 'popped':
                        g.popped_first += 1
                    g.trace.append('%s _writers_first = %s' % (loc, g.first))
                elif f == '_writers_tail' and n['op'] == '=':
                    g = self.gw(st)
                    v = self.ev(fn, n['ch'][1], st)
                    if v == ('p', 'head'):
                        g.tail = 'ok' if g.facts.prove_eq0(g.v['L']) and g.tail != 'behind' else 'bad'
                    elif v == ('p', 'curr'):
                        if g.tail == 'behind':
                            g.tail = 'ok'
                            g.v['L'] = g.v['L'] + 1
                            # ghost K: the new writer is ahead of every queued reader iff none is queued now
                            d = g.facts.decide_eq0(g.v['RL'])
                            if d is None:
                                raise Unrecognised('%s: append with undecided reader queue' % loc)
                            if d:
                                g.v['K'] = g.v['K'] + 1
                        else:
                            g.tail = 'bad'
                    else:
                        g.tail = 'bad'
                    g.trace.append('%s _writers_tail = %s -> tail %s' % (loc, v, g.tail))
                elif f in ('_readers', '_writers_head', '_lock', '_state', '_readers_wait'):
                    raise Unrecognised('%s: assignment to %s' % (loc, f))
                return
            if dn == 'yaclib::detail::Node::next' and n['op'] == '=' and lhs.get('ch'):
                b = self.ev(fn, lhs['ch'][0], st)
                v = self.ev(fn, n['ch'][1], st)
                g = self.gw(st)
                if b == ('ref', 'head'):
                    if v == ('p', 'n2') or (v == ('p', 'null') and g.facts.prove_eq0(g.v['L'] - 1)):
                        if not g.facts.prove_ge0(g.v['L'] - 1):
                            g.problems.append(('U', 'a node is unlinked from a writers list that may be empty', loc))
                        g.v['L'] = g.v['L'] - 1
                        g.popped += 1
                        # ghost K: the unlinked (oldest) writer was ahead of the queued readers iff K >= 1
                        if g.facts.prove_ge0(g.v['K'] - 1):
                            g.v['K'] = g.v['K'] - 1
                        elif not g.facts.prove_eq0(g.v['K']):
                            raise Unrecognised('%s: pop with undecided priority count' % loc)
                        if g.tail == 'ok':
                            g.tail = 'ok-if-nonempty'
                        for key, val in list(st.locals.items()):
                            if val == ('p', 'n1'):
                                st.locals[key] = ('p', 'popped')
                            elif val == ('p', 'n2'):
                                st.locals[key] = ('p', 'n1')
                        g.trace.append('%s pop writers list' % loc)
                    else:
                        raise Unrecognised('%s: _writers_head.next = %s' % (loc, v))
                elif b == ('p', 'tail'):
                    if v == ('p', 'curr') and g.tail == 'ok':
                        g.tail = 'behind'
                    else:
                        g.tail = 'bad'
                    g.trace.append('%s _writers_tail->next = %s -> tail %s' % (loc, v, g.tail))
                elif b == ('ref', 'curr'):
                    if v == ('p', 'null'):
                        g.curr_null = True
                else:
                    raise Unrecognised('%s: write to ->next of %s' % (loc, b))
                return
        if k == 'UnaryOperator' and n['op'] in ('++', '--'):
            lhs = fn.sn(n['ch'][0])
            if lhs is not None and lhs['k'] == 'MemberExpr' and lhs.get('dn', '').startswith(SM + '::'):
                f = lhs['dn'][len(SM) + 2:]
                if f in COUNTERS:
                    g = self.gw(st)
                    self.add(g, COUNTERS[f], 1 if n['op'] == '++' else -1, loc, f)
                    g.v[COUNTERS[f]] = g.facts.norm(g.v[COUNTERS[f]])
                    g.trace.append('%s %s%s' % (loc, n['op'], f))
                else:
                    raise Unrecognised('%s: %s on %s' % (loc, n['op'], f))

    def on_edge(self, fn, ci, taken, st):
        c = fn.sn(ci)
        neg = False
        while c is not None and c['k'] == 'UnaryOperator' and c['op'] == '!':
            neg = not neg
            c = fn.sn(c['ch'][0])
        if c is None:
            return
        truth = taken != neg
        g = self.gw(st)
        cas = g.cas.pop((st.depth, c['i']), None)
        if cas is not None:
            self.resolve_cas(g, st, cas, truth)
            return
        if c['k'] == 'BinaryOperator' and c.get('op') in ('==', '!='):
            # outcome of a _readers_wait read-modify-write compared with a constant (the "I am the last reader" test)
            for x, y in ((c['ch'][0], c['ch'][1]), (c['ch'][1], c['ch'][0])):
                j = fn.resolve(x)
                if j is not None and st.data.get(('rwcall', st.depth, j)) is not None:
                    other = self.ev(fn, y, st)
                    g.rw.append(('cmp', st.data[('rwcall', st.depth, j)], other, truth == (c['op'] == '==')))
                    return
        conj = self.cond(fn, c['i'], st)
        if conj is None:
            return
        g.facts = self.learn(g.facts, conj, truth)  # Infeasible propagates: the walker drops the path
        for name in g.v:
            g.v[name] = g.facts.norm(g.v[name])
        # the tail fix-up after a pop: "if (head.next == nullptr) tail = &head"
        if g.tail == 'ok-if-nonempty' and g.facts.prove_ge0(g.v['L'] - 1):
            g.tail = 'ok'

    def resolve_cas(self, g, st, cas, success):
        exp, des, key, loc = cas
        if success:
            if exp[0] == 'c':
                exp = ('word', LinExpr(int(exp[1]) // KW), LinExpr(int(exp[1]) % KW))
            if des[0] == 'c':
                des = ('word', LinExpr(int(des[1]) // KW), LinExpr(int(des[1]) % KW))
            if exp[0] != 'word' or des[0] != 'word':
                raise Unrecognised('%s: compare-exchange on _state with an unmodelled operand' % loc)
            g.facts = g.facts.learn_eq0(g.v['W'] - exp[1])
            g.facts = g.facts.learn_eq0(g.v['R'] - exp[2])
            g.v['W'], g.v['R'] = des[1], des[2]
            for name in g.v:
                g.v[name] = g.facts.norm(g.v[name])
            g.trace.append('%s CAS succeeded -> W=%r R=%r' % (loc, g.v['W'], g.v['R']))
            g.state_writes.append(loc)
        else:
            if key is not None:
                g.nfresh += 1
                st.locals[key] = ('word', LinExpr.sym('w%d' % g.nfresh), LinExpr.sym('r%d' % g.nfresh))


# ---------------------------------------------------------------------------------------------- the proof obligations

def initial_states(fifo, entry):
    """pre-states: the invariant, split into the cases that make it linear"""
    out = []
    for wcase in ('W0', 'W1'):
        for rcase in ('R0', 'R1'):
            if wcase == 'W0' and rcase == 'R1':
                continue  # E
            if entry == 'UnlockHere' and wcase == 'W0':
                continue  # the caller owns the write lock
            g = G()
            f = Facts()
            W = LinExpr.sym('W0')
            R = LinExpr.sym('R0')
            if wcase == 'W0':
                W = LinExpr(0)
                L = LinExpr(0)
            else:
                f = f.learn_ge0(W - 1)
                L = W - 1
            if rcase == 'R0':
                RL = LinExpr(0)
            else:
                RL = LinExpr.sym('RL0')
                f = f.learn_ge0(RL - 1)
            f = f.learn_ge0(R - RL)  # queued readers are registered in the reader half
            if not fifo:
                P = LinExpr(0)
            elif rcase == 'R0':
                P = L
            else:
                P = LinExpr.sym('P0')
                f = f.learn_ge0(L - P)
            PASS = LinExpr.sym('PASS0')
            if entry == 'AwaitLockShared' and wcase == 'W0':
                # the caller failed TryLockSharedAwait and is registered; with no writer left it holds a credit (D)
                f = f.learn_ge0(PASS - 1)
            if entry == 'UnlockHereShared':
                f = f.learn_ge0(R - RL - 1)  # the caller is an active reader
            g.facts = f
            g.v = dict(W=W, R=R, L=L, P=P, Q=RL, RL=RL, PASS=PASS, K=P)
            g.pre = dict(g.v)
            g.case = '%s,%s' % ('no writer' if wcase == 'W0' else 'W>=1', 'no queued reader' if rcase == 'R0' else
                                'RL>=1')
            out.append(g)
    return out


def with_case(facts, e_is_zero):
    """the two refinements of `facts` by e == 0 / e >= 1 (None where infeasible)"""
    res = []
    for learn in (lambda f: f.learn_eq0(e_is_zero), lambda f: f.learn_ge0(e_is_zero - 1)):
        try:
            res.append(learn(facts))
        except Infeasible:
            res.append(None)
    return res


def check_post(walker, g, entry, rv, fifo):
    """returns list of (clause, message)"""
    bad = [(c, m + ' (%s)' % l) for c, m, l in g.problems]
    pre = g.pre
    f0 = g.facts
    v = {k: f0.norm(x) for k, x in g.v.items()}
    z, nz = with_case(f0, v['W'])
    # A, E
    if z is not None:
        if not z.prove_eq0(v['L']):
            bad.append(('A', 'no writer is left (W == 0) but the writers list may be non-empty: L = %r' % z.norm(v['L'])))
        if not z.prove_eq0(v['RL']):
            bad.append(('E', 'no writer is left but readers may stay queued: RL = %r' % z.norm(v['RL'])))
    if nz is not None:
        if not nz.prove_eq0(v['L'] - v['W'] + 1):
            bad.append(('A', 'writers in the list L = %r, writers counted in _state W = %r: every writer except the '
                        'owner (or the armed first one) must be linked' % (nz.norm(v['L']), nz.norm(v['W']))))
    # B
    if fifo:
        if not f0.prove_eq0(v['P'] - v['K']):
            bad.append(('B', '_writers_prio = %r but %r queued writers are ahead of the first queued reader (FIFO '
                        'order between writers and readers is lost)' % (v['P'], v['K'])))
        if not f0.prove_ge0(v['L'] - v['P']):
            bad.append(('B', '_writers_prio = %r may exceed the number of queued writers L = %r' % (v['P'], v['L'])))
        rz, _ = with_case(f0, v['RL'])
        if rz is not None and not rz.prove_eq0(v['P'] - v['L']):
            bad.append(('B', 'with no reader queued every queued writer has priority, but _writers_prio = %r and the '
                        'list holds L = %r writers: the writers not counted are never resumed (SlowUnlock ends in '
                        'PassReaders while they wait)' % (rz.norm(v['P']), rz.norm(v['L']))))
    else:
        if not f0.prove_eq0(v['P']):
            bad.append(('B', '_writers_prio is used although FIFO is off'))
    # C
    if not f0.prove_eq0(v['Q'] - v['RL']):
        bad.append(('C', '_readers_size = %r but the readers list holds %r' % (v['Q'], v['RL'])))
    # T
    tail = g.tail
    if tail == 'ok-if-nonempty':
        tail = 'ok' if f0.prove_ge0(v['L'] - 1) else 'stale'
    if tail != 'ok':
        bad.append(('T', {'behind': 'a node was linked after the tail but _writers_tail was not advanced',
                          'stale': 'the last writer was unlinked and _writers_tail still points to it (the next '
                                   'AwaitLock links its node after a resumed coroutine)',
                          'bad': '_writers_tail does not point to the last node of the writers list'}[tail]))
    # N
    if g.popped != g.popped_run + g.popped_first:
        bad.append(('N', 'a writer is unlinked from the list and neither resumed nor stored in _writers_first: it is '
                    'never resumed'))
    if g.popped_first:
        stores = [x for x in g.rw if x[0] == 'store']
        ok = g.moved is not None and stores and lin_of(stores[-1][1]) is not None and \
            f0.prove_eq0(lin_of(stores[-1][1]) - g.moved) and f0.prove_ge0(g.moved - 1)
        if not ok:
            bad.append(('N', 'the next writer is parked in _writers_first but _readers_wait is not armed with the number '
                        'of readers resumed on this path (the last of them is the one that runs the writer)'))
    for name, ln in g.lists.items():
        if not f0.prove_eq0(ln):
            bad.append(('N', 'the batch of readers taken from the queue is not drained (%r left)' % f0.norm(ln)))
    if entry == 'UnlockHere':
        if nz is not None and not g.runs:
            bad.append(('N', 'the unlock leaves W = %r writers registered and resumes nobody' % nz.norm(v['W'])))
        if not f0.prove_eq0(v['W'] - pre['W'] + 1):
            bad.append(('A', 'an exclusive unlock must remove exactly one writer from _state'))
        # D
        if z is not None and not z.prove_eq0(v['PASS'] - pre['PASS'] - pre['R'] + pre['RL']):
            bad.append(('D', 'the last writer leaves: PASS must grow by R - RL (registered readers that are not queued), '
                        'it changes by %r' % z.norm(v['PASS'] - pre['PASS'])))
        if nz is not None and not nz.prove_eq0(v['PASS'] - pre['PASS']):
            bad.append(('D', 'credits are handed out although a writer is still registered'))
    elif entry == 'AwaitLockShared':
        if rv is not None and rv[0] == 'c':
            if rv[1]:
                if not (f0.prove_eq0(v['RL'] - pre['RL'] - 1) and f0.prove_eq0(v['PASS'] - pre['PASS']) and
                        g.pushed and g.pushed[-1] == ('ref', 'curr')):
                    bad.append(('D', 'AwaitLockShared suspends the caller without queueing exactly it'))
            else:
                if not (f0.prove_eq0(v['RL'] - pre['RL']) and f0.prove_eq0(v['PASS'] - pre['PASS'] + 1)):
                    bad.append(('D', 'AwaitLockShared lets the caller pass without consuming exactly one credit'))
        else:
            raise Unrecognised('AwaitLockShared: return value not constant on a path')
        for nme in ('W', 'L', 'P'):
            if not f0.prove_eq0(v[nme] - pre[nme]):
                bad.append(('A', 'AwaitLockShared changes the writer accounting (%s)' % nme))
    elif entry == 'AwaitLock':
        if not f0.prove_eq0(v['W'] - pre['W'] - 1):
            bad.append(('A', 'AwaitLock must register exactly one writer'))
        if f0.prove_eq0(pre['W']):
            if g.first != 'curr':
                bad.append(('N', 'the first writer is not stored in _writers_first: the last reader cannot resume it'))
            arm = [x for x in g.rw if x[0] == 'fetch_add']
            if f0.prove_eq0(pre['R']):
                if arm or not (rv is not None and rv[0] == 'c' and not rv[1]):
                    bad.append(('R', 'the first writer found no reader (R == 0) and must take the lock without '
                                'suspending and without arming _readers_wait: nobody would resume it'))
            elif f0.prove_ge0(pre['R'] - 1):
                if len(arm) != 1 or lin_of(arm[0][1]) is None or not f0.prove_eq0(lin_of(arm[0][1]) - pre['R']):
                    bad.append(('R', 'the first writer must arm _readers_wait with exactly the number of readers it '
                                'found registered (R), once'))
        else:
            if not g.curr_null:
                bad.append(('T', 'the appended node\'s next is not cleared'))
            if not (rv is not None and rv[0] == 'c' and rv[1]):
                bad.append(('N', 'a queued writer must suspend'))
        for nme in ('RL', 'PASS'):
            if not f0.prove_eq0(v[nme] - pre[nme]):
                bad.append(('D', 'AwaitLock changes the reader accounting (%s)' % nme))
    else:
        # lock-free entries: nothing but _state may change
        for nme in ('L', 'P', 'Q', 'RL', 'PASS'):
            if not f0.prove_eq0(v[nme] - pre[nme]):
                bad.append(('A', '%s changes %s outside the spinlock' % (entry, nme)))
        if entry in ('TryLockShared', 'TryLockSharedAwait', 'UnlockHereShared'):
            if not f0.prove_eq0(v['W'] - pre['W']):
                bad.append(('A', '%s changes the writer half of _state' % entry))
        if entry in ('TryLock', 'TryLockShared', 'TryLockAwait'):
            # a try operation that fails must be invisible: a transiently registered reader / writer is owed credits
            # (PassReaders) or waited for (_readers_wait) by whoever looks at _state in that window
            if rv is not None and rv[0] == 'c' and not rv[1] and g.state_writes:
                bad.append(('V', '%s reports failure on a path on which it modified _state (at %s): the transient '
                            'registration is visible to a leaving writer, which grants a credit / waits for a reader '
                            'that does not exist' % (entry, g.state_writes[0])))
            if rv is not None and rv[0] == 'c' and rv[1]:
                dw, dr = (1, 0) if entry != 'TryLockShared' else (0, 1)
                if not (f0.prove_eq0(v['W'] - pre['W'] - dw) and f0.prove_eq0(v['R'] - pre['R'] - dr)):
                    bad.append(('V', '%s reports success without registering exactly one %s' % (
                        entry, 'writer' if dw else 'reader')))
        if entry == 'UnlockHereShared':
            if not f0.prove_eq0(v['R'] - pre['R'] + 1):
                bad.append(('R', 'a shared unlock must remove exactly one reader from _state'))
            subs = [x for x in g.rw if x[0] == 'fetch_sub']
            cmps = [x for x in g.rw if x[0] == 'cmp' and x[1] == 'fetch_sub']
            runs = [r for r in g.runs if r[0] == 'first']
            if f0.prove_eq0(pre['W']):
                if g.rw or g.runs:
                    bad.append(('R', 'no writer is registered, yet the leaving reader touches _readers_wait / resumes '
                                'somebody'))
            elif f0.prove_ge0(pre['W'] - 1):
                if len(subs) != 1 or lin_of(subs[0][1]) is None or not f0.prove_eq0(lin_of(subs[0][1]) - 1):
                    bad.append(('R', 'a reader that leaves while a writer is registered must count itself out of '
                                '_readers_wait exactly once (fetch_sub(1))'))
                else:
                    last = bool(cmps) and lin_of(cmps[-1][2]) is not None and \
                        f0.prove_eq0(lin_of(cmps[-1][2]) - 1) and cmps[-1][3]
                    if bool(runs) != bool(last) or len(g.runs) != len(runs):
                        bad.append(('R', 'the armed first writer must be resumed exactly by the reader whose '
                                    'fetch_sub(1) returned 1 (the last one), and nobody else'))
    return bad


def variants(walker, st, g):
    """a compare-exchange whose outcome no branch tested: both outcomes"""
    if not g.cas:
        return [g]
    out = []
    items = list(g.cas.items())
    (k, cas) = items[0]
    for success in (True, False):
        g2 = g.copy()
        g2.cas.pop(k)
        st2 = st.copy()
        try:
            walker.resolve_cas(g2, st2, cas, success)
        except Infeasible:
            continue
        out += variants(walker, st2, g2)
    return out


def check(ctx, fb, cfg, rule):
    global KW
    kw = fb.vars.get(SM + '::kWriter', {}).get('v')
    kr = fb.vars.get(SM + '::kReader', {}).get('v')
    if kr != 1 or not isinstance(kw, int) or kw < 2 or kw & (kw - 1):
        ctx.assume('R-INV skipped: kReader/kWriter = %s/%s is not 1 / a power of two (R-CONST decides that)' % (kr, kw))
        return 0
    KW = kw  # the bit split used by the code itself; R-CONST checks that it is 32/32
    ctx.assume('R-INV: a critical section of the spinlock is one atomic transition for the writer half of _state (the '
               'only lock-free writer-half transitions are the exact-word CAS 0 -> kWriter and kWriter -> 0); '
               'List/Stack behave as sequences (PushBack, PopFront, Empty, move leaves the source empty); queued '
               'readers are registered in the reader half (R >= RL); a reader that failed TryLockSharedAwait and '
               'finds no writer holds a credit (clause D keeps that true)')
    fns = [f for f in fb.fn.values() if f.clsq == SM and f.cfg is not None and f.n in ENTRIES]
    done = 0
    for f in sorted(fns, key=lambda f: f.full):
        cta = f.cta if hasattr(f, 'cta') else None
        m = f.cls[f.cls.index('<') + 1:].split(',')[0].strip() if '<' in f.cls else ''
        if m not in ('true', 'false'):
            ctx.broken('R-INV: cannot read the FIFO option from %s' % f.cls)
        fifo = m == 'true'
        tag = ' :: ' + f.cls.replace('yaclib::detail::', '')
        key = 'R-INV SharedMutexImpl::' + f.n
        npaths = 0
        reported = set()
        for g0 in initial_states(fifo, f.n):
            w = InvWalker(fb, fifo)
            st = pathwalk.State()
            st.data['g'] = g0
            try:
                res = w.run(f, st)
            except Unrecognised as e:
                ctx.broken('R-INV %s: %s' % (f.full, e))
            except pathwalk.TooManyPaths as e:
                ctx.broken('R-INV %s: %s' % (f.full, e))
            ncase = 0
            for st1, rv in res:
                for g in variants(w, st1, st1.data['g']):
                    if g.facts.contradictory():
                        continue
                    npaths += 1
                    ncase += 1
                    try:
                        bad = check_post(w, g, f.n, rv, fifo)
                    except Unrecognised as e:
                        ctx.broken('R-INV %s: %s' % (f.full, e))
                    for clause, msg in bad:
                        if (clause, msg) in reported:
                            continue
                        reported.add((clause, msg))
                        ctx.report(rule, key + ' clause ' + clause, f.where, msg,
                                   'instantiation: %s\npre-state case: %s\npath:\n  %s' %
                                   (f.full[:200], g0.case, '\n  '.join(g.trace)))
            if ncase == 0:
                ctx.broken('R-INV %s: no feasible path from the pre-state case "%s" (the abstract evaluator lost '
                           'every path)' % (f.full, g0.case))
        if npaths == 0:
            ctx.broken('R-INV %s: no feasible path' % f.full)
        ctx.instance(rule, key + tag, dict(entry=f.n, options=f.cls[-14:], paths=npaths))
        done += 1
    return done
