"""R-LOCKAPI — the public entry points of the coroutine Mutex / SharedMutex do to the lock what their name says.

The protocol rules (R-WORD, R-SHAPE, R-INV ...) decide the lock word and the queues; this rule decides the thin layer
above them, which is what user code calls:
  (A) guard tags: a guard built in `await_resume` of a lock awaiter (the lock was just acquired) or for the sticky
      guard awaiter is built with std::adopt_lock; one built by TryGuard / TrySharedGuard with std::try_to_lock — an
      adopting TryGuard claims a lock it never took, a deferring Guard() never releases the one it took;
  (B) unlock awaiters (`*Unlock*Awaiter`): on every path of await_ready, returning true means the lock has been
      released exactly once on that path (true edge of TryUnlockAwait, or UnlockHereAwait / UnlockHere), returning
      false means it has not (await_suspend will hand it over: it must call AwaitUnlock / AwaitUnlockOn);
  (C) lock awaiters: LockAwaiter<M, Shared> only calls the shared entry points of the mutex iff Shared.
"""
from vlib import pathwalk

TAGS = ('adopt_lock_t', 'try_to_lock_t', 'defer_lock_t')


class _ReadyWalker(pathwalk.Walker):
    loop_bound = 1

    def on_edge(self, fn, ci, taken, st):
        c = fn.sn(ci)
        neg = False
        while c is not None and c['k'] == 'UnaryOperator' and c['op'] == '!':
            neg = not neg
            c = fn.sn(c['ch'][0])
        if c is None:
            return
        names = [fn.nodes[j].get('cn', '').split('::')[-1] for j in [c['i']] + list(fn.deep_descendants(c['i']))]
        if any(x.startswith('TryUnlock') for x in names):
            st.events.append(('try-unlock', taken != neg, fn.loc(c)))

    def on_node(self, fn, n, st):
        if n['k'] == 'CXXMemberCallExpr':
            last = n.get('cn', '').split('::')[-1]
            if last.startswith('UnlockHere') or last in ('Unlock', 'UnlockShared'):
                st.events.append(('unlock', last, fn.loc(n)))


def _guard_tag(fn, n):
    """tag type of a guard construction node, or None"""
    t = n.get('t') or ''
    if 'Guard<' not in t or 'Awaiter' in t:
        return None
    for a in n.get('args') or n.get('ch') or []:
        m = fn.sn(a)
        if m is None:
            continue
        mt = (m.get('t') or '')
        for tag in TAGS:
            if tag in mt:
                return tag
    return None


def check_lock_api(ctx, fb, rule, files=('coro/mutex.hpp', 'coro/shared_mutex.hpp', 'coro/guard_sticky.hpp',
                                          'coro/detail/mutex_awaiter.hpp')):
    n = 0
    for f in sorted(fb.fn.values(), key=lambda f: f.full):
        if f.cfg is None or not any(f.file.endswith(x) for x in files):
            continue
        # ---- (A)
        for x in f.own_nodes():
            if x['k'] not in ('CXXConstructExpr', 'CXXTemporaryObjectExpr', 'CXXFunctionalCastExpr', 'InitListExpr'):
                continue
            tag = _guard_tag(f, x)
            if tag is None:
                continue
            want = None
            if f.n == 'await_resume' or (f.n.endswith('GuardStickyAwaiter') and 'ctor' in f.flags):
                want = 'adopt_lock_t'
            elif f.n.startswith('Try') and 'Guard' in f.n:
                want = 'try_to_lock_t'
            if want is None:
                continue
            key = 'R-LOCKAPI guard tag in %s::%s' % (f.clsq.split('::')[-1], f.n)
            n += 1
            ctx.instance(rule, key + ' :: ' + f.full[:120], dict(tag=tag))
            if tag != want:
                ctx.report(rule, key, f.loc(x), '%s builds its guard with std::%s instead of std::%s: %s' % (
                    f.qn.split('::', 1)[1], tag[:-2], want[:-2],
                    'the guard claims a lock nobody acquired (two owners)' if want == 'try_to_lock_t' else
                    'the guard does not own the lock that was just acquired: it is never released'),
                    'instantiation: ' + f.full[:300])
        # ---- (B)
        if 'Unlock' in f.clsq.split('::')[-1] and f.clsq.endswith('Awaiter'):
            if f.n == 'await_ready':
                key = 'R-LOCKAPI %s::await_ready' % f.clsq.split('::')[-1]
                res = _ReadyWalker(fb).run(f)
                n += 1
                ctx.instance(rule, key + ' :: ' + f.full[:120], dict(paths=len(res)))
                for st, rv in res:
                    if rv is None or rv[0] != 'c':
                        ctx.broken('R-LOCKAPI: %s returns a computed value' % f.full[:120])
                    rel = [e for e in st.events if e[0] == 'unlock' or (e[0] == 'try-unlock' and e[1])]
                    if bool(rv[1]) and len(rel) != 1:
                        ctx.report(rule, key, f.where, 'a path reports "ready" (the coroutine continues without '
                                   'suspending) having released the lock %d times: %s' % (
                                       len(rel), 'the lock stays held and its waiters are stuck' if not rel else
                                       'the next owner\'s lock is released under it'), 'instantiation: ' + f.full[:300])
                        break
                    if not bool(rv[1]) and rel:
                        ctx.report(rule, key, rel[0][-1], 'a path releases the lock and still suspends: await_suspend '
                                   'hands it over a second time', 'instantiation: ' + f.full[:300])
                        break
            elif f.n == 'await_suspend':
                key = 'R-LOCKAPI %s::await_suspend' % f.clsq.split('::')[-1]
                n += 1
                ctx.instance(rule, key + ' :: ' + f.full[:120], None)
                if not any(c['cn'].split('::')[-1].startswith('AwaitUnlock') for c in f.calls()):
                    ctx.report(rule, key, f.where, 'the suspending path of the unlock awaiter does not hand the lock over '
                               '(no AwaitUnlock* call)', 'instantiation: ' + f.full[:300])
        # ---- (C)
        if f.clsq.endswith('::LockAwaiter') and f.n in ('await_ready', 'await_suspend') and len(f.cta or []) >= 2:
            shared = f.cta[1] in ('1', 'true')
            key = 'R-LOCKAPI LockAwaiter<%s>::%s' % ('shared' if shared else 'exclusive', f.n)
            n += 1
            ctx.instance(rule, key + ' :: ' + f.full[:120], None)
            called = [c['cn'].split('::')[-1] for c in f.calls() if 'Lock' in c['cn'].split('::')[-1]]
            if not called:
                ctx.broken('R-LOCKAPI: %s calls no lock entry point' % f.full[:120])
            wrong = [x for x in called if ('Shared' in x) != shared]
            if wrong:
                ctx.report(rule, key, f.where, 'the %s lock awaiter calls %s: the lock is taken in the other mode' % (
                    'shared' if shared else 'exclusive', wrong[0]), 'instantiation: ' + f.full[:300])
    return n
