"""R-HEAD — every kind of Task head can be started by another step / by co_await.

A lazy pipeline is started by calling Here()/Next() (through Step/Loop) on its head (the core returned by
MoveToCaller) from: Core::CallResolveAsync (a continuation returned the Task), TransferAwaiter /
TransferSingleAwaiter (co_await).  The head has never run: its fields still have their construction values
(_self.caller == nullptr, _self.unwrapping == 0) and the starter is NOT a completed ResultCore.
For every head kind (Core<…Run…> from Schedule, PromiseCore<…,false> from LazyContract, ReadyCore from MakeTask,
PromiseType<…,Lazy> from a coroutine) the final overrider of Here/Next is partially evaluated with those
construction values, helpers (Impl, the async_done lambda) inlined; on every path
  (1) nothing is dereferenced through the null _self.caller,
  (2) the starter is not read as a completed ResultCore (Get/MoveOrConst/DecRef on it) unless the path passed
      the true edge of a readiness test of the starter,
  (3) the head's own work is reached (Submit(*this), Call(), SetResult after a constructor Store, resume).
R-HEAD.2: the overrider does not move the starter's _executor away (a pipeline step needs it afterwards).
"""
from vlib import pathwalk
from vlib.pathwalk import UNKNOWN

STARTER = ('starter',)
THIS = ('this',)
TRANSPARENT = ('yaclib::DownCast', 'yaclib::UpCast', 'std::move', 'std::forward', 'std::as_const')


class HeadWalker(pathwalk.Walker):
    loop_bound = 1
    max_paths = 5000

    def inline(self, fn, n, st):
        g = self.fb.fn.get(n.get('ck'))
        if g is None or g.cfg is None or st.depth >= 4:
            return None
        if g.n == 'Impl' and g.qn.startswith('yaclib::detail::'):
            return g
        if 'lambda' in g.flags and g.parent == fn.key:
            return g
        return None

    def on_inline(self, fn, n, g, st):
        # captured variables of a local lambda: same names in the enclosing function
        if 'lambda' in g.flags:
            names = {}
            for (d, lid), v in list(st.locals.items()):
                if d == st.depth:
                    names[fn.locals[lid]['n']] = v
            for lid, l in enumerate(g.locals):
                if l['n'] in names:
                    st.locals[(st.depth + 1, lid)] = names[l['n']]

    def member_value(self, fn, n, st):
        dn = n['dn']
        if dn == 'yaclib::detail::Callback::caller' or dn == 'yaclib::detail::Callback::unwrapping':
            base = self.ev(fn, n['ch'][0], st) if n.get('ch') else UNKNOWN
            # only the head's own _self
            return ('c', 0)
        if dn.endswith('::_self') or dn.endswith('(anonymous)'):
            return THIS
        if dn == 'yaclib::detail::BaseCore::_executor':
            base = self.ev(fn, n['ch'][0], st) if n.get('ch') else UNKNOWN
            if base == STARTER:
                return ('starter_exec',)
        return None

    def ev_extra(self, fn, n, st):
        k = n['k']
        if k == 'CXXThisExpr':
            return THIS
        if k == 'UnaryOperator' and n['op'] in ('*', '&'):
            return self.ev(fn, n['ch'][0], st)
        if k == 'CallExpr' and n.get('cn') in TRANSPARENT and n.get('args'):
            return self.ev(fn, n['args'][0], st)
        if k in ('CXXMemberCallExpr', 'CallExpr', 'CXXOperatorCallExpr'):
            v = st.data.get(('ret', st.depth, n['i']))
            return v
        return None

    def call_value(self, fn, n, st):
        if n['k'] == 'CallExpr' and n.get('cn') in TRANSPARENT and n.get('args'):
            return self.ev(fn, n['args'][0], st)
        return UNKNOWN

    def on_node(self, fn, n, st):
        k = n['k']
        loc = fn.loc(n)
        if k == 'UnaryOperator' and n['op'] == '*':
            if self.ev(fn, n['ch'][0], st) == ('c', 0):
                st.events.append(('null-deref', loc, fn.text(n['i'])))
            return
        if k == 'MemberExpr' and n.get('arrow') and n.get('ch'):
            if self.ev(fn, n['ch'][0], st) == ('c', 0) and not n['dn'].startswith('yaclib::detail::Callback'):
                st.events.append(('null-deref', loc, fn.text(n['i'])))
            return
        if k == 'CallExpr':
            cn = n.get('cn', '')
            if cn == 'std::move' and n.get('args'):
                a = fn.sn(n['args'][0])
                if a is not None and a['k'] == 'MemberExpr' and a['dn'] == 'yaclib::detail::BaseCore::_executor' and \
                        self.ev(fn, a['ch'][0], st) == STARTER:
                    st.events.append(('exec-steal', loc))
            return
        if k != 'CXXMemberCallExpr':
            return
        cn = n['cn']
        last = cn.split('::')[-1]
        obj = self.ev(fn, n['obj'], st)
        if cn == 'yaclib::IExecutor::Submit':
            st.events.append(('own', 'Submit', loc))
        elif last == 'Call' and obj == THIS:
            st.events.append(('own', 'Call', loc))
        elif last in ('SetResult', 'SetResultImpl') and obj == THIS:
            st.events.append(('own', 'SetResult', loc))
        elif last in ('resume', 'Curr') and ('coroutine_handle' in cn or obj == THIS):
            st.events.append(('own', 'resume', loc))
        elif last in ('Get', 'MoveOrConst', 'Retire', 'DecRef') and ('Core' in cn or 'IRef' in cn):
            if obj == STARTER:
                st.events.append(('starter-' + ('decref' if last == 'DecRef' else 'result'), loc,
                                  st.data.get('starter_ready')))
            elif obj == ('c', 0):
                st.events.append(('null-deref', loc, fn.text(n['i'])))

    def on_edge(self, fn, ci, taken, st):
        for j in fn.descendants(ci):
            m = fn.nodes[j]
            if m['k'] == 'CXXMemberCallExpr' and m['cn'] == 'yaclib::detail::BaseCore::Ready' and \
                    self.ev(fn, m['obj'], st) == STARTER:
                c = fn.sn(ci)
                neg = False
                while c['k'] == 'UnaryOperator' and c['op'] == '!':
                    neg = not neg
                    c = fn.sn(c['ch'][0])
                if c['i'] == m['i']:
                    st.data['starter_ready'] = (taken != neg)


def head_kind(f):
    """classify a Here/Next overrider as a Task-head kind, or None"""
    if f.clsq == 'yaclib::detail::Core':
        try:
            bits = int(f.cta[4])
        except (ValueError, IndexError):
            return None
        if bits & 1 and not bits & 32:  # Run, not ToShared
            return 'Core<Run> (Schedule)'
        return None
    if f.clsq == 'yaclib::detail::ReadyCore':
        return 'ReadyCore (MakeTask)'
    if f.clsq == 'yaclib::detail::PromiseType' and len(f.cta) >= 4 and f.cta[2] in ('true', '1'):
        return 'PromiseType<Lazy> (coroutine Task)'
    return None


def promise_core_heads(fb):
    """PromiseCore<V,E,Func,false> (LazyContract) — its Here/Next may be inherited from UniqueCore"""
    out = []
    for r in fb.records.values():
        if r.qn == 'yaclib::detail::PromiseCore' and r.ta and r.ta[-1] in ('false', '0'):
            out.append(r)
    return out


def find_overrider(fb, rec, name):
    """final overrider of virtual `name` for class rec: own method, else first base that defines it"""
    order = [rec.name] + fb.all_bases(rec.name)
    for cname in order:
        r = fb.records.get(cname)
        if not r:
            continue
        for m in r.methods:
            if m['n'] == name and not m['pure']:
                f = fb.fn.get(m['key'])
                if f is not None:
                    return f
    return None


def check(ctx, fb, cfg, r_head, r_head2):
    heads = []
    for f in fb.fn.values():
        if f.n in ('Here', 'Next') and 'virtual' in f.flags:
            hk = head_kind(f)
            if hk:
                heads.append((hk, f.cls, f))
    for rec in promise_core_heads(fb):
        for name in ('Here', 'Next'):
            f = find_overrider(fb, rec, name)
            if f is not None:
                heads.append(('PromiseCore<!Shared> (LazyContract)', rec.name, f))
    kinds = {h[0] for h in heads}
    need = {'Core<Run> (Schedule)', 'ReadyCore (MakeTask)', 'PromiseCore<!Shared> (LazyContract)'}
    if cfg != 'K17':
        need.add('PromiseType<Lazy> (coroutine Task)')
    if not need <= kinds:
        ctx.broken('R-HEAD: head kinds %s not instantiated in %s' % (sorted(need - kinds), cfg))
    for hk, cls, f in sorted(heads, key=lambda h: (h[0], h[1], h[2].n)):
        key = 'head=%s %s' % (hk, f.n)
        w = HeadWalker(fb)
        st = pathwalk.State()
        try:
            res = w.run(f, st, [STARTER])
        except pathwalk.TooManyPaths as e:
            ctx.broken('R-HEAD: %s: %s' % (f.full[:120], e))
        ctx.instance(r_head, key + ' :: ' + cls[:120], dict(head_kind=hk, overrider=f.full[:200], where=f.where,
                                                           paths=len(res), config=cfg))
        if not res:
            ctx.broken('R-HEAD: no path through %s' % f.full[:160])
        problems = []
        steal = None
        for st2, rv in res:
            ev = st2.events
            first_own = next((i for i, e in enumerate(ev) if e[0] == 'own'), None)
            upto = ev if first_own is None else ev[:first_own]
            for e in upto:
                if e[0] == 'null-deref':
                    problems.append(('dereferences the never-set _self.caller (%s) before doing its own work' % e[2],
                                     e[1]))
                elif e[0] in ('starter-result', 'starter-decref') and e[2] is not True:
                    problems.append(('treats the starter as a completed ResultCore (%s) without testing that it '
                                     'holds a result' % e[0].split('-')[1], e[1]))
            if first_own is None and not problems:
                problems.append(('a path never reaches the head\'s own work (Submit/Call/SetResult/resume)',
                                 f.where))
            for e in ev:
                if e[0] == 'exec-steal':
                    steal = e[1]
        if problems:
            msg, loc = problems[0]
            ctx.report(r_head, 'R-HEAD ' + key, loc,
                       'started as the head of a lazy pipeline by another step / co_await, this overrider ' + msg,
                       'overrider: %s\nclass: %s' % (f.full[:300], cls[:300]))
        if r_head2 is not None:
            ctx.instance(r_head2, key + ' :: ' + cls[:120], None)
            if steal:
                ctx.report(r_head2, 'R-HEAD.2 start=Core::CallResolveAsync ' + key, steal,
                           'the head moves the starter\'s _executor away: a pipeline step that flattens this Task '
                           'loses the executor its next Then(f) must inherit',
                           'overrider: %s' % f.full[:300])
